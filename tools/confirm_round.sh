#!/bin/bash
# usage: confirm_round.sh <agents root dir> <first index>   e.g. /tmp/mut2 3  -> ids Cxx-m3, Cxx-m4
root="$1"; first="${2:-3}"
for d in $root/C*/; do
  p=$(basename $d)
  for k in 1 2; do
    id="$p-m$((first+k-1))"
    [ -f "$d/MUTANT$k.diff" ] || { echo "$id: no MUTANT$k.diff"; continue; }
    [ -d /verif/seeded/$id ] && { echo "$id: already confirmed"; continue; }
    /verif/tools/confirm_mutant.sh "$d" $k $id $p 2>&1 | tail -2 | sed "s/^/$id: /"
  done
done
