#!/usr/bin/env python3
"""Prints the prompt for a benign-refactoring sub-agent: property texts + scratch worktree only."""
import json, sys
d = sys.argv[1]
pids = sys.argv[2:]
props = {json.loads(l)['id']: json.loads(l) for l in open('/verif/properties.jsonl')}
txt = ""
for pid in pids:
    p = props[pid]
    files = ", ".join(p['anchors']['files'])
    txt += f"""
  [{pid}] {p['title']}
  Statement: {p['statement']}
  Code it is anchored in: {files}
"""
print(f"""You are working in a scratch git worktree of the Go repository cloudflare/pat-go at {d} (Go module github.com/cloudflare/pat-go: a reference implementation of IETF Privacy Pass token issuance, with key-blinding ECDSA/Ed25519 forks and wire codecs). Work ONLY inside {d}. Do not read or use anything under /verif or /root/.vp, and do not touch /repo. The sandbox has no network. For every go command first run:
  export GOFLAGS=-mod=mod GOPROXY=off GOSUMDB=off GOTOOLCHAIN=local; unset GOWORK

Here are semantic properties that this code base satisfies today:
{txt}
Your task: for EACH property above produce THREE different, realistic, BEHAVIOUR-PRESERVING changes to the repository's non-test Go source in the code the property is anchored in - the kind of maintenance edit a careful developer makes that leaves the property (and all observable behaviour) intact. This round is about PERFORMANCE-ORIENTED and HARDENING edits, the kind a maintainer makes after profiling or a security review, that still leave every observable result identical. The three changes for a property must differ in kind and in the functions they touch. Kinds wanted (touch the code that actually implements the property, not comments or unrelated files):
  - allocation work: preallocate with the exact capacity, replace append-in-a-loop by make+copy or the reverse, reuse a local buffer WITHIN one call (never across calls), avoid an intermediate slice, use a fixed-size array where the size is provably constant and large enough for every input;
  - hoisting and precomputation: move a loop-invariant computation out of a loop; compute a lookup table (map or slice) in a separate loop BEFORE the loop that uses it; compute a value once and pass it down instead of recomputing it in a callee;
  - sound early exits: an early length/shape pre-check that refuses ONLY inputs that the existing code refuses anyway (state in the note why no valid input is refused); an early return for an empty input that yields exactly what the general path yields;
  - stricter internal hygiene with identical outcomes: wrap errors with %w, give an error a name, zero a secret buffer after use with clear(), use defer for cleanup, replace a panic-free manual bounds test by an equivalent one;
  - equivalent arithmetic/encoding forms: shifts vs multiplication, binary.BigEndian helpers vs manual shifts, bits.Len-style computations vs comparisons chains where the results agree for EVERY input (say why);
  - API plumbing: add an unexported helper used at two or more call sites; thread a parameter through instead of re-reading a field; return a small struct instead of several results; split a long function into stages.
Each change must (a) compile (`go build ./...`), (b) keep the complete existing test suite passing unchanged (`go test -vet=off -count=1 ./...`), and (c) genuinely preserve the property for ALL inputs, schedules and histories - if you are not sure an edit is behaviour-preserving in every case, do not use it. Keep each change moderate in size (roughly 5-60 changed lines). Do not modify tests. Do NOT use `git stash`: save each change with `git diff > file` and use `git checkout -- .` to return to the clean tree.

For each property id P and k in {{1,2,3}} deliver, in {d}:
  - BENIGN4_<P>_<k>.diff : the change, as a unified diff that applies with `git apply` to a clean checkout of HEAD (create with `git diff -- . ':!*_test.go' > BENIGN4_<P>_<k>.diff` while only that change is applied);
  - one line in BENIGN4.md per change: id, files touched, what kind of edit it is, and why behaviour is unchanged, plus confirmation that build and the full suite passed with it.
Leave the worktree clean (git checkout -- .) so only the deliverable files remain as untracked files. Finish with a short list of what you produced.""")
