#!/usr/bin/env python3
# Regenerates the seeded-change table in DESIGN.md (between the MATRIX markers) from seeded/*/meta.json.
import json,glob,os,re
os.chdir(os.path.dirname(os.path.abspath(__file__))+'/..')
rows=[]
for d in sorted(glob.glob('seeded/*/meta.json')):
    m=json.load(open(d))
    note=''
    try:
        note=open(d.replace('meta.json','agent_notes.md')).read().split('\n')[0].lstrip('# ').strip()
        note=re.sub(r'^MUTANT ?\d+ +- +','',note)
    except Exception: pass
    own='yes' if m['property'] in m.get('detected_by',[]) else 'NO'
    rows.append('| %s | %s | %s | %s |'%(m['id'],note[:120].replace('|','/'),' '.join(m.get('detected_by',[])) or 'NONE',own))
t='| change | what it does | detected by | by its own property\'s check |\n|---|---|---|---|\n'+'\n'.join(rows)+'\n'
s=open('DESIGN.md').read()
a=s.index('<!-- MATRIX-BEGIN -->')+len('<!-- MATRIX-BEGIN -->\n')
b=s.index('<!-- MATRIX-END -->')
open('DESIGN.md','w').write(s[:a]+t+s[b:])
print(len(rows),'rows')
