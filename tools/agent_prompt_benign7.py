#!/usr/bin/env python3
"""Prints the prompt for a benign-refactoring sub-agent: property texts + scratch worktree only."""
import json, sys
d = sys.argv[1]
pids = sys.argv[2:]
props = {json.loads(l)['id']: json.loads(l) for l in open('/verif/properties.jsonl')}
txt = ""
for pid in pids:
    p = props[pid]
    files = ", ".join(p['anchors']['files'])
    txt += f"""
  [{pid}] {p['title']}
  Statement: {p['statement']}
  Code it is anchored in: {files}
"""
print(f"""You are working in a scratch git worktree of the Go repository cloudflare/pat-go at {d} (Go module github.com/cloudflare/pat-go: a reference implementation of IETF Privacy Pass token issuance, with key-blinding ECDSA/Ed25519 forks and wire codecs). Work ONLY inside {d}. Do not read or use anything under /verif or /root/.vp, and do not touch /repo. The sandbox has no network. For every go command first run:
  export GOFLAGS=-mod=mod GOPROXY=off GOSUMDB=off GOTOOLCHAIN=local; unset GOWORK

Here are semantic properties that this code base satisfies today:
{txt}
Your task: for EACH property above produce THREE different, realistic, BEHAVIOUR-PRESERVING changes to the repository's non-test Go source in the code the property is anchored in - the kind of maintenance edit a careful developer makes that leaves the property (and all observable behaviour) intact. The tree has recently received several small bug fixes (see `git log`); your edits must keep those fixes effective. Make each change the kind of edit that arrives as a pull request answering an issue or a profile, done CORRECTLY so that nothing observable changes: two near-duplicate functions (in one file or across two packages) unified into one shared helper that keeps what each caller did differently; a convenience function or small unexported type introduced and the existing code routed through it; decoding prologues or framing code shared between a request and a response decoder with each keeping its own minimum lengths; a memo or cache that is keyed by everything the result depends on, copies what it stores and hands out, and is safe for concurrent use; an optional field added to a struct with every use guarded; a lookup key or name passed through one normalising helper on BOTH the storing and the looking-up side where the normalisation is the identity on every value that can occur; a library call migrated to a newer equivalent whose edge cases are the same; error values wrapped or reordered without changing when an error is returned; an object made reusable by resetting all of its state at the start of each use. The three changes for a property must differ in kind and in the functions they touch, and each should touch the property's code path in TWO OR MORE places.
Each change must (a) compile (`go build ./...`), (b) keep the complete existing test suite passing unchanged (`go test -vet=off -count=1 ./...`), and (c) genuinely preserve the property for ALL inputs, schedules and histories - if you are not sure an edit is behaviour-preserving in every case, do not use it. Keep each change moderate in size (roughly 5-60 changed lines). Do not modify tests. Do NOT use `git stash`: save each change with `git diff > file` and use `git checkout -- .` to return to the clean tree.

For each property id P and k in {{1,2,3}} deliver, in {d}:
  - BENIGN7_<P>_<k>.diff : the change, as a unified diff that applies with `git apply` to a clean checkout of HEAD (create with `git diff -- . ':!*_test.go' > BENIGN7_<P>_<k>.diff` while only that change is applied);
  - one line in BENIGN7.md per change: id, files touched, what kind of edit it is, and why behaviour is unchanged, plus confirmation that build and the full suite passed with it.
Leave the worktree clean (git checkout -- .) so only the deliverable files remain as untracked files. Finish with a short list of what you produced.""")
