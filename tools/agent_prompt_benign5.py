#!/usr/bin/env python3
"""Prints the prompt for a benign-refactoring sub-agent: property texts + scratch worktree only."""
import json, sys
d = sys.argv[1]
pids = sys.argv[2:]
props = {json.loads(l)['id']: json.loads(l) for l in open('/verif/properties.jsonl')}
txt = ""
for pid in pids:
    p = props[pid]
    files = ", ".join(p['anchors']['files'])
    txt += f"""
  [{pid}] {p['title']}
  Statement: {p['statement']}
  Code it is anchored in: {files}
"""
print(f"""You are working in a scratch git worktree of the Go repository cloudflare/pat-go at {d} (Go module github.com/cloudflare/pat-go: a reference implementation of IETF Privacy Pass token issuance, with key-blinding ECDSA/Ed25519 forks and wire codecs). Work ONLY inside {d}. Do not read or use anything under /verif or /root/.vp, and do not touch /repo. The sandbox has no network. For every go command first run:
  export GOFLAGS=-mod=mod GOPROXY=off GOSUMDB=off GOTOOLCHAIN=local; unset GOWORK

Here are semantic properties that this code base satisfies today:
{txt}
Your task: for EACH property above produce THREE different, realistic, BEHAVIOUR-PRESERVING changes to the repository's non-test Go source in the code the property is anchored in - the kind of maintenance edit a careful developer makes that leaves the property (and all observable behaviour) intact. The tree has recently received several small bug fixes (see `git log`); your edits must keep those fixes effective. Make each change the kind of edit that shows up in a real pull request: a small feature-neutral clean-up that touches the property's code path in TWO OR MORE places at once (for example a helper introduced and used at several call sites, a type or field renamed throughout, an error-handling convention applied across a file, parameters reordered or grouped into a struct, a loop and its bounds rewritten together). The three changes for a property must differ in kind and in the functions they touch. Examples of the kinds wanted (touch the code that actually implements the property, not comments or unrelated files):
  - modernise idioms (min/max builtins, slices/bytes helpers such as bytes.Clone, clear, errors.Is/As, strings.Cut), replace a hand-written loop by a library call or vice versa;
  - restructure control flow (invert a condition, merge two ifs, hoist or sink a declaration, replace if-chain by switch, replace a sentinel variable by early returns, use a named result or remove one);
  - change data plumbing (pass a struct by pointer instead of by value or vice versa, return a struct instead of several results, introduce a small unexported type or method, turn a closure into a method);
  - extract a helper function or inline one; move a check into a small named predicate; split or merge functions;
  - rename variables/fields/functions (unexported ones), reorder independent statements, early-return vs nested-if, switch vs if-chain, for-range vs index loop;
  - replace a literal by a named constant of the same value or vice versa; compute the same quantity with an equivalent expression;
  - use a different but equivalent standard-library or dependency API (e.g. bytes.Equal vs subtle.ConstantTimeCompare==1 where both compare whole values, append vs make+copy, cryptobyte.Builder vs manual appends for the same layout, binary.BigEndian vs shifts);
  - add a defensive check that cannot change the outcome on valid or invalid inputs already rejected; add a pure cache-free fast path that returns the same result;
  - change a value receiver to a pointer receiver or back where that is safe; change how an error is wrapped (fmt.Errorf with %w) without changing when it is returned.
Each change must (a) compile (`go build ./...`), (b) keep the complete existing test suite passing unchanged (`go test -vet=off -count=1 ./...`), and (c) genuinely preserve the property for ALL inputs, schedules and histories - if you are not sure an edit is behaviour-preserving in every case, do not use it. Keep each change moderate in size (roughly 5-60 changed lines). Do not modify tests. Do NOT use `git stash`: save each change with `git diff > file` and use `git checkout -- .` to return to the clean tree.

For each property id P and k in {{1,2,3}} deliver, in {d}:
  - BENIGN5_<P>_<k>.diff : the change, as a unified diff that applies with `git apply` to a clean checkout of HEAD (create with `git diff -- . ':!*_test.go' > BENIGN5_<P>_<k>.diff` while only that change is applied);
  - one line in BENIGN5.md per change: id, files touched, what kind of edit it is, and why behaviour is unchanged, plus confirmation that build and the full suite passed with it.
Leave the worktree clean (git checkout -- .) so only the deliverable files remain as untracked files. Finish with a short list of what you produced.""")
