#!/bin/bash
# usage: run_benign.sh <file.diff> [<file.diff> ...]   Applies each behaviour-preserving change to /repo, runs all claimed
# quick checks, reverts. Any non-zero exit is a false alarm of the machinery (prints the failing lines).
cd /verif; REPO=${REPO:-/repo}
export GOFLAGS=-mod=mod GOPROXY=off GOSUMDB=off GOTOOLCHAIN=local; unset GOWORK
props=$(python3 -c "import json;print(' '.join(c['property_id'] for c in json.load(open('MANIFEST.json'))['checks']))")
(cd checker && go build -o ../bin/patcheck .) || exit 2
tmp=$(mktemp -d)
for d in "$@"; do
  id=$(basename $d .diff)
  if ! git -C $REPO diff --quiet; then echo "repo dirty"; exit 2; fi
  git -C $REPO apply $d || { echo "$id: patch does not apply"; continue; }
  if ! (cd $REPO && go build ./... 2>$tmp/build.txt); then echo "$id: does not build"; git -C $REPO checkout -- . ; git -C $REPO clean -fdq -- . ; continue; fi
  for p in $props; do
    ( ./bin/patcheck -prop $p -repo $REPO -tier quick -evidence $tmp/ev_$p.json >$tmp/out_$p.txt 2>&1; echo $? >$tmp/code_$p ) &
    while [ $(jobs -r | wc -l) -ge 6 ]; do sleep 0.2; done
  done
  wait
  hit=""
  for p in $props; do
    code=$(cat $tmp/code_$p)
    if [ "$code" != 0 ]; then hit="$hit $p"; fi
  done
  git -C $REPO checkout -- . ; git -C $REPO clean -fdq -- . >/dev/null 2>&1
  echo "$id: alarms:${hit:- none}"
  for p in $hit; do grep -E "violated|undecided|instances <|panic|integrity" $tmp/out_$p.txt | cut -c1-${CLIP:-400} | head -${HEAD:-6} | sed "s/^/      [$p] /"; done
done
rm -rf $tmp
