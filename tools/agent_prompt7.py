#!/usr/bin/env python3
"""Prints the prompt for a mutation sub-agent: property text + scratch worktree only."""
import json, sys
pid, d = sys.argv[1], sys.argv[2]
p = [json.loads(l) for l in open('/verif/properties.jsonl') if json.loads(l)['id'] == pid][0]
print(f"""You are working in a scratch git worktree of the Go repository cloudflare/pat-go at {d} (Go module github.com/cloudflare/pat-go: a reference implementation of IETF Privacy Pass token issuance, with key-blinding ECDSA/Ed25519 forks and wire codecs). Work ONLY inside {d}. Do not read or use anything under /verif or /root/.vp, and do not touch /repo. The sandbox has no network. For every go command first run:
  export GOFLAGS=-mod=mod GOPROXY=off GOSUMDB=off GOTOOLCHAIN=local; unset GOWORK

Here is a semantic property that this code base is supposed to satisfy:

  Title: {p['title']}
  Statement: {p['statement']}
  It must hold for: {p['quantifier']['text']}

Your task: produce TWO different realistic changes ("mutants") to the repository's non-test Go source, each of which BREAKS this property, while
  (a) the code still compiles (`go build ./...`),
  (b) the complete existing test suite still passes unchanged (`go test -vet=off -count=1 ./...`), and
  (c) the breakage needs something specific to manifest - a particular unusual input, a multi-step sequence of operations, a particular interleaving, a fault at a particular point, or two cooperating sites that each look fine alone - rather than being exposed at once by ordinary use.
Each mutant must LOOK LIKE a routine modernisation or migration commit - moving to newer Go idioms and library helpers (min/max builtins, range-over-int, clear, slices/bytes/maps/strings helpers such as slices.Equal, bytes.Cut, bytes.TrimRight, strings.Cut, slices.Grow, append-based cloning, binary.BigEndian.AppendUint16, errors.Join/Is/As, sync.OnceValue, atomic.Pointer), replacing hand-written loops by library calls or the reverse, swapping one dependency API for a near-equivalent (cryptobyte reader vs manual slicing, Builder vs append, big.Int FillBytes vs Bytes, subtle.ConstantTimeCompare vs bytes.Equal, hkdf.Expand vs hkdf.New, sha512.Sum384 vs New384/Write/Sum, elliptic vs the curve's own methods), changing integer types or conversions, turning value receivers into pointer receivers or back, converting a struct copy into a shared pointer, or restructuring control flow (early returns, switch for if-chains, loop inversion) - but contain a subtle error in that very edit: the new helper differs from the old code in an edge case (empty or nil input, a zero byte, a leading zero, a length that is an exact multiple, the last iteration, a value at a type's boundary), an off-by-one in a rewritten bound, a conversion that truncates or sign-extends for some values, a now-shared pointer where a copy was relied on, a changed evaluation order, an inverted or weakened condition in a rewritten branch, a comparison that now ignores length or order. No sabotage with obviously dead giveaways. The two mutants should be as different in kind and location as you can make them. Do not modify, delete or skip existing tests. Do NOT use `git stash` (the stash is shared with other worktrees of this repository): save your change with `git diff > file` and use `git apply` / `git apply -R` to switch between the mutated and the clean tree.

For each mutant k in {{1,2}} deliver, in {d}:
  - MUTANT<k>.diff : the change to non-test source only, as a unified diff that applies with `git apply` to a clean checkout of HEAD (create it with `git diff -- . ':!*_test.go' ':!MUTANT*' > MUTANT<k>.diff` while only that mutant is applied);
  - demo<k>_test.go.txt : a self-contained Go test file (state at the top which package directory it must be copied into and under which name, e.g. tokens/type3/zz_demo_test.go) that FAILS with the mutant applied and PASSES on the unmodified HEAD. You must actually run it both ways and confirm;
  - MUTANT<k>.md : what was changed and why it is plausible, why it breaks the property, what exactly is needed for the breakage to manifest, and the commands you ran with their results (build, full suite with the mutant, demo with and without the mutant).
When you are done, leave the worktree clean of the mutants themselves (git checkout -- . ; remove any copied demo test files) so that only the deliverable files remain as untracked files. Finish with a short summary of the two mutants.""")
