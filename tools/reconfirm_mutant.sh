#!/bin/bash
# reconfirm an existing seeded mutant against the current /repo HEAD
id=$1
export GOFLAGS=-mod=mod GOPROXY=off GOSUMDB=off GOTOOLCHAIN=local; unset GOWORK
wt=/tmp/reconf_$id
git -C /repo worktree remove --force $wt >/dev/null 2>&1
git -C /repo worktree add -f --detach $wt HEAD >/dev/null 2>&1 || { echo "$id worktree failed"; exit 2; }
trap "git -C /repo worktree remove --force $wt >/dev/null 2>&1" EXIT
cd $wt
dest=$(python3 -c "import json;print(json.load(open('/verif/seeded/$id/meta.json'))['demo_destination'])")
pkg=$(dirname $dest)
git apply /verif/seeded/$id/patch.diff || { echo "$id FAIL apply"; exit 1; }
go build ./... || { echo "$id FAIL build"; exit 1; }
go test -vet=off -count=1 ./... >/dev/null 2>&1 || { echo "$id FAIL suite"; exit 1; }
cp /verif/seeded/$id/demo_test.go.txt $dest
go test -vet=off -count=1 -run 'ZZ|Demo|demo' ./$pkg >/dev/null 2>&1 && { echo "$id FAIL demo passes with mutant"; exit 1; }
git checkout -- .
go test -vet=off -count=1 -run 'ZZ|Demo|demo' ./$pkg >/dev/null 2>&1 || { echo "$id FAIL demo fails without mutant"; exit 1; }
echo "$id reconfirmed"
