#!/bin/bash
# usage: tryben.sh <diff> <props...>  - applies a diff to the scratch clone /tmp/repo2 (git clone /repo /tmp/repo2), runs the checks, reverts
d=$1; shift
R=${REPO2:-/tmp/repo2}
[ -d $R ] || git clone -q /repo $R
cd /verif
git -C $R checkout -q -- . ; git -C $R clean -fdq -- . ; git -C $R apply $d || exit 2
for p in "$@"; do ${PATCHECK:-./bin/patcheck} -repo $R -prop $p -tier quick -evidence /tmp/ev_try.json 2>&1 | grep -E "violated|undecided|instances <|panic|integrity|^patcheck" | cut -c1-${CLIP:-600}; done
git -C $R checkout -q -- . ; git -C $R clean -fdq -- .
