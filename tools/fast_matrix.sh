#!/bin/bash
# usage: fast_matrix.sh <out file> <nclones> "<props>" <diff> [<diff> ...]
# Runs the given checks on each diff in parallel scratch clones of /repo (/tmp/fm_<k>, removed at the end).
# Output lines: "<id>: alarms: <props that exited non-zero>|none"
out="$1"; n="$2"; props="$3"; shift 3
export GOFLAGS=-mod=mod GOPROXY=off GOSUMDB=off GOTOOLCHAIN=local; unset GOWORK
bin=${PATCHECK:-/verif/bin/patcheck}
: > "$out"
worker() {
  k=$1; shift
  R=/tmp/${FMPREFIX:-fm}_$k
  rm -rf $R; git clone -q /repo $R || exit 2
  for d in "$@"; do
    case "$d" in */seeded/*) id=$(basename $(dirname $d));; *) id=$(basename $d .diff);; esac
    git -C $R checkout -q -- . ; git -C $R clean -fdq -- .
    if ! git -C $R apply $d 2>/dev/null; then echo "$id: patch does not apply" >> "$out"; continue; fi
    hit=""
    for p in $props; do
      $bin -repo $R -prop $p -tier quick -evidence /tmp/${FMPREFIX:-fm}_ev_$k.json > /tmp/${FMPREFIX:-fm}_out_$k.txt 2>&1; c=$?
      [ $c = 1 ] && hit="$hit $p"
      [ $c != 0 ] && [ $c != 1 ] && hit="$hit $p(ERR)"
    done
    echo "$id: alarms:${hit:- none}" >> "$out"
  done
  rm -rf $R /tmp/${FMPREFIX:-fm}_ev_$k.json /tmp/${FMPREFIX:-fm}_out_$k.txt
}
i=0; declare -A lists
for d in "$@"; do k=$((i % n)); lists[$k]="${lists[$k]} $d"; i=$((i+1)); done
for k in $(seq 0 $((n-1))); do worker $k ${lists[$k]} & done
wait
sort -o "$out" "$out"
