#!/usr/bin/env python3
"""Prints the prompt for a benign-refactoring sub-agent: property texts + scratch worktree only."""
import json, sys
d = sys.argv[1]
pids = sys.argv[2:]
props = {json.loads(l)['id']: json.loads(l) for l in open('/verif/properties.jsonl')}
txt = ""
for pid in pids:
    p = props[pid]
    files = ", ".join(p['anchors']['files'])
    txt += f"""
  [{pid}] {p['title']}
  Statement: {p['statement']}
  Code it is anchored in: {files}
"""
print(f"""You are working in a scratch git worktree of the Go repository cloudflare/pat-go at {d} (Go module github.com/cloudflare/pat-go: a reference implementation of IETF Privacy Pass token issuance, with key-blinding ECDSA/Ed25519 forks and wire codecs). Work ONLY inside {d}. Do not read or use anything under /verif or /root/.vp, and do not touch /repo. The sandbox has no network. For every go command first run:
  export GOFLAGS=-mod=mod GOPROXY=off GOSUMDB=off GOTOOLCHAIN=local; unset GOWORK

Here are semantic properties that this code base satisfies today:
{txt}
Your task: for EACH property above produce TWO different, realistic, BEHAVIOUR-PRESERVING changes to the repository's non-test Go source in the code the property is anchored in - the kind of maintenance edit a careful developer makes that leaves the property (and all observable behaviour) intact. The tree has recently received several small bug fixes (see `git log`); your edits must keep those fixes effective. Make each change the kind of small refactoring that touches TWO cooperating sites and is done CORRECTLY so that nothing observable changes: a decoder or decryption step changed to return a pointer (or back to a value) with every failure return carrying a non-nil error and every caller adjusted; a "not found" result expressed as a nil pointer that the caller compares with nil; a small reader helper shared by several ASN.1 or cryptobyte reads (reading into a type at least as wide as the field it fills); a validation moved from a callee into ALL of its callers; a registration, lookup or slot-filling step moved into an unexported helper called from the loop that did it inline; a list of byte strings built by one unexported helper and stored by another; a constructor that precomputes a value which a method used to compute, with the method falling back to computing it when the object was built as a literal; a writer and a reader moved to one shared constant or helper. The two changes for a property must differ in kind and in the functions they touch, and each should touch the property's code path in TWO OR MORE places.
Each change must (a) compile (`go build ./...`), (b) keep the complete existing test suite passing unchanged (`go test -vet=off -count=1 ./...`), and (c) genuinely preserve the property for ALL inputs, schedules and histories - if you are not sure an edit is behaviour-preserving in every case, do not use it. Keep each change moderate in size (roughly 5-60 changed lines). Do not modify tests. Do NOT use `git stash`: save each change with `git diff > file` and use `git checkout -- .` to return to the clean tree.

For each property id P and k in {{1,2}} deliver, in {d}:
  - BENIGN8_<P>_<k>.diff : the change, as a unified diff that applies with `git apply` to a clean checkout of HEAD (create with `git diff -- . ':!*_test.go' > BENIGN8_<P>_<k>.diff` while only that change is applied);
  - one line in BENIGN8.md per change: id, files touched, what kind of edit it is, and why behaviour is unchanged, plus confirmation that build and the full suite passed with it.
Leave the worktree clean (git checkout -- .) so only the deliverable files remain as untracked files. Finish with a short list of what you produced.""")
