#!/usr/bin/env python3
"""Regenerates /verif/MANIFEST.json from the table below and validates it."""
import json, os, sys
HERE = os.path.dirname(os.path.dirname(os.path.abspath(__file__)))

# id -> (technique, level text, level note, design ref)
CHECKS = {
 "C06": ("guard-dominance (must-pass-through) on SSA with symbolic argument bindings",
         "Sound static analysis of a structural necessary condition: every accepting path of VerifyRequest passes the success edge of the request-signature check and of the blinded-key equality, bound to the request's own fields; the cache is written only behind both. Holds for all inputs because it quantifies over paths. It does not prove that ECDSA rejects forgeries.",
         "Trusts go/ssa dominators, the checker's term evaluator, and crypto/elliptic, math/big, crypto/sha512 behaving as documented.",
         "DESIGN.md §4 C06"),
 "C07": ("guard-dominance (must-pass-through) on SSA with symbolic argument bindings + decoder read-sequence extraction + inductive backward-scan rule for the origin unpadder",
         "Sound static analysis of structural necessary conditions: every path of RateLimitedIssuer.Evaluate that returns a response passes the success edges of complete parse, HPKE open under the issuer's own key with the request key in the associated data, registered-origin lookup and request-signature verification over all fields; BlindSign/Seal sit behind those edges; the request decoder and the inner (decrypted) request decoder check every read and reject trailing data, and decryptOriginTokenRequest never returns, with a nil error, the object its inner decoder refused. Quantifies over paths, hence over all inputs. Does not prove AEAD/ECDSA soundness (every single-bit change rejected).",
         "Trusts go/ssa dominators, this checker's term/reader extraction, go-hpke, circl blindrsa and crypto/elliptic behaving as documented.",
         "DESIGN.md §4 C07"),
 "C02": ("guard-dominance (must-pass-through) on SSA with symbolic argument bindings; constructor-binding and who-writes-field queries; bit-provenance abstract interpretation of the dependency's scalar decoders (input bits ignored); over-approximate dependence slice of the batched-proof weights; may-write summaries for the request state",
         "Sound static analysis of structural necessary conditions: every path of each FinalizeToken(s) that returns a token passes the success edge of the type's verification step bound to the state's pinned client/verifier/key; the returned token is decode(state token input ++ verified output); constructors bind the pinned state to the key/nonce/challenge/key id they were called with and nothing else writes it; type 5: count check and index-for-index pairing. Quantifies over paths (all responses). Does not prove that DLEQ/PSS/GCM reject every forged response.",
         "Trusts go/ssa dominators, this checker's term evaluator, circl blindrsa, crypto/rsa, crypto/cipher behaving as documented; circl's OPRF finalization is trusted except where the check analyses it itself (scalar decoding, batching weights). One known finding is recorded and printed as KNOWN-FINDING: the batched DLEQ proof of type 5 does not bind the batch (DESIGN 9.4).",
         "DESIGN.md §4 C02"),
 "C10": ("guard-dominance on SSA with symbolic argument bindings",
         "Sound static analysis of a structural necessary condition: every accepting path of the type-1/type-5 Verify passes bytes.Equal(FullEvaluate(own key, suite, type||nonce||context||keyid from the token's own fields), token.Authenticator)=true on whole values. Quantifies over paths (all tokens). Does not prove the PRF separates inputs.",
         "Trusts go/ssa dominators, this checker's term evaluator, circl oprf FullEvaluate, bytes.Equal.",
         "DESIGN.md §4 C10"),
 "C09": ("who-may-write queries + guard-shape (dominance/post-dominance) + rejection enumeration + key-encoding terms on SSA",
         "Sound static analysis of the premises of an inductive invariant: the per-client maps are written only in FinalizeIndex, clients are registered only behind VerifyRequest's checks, nothing deletes/replaces bindings; the only map-dependent rejection is ok && stored != presented over the same key/value as the single update, which every accepted call performs after the lookup; every error return is a decode failure, unknown client or that guard and no binding update precedes it; every key and byte-string value of the maps is hex.EncodeToString/string of the identifier (an injective encoding, so two identifiers share an entry only if equal). The induction over histories is a paper argument (DESIGN.md), not machine-checked.",
         "Trusts go/ssa dominators, this checker's term/fact extraction; the user-supplied cache returns what was Put; calls are sequential.",
         "DESIGN.md §4 C09"),
 "C13": ("guard-dominance + decoder read-sequence + value-flow of the entropy reader on SSA; AST agreement with GOROOT crypto/ecdsa (legacy math/big path)",
         "Sound static analysis of structural necessary conditions: range checks dominate the verification core; strict DER parse dominates Verify; entropy fail-closed shape (ReadFull success dominates success, nil results on failure, rand flows nowhere else); hedged-nonce construction; signature encoding; hashToInt identical to the standard library's (or, when respelled, proved path by path with the linear prover to keep min(len, ceil(orderBits/8)) bytes and shift by max(0, 8K-orderBits)) and the reference verify/sign core statements embed in order in the fork. Does not decide verdict equality with crypto/ecdsa on all inputs (two different arithmetic implementations).",
         "Trusts go/ssa, this checker's extractors and AST matcher, GOROOT's crypto/ecdsa source as reference, io.ReadFull/math/big/cryptobyte as documented.",
         "DESIGN.md §4 C13"),
 "C08": ("symbolic term binding of the returned value + sibling agreement of context terms on SSA",
         "Sound static analysis of structural necessary conditions: the value FinalizeIndex returns is exactly HKDF-SHA-384(unblinded key, salt = clientKey, info = IssuerOriginAlias) as a term over its first three arguments only (no cache/ClientState/anonymous-origin input), read with a checked ReadFull; client, attester-blind and attester-unblind contexts are the same term and the issuer's differs; the issuer blinds the request key with the index key of the unpadded origin; the attester accepts one request key per client blind; the origin whose index key is used is the origin the request names (unpadding strips exactly the trailing zeros - rule shared with C20). Does not prove that the blind cancels (group algebra) or collision resistance.",
         "Trusts go/ssa, this checker's term evaluator, x/crypto/hkdf and crypto/elliptic as documented.",
         "DESIGN.md §4 C08"),
 "C12": ("symbolic layout/binding terms on SSA; switch-table extraction from phi edges; AST agreement with GOROOT crypto/ecdsa",
         "Sound static analysis of structural necessary conditions: derivation layout of the blinding scalar (XMD DST, D||0x00||context, mod N, curve->hash/L table, unknown curves rejected, result is the element just computed, no mutable global state), a single derivation shared by blind/unblind/sign with arguments passed unchanged, inverse shapes (ScalarMult by k vs by k^-1 mod the same N; D*k mod N paired with the blinded public key), and the standard digest conversion/equations. Does not prove the algebraic laws or agreement with an independent hash-to-field.",
         "Trusts go/ssa, this checker's term evaluator and AST matcher, circl expander/HashToField, crypto/elliptic, GOROOT crypto/ecdsa source.",
         "DESIGN.md §4 C12"),
 "C15": ("symbolic layout/binding terms with in-place mutation history on SSA; reachability to entropy sources; mutable-global query and argument read-only query over may-write summaries",
         "Sound static analysis of structural necessary conditions: the blinding scalar is SetBytes(SHA-512(blind||0x00||context)[:32]) - the same term at all three sites, assembled by appending to a fresh buffer (never to an argument's slice); blind/unblind/blinded-sign shapes; wrappers forward nil contexts and the right argument slots; no entropy source is reachable and no mutable package-level state is touched outside sync.Once; the two fixed-base tables agree with the standard library's (built once, completely, before use - shared with C14). Does not prove the algebra or acceptance by a standard verifier.",
         "Trusts go/ssa, VTA call graph with Once.Do resolved at the site, this checker's term evaluator and effect summaries, crypto/sha512.",
         "DESIGN.md §4 C15"),
 "C16": ("may-write effect analysis (parameter-sensitive, one-level field-sensitive bottom-up summaries over SSA incl. third-party bodies; reviewed std table) + whole-tail provenance of append bases",
         "Sound static analysis of structural necessary conditions: no exported function may write (store, copy, append in place, callee) the memory of a byte-slice argument unless it is a documented destination; in-place appends onto struct fields require every store into that field to be a whole-tail view (flow-sensitive within the function, module-wide otherwise); exported methods write receiver state only through the encoding cache, their own mutators or safe appends; an append onto a truncated view x.F[:k] of a caller-visible field (exported, or the raw encoding Marshal hands out) is a violation everywhere, because it rebuilds the field inside the storage of its previous value. Does not decide value-level independence from spare capacity beyond the C03 len-bounds obligations.",
         "Trusts go/ssa, VTA call graph, effects.go, the reviewed std write table (printed in evidence).",
         "DESIGN.md §4 C16"),
 "C17": ("may-write effect analysis over concurrent entry points (shared roots = receiver and key parameters, package-level variables); computed exemptions for sync.Once and constructor-forced lazy fields; result-aliasing query",
         "Sound static analysis of a sufficient-and-necessary structural condition for race freedom among the listed calls: no may-write reaches memory of or reachable from a shared root or a package-level variable except synchronised containers, Once-protected tables and constructor-forced lazy initialisation, and no result aliases mutable package-level state. Two genuine violations inside circl v1.3.7 (in-place normalisation of the shared P-384 public-key element) are recorded as known findings. Three reviewed exceptions document call-graph/field-insensitivity artefacts, each confirmed race-free dynamically once.",
         "Trusts go/ssa, VTA call graph, effects.go, the reviewed std write table and exception table (printed in evidence); std concurrency guarantees as documented.",
         "DESIGN.md §4 C17"),
 "C04": ("writer/reader layout agreement: symbolic byte-layout terms of encoders vs checked read sequences of decoders on SSA, widths from go/types constants; cache-discipline dominance; tag checks; batch walker structure; CFG rejecting-edge classification for length-only refusals",
         "Sound static analysis of structural necessary conditions of round-tripping: for every wire structure the encoder's layout term and the decoder's checked read sequence on accepting paths match the structure's layout (fields, order, prefix kinds, widths by constant value) and decoded fields are assigned from the bytes read; every method that can change what Marshal reads resets the encoding cache on every success path and nothing re-fills it before the return; every encoding cache is filled only by its own Marshal (never seeded with input bytes); each request decoder requires its own type tag; the generic batch walkers map tags to the matching decoder, reject others, advance by the consumed length, decode each element from within the declared list, and the response list uses per-type fixed lengths. Does not decide value-level round trips (e.g. commas in OriginInfo) or cryptobyte's own correctness.",
         "Trusts go/types, go/ssa, this checker's term and reader extractors, the layout table in c04.go (from the repository's struct comments and constants), cryptobyte.",
         "DESIGN.md §4 C04"),
 "C05": ("slot/index discipline on SSA: natural loops, dominance facts on slot stores, symbolic binding of lookup/key-match/evaluate arguments, emit-layout term with branch arms, error-discipline query, backward slice of the Evaluate guards for loop-carried state (iteration independence)",
         "Sound static analysis of structural necessary conditions: one slot per request written only at the request's own index with either an empty value or the matched issuer's successful result; lookup by the request's type and last byte of the key id; a failing issuer neither ends the search nor the batch; present/absent status derived from slot emptiness with the same index; decoder mirrors the layout; the constructor registers every issuer argument under its own type; the basic issuers' Evaluate succeed only behind their decode/evaluate/encode success edges with no error dropped; the list's QUIC-varint length prefix is exact (rules shared with C19). Does not decide that a present entry finalizes to a valid token (C01/C02).",
         "Trusts go/ssa dominators/loops, this checker's term evaluator; registered issuers behave like the repository's (non-empty response on success).",
         "DESIGN.md §4 C05"),
 "C18": ("symbolic ASN.1 layout terms (cryptobyte builder trees with OIDs by value), checked read sequences, return-term bindings on SSA, EncapKey decoder/encoder field agreement",
         "Sound static analysis of structural necessary conditions: MarshalTokenKeyPSSOID's builder term equals the prescribed RSASSA-PSS SPKI tree (SHA-384, MGF1-SHA-384, salt 48; OIDs by value, single initialisation); UnmarshalTokenKey performs the checked SEQ{SEQ,BITSTRING{SEQ{INT,INT}}} reads into destinations as wide as the writers' fields (big.Int modulus; exponent big.Int or a signed integer no narrower than rsa.PublicKey.E) and returns the integers read; every issuer's TokenKeyID is a freshly computed SHA-256 of its serialized public key; type-1/2/5 requests carry the last byte of the id; the type-3 name key id is SHA-256 of the EncapKey encoding, and the value stored in the request's NameKeyID field is followed back through the helpers it comes from to that hash of the name key ARGUMENT (a memo or table in between is not accepted); no key type's Marshal returns a cache seeded outside Marshal. Does not decide DER round trips for every modulus/exponent (encoding/asn1, cryptobyte).",
         "Trusts go/ssa, this checker's term and reader extractors, encoding/asn1 and cryptobyte as documented.",
         "DESIGN.md §4 C18"),
 "C19": ("bit-provenance abstract interpretation on SSA (each bit is 0, 1 or a named input bit; constant shifts, masks, ORs, width conversions exact) composed across AppendVarint and ConsumeVarint; guard-dominance facts; linear range proving (Fourier-Motzkin) of index/slice obligations and of the returned view (offset, length); may-write effect summaries; for a decoder driven by a computed size (n = 1 << (b[0]>>6)): abstract interpretation of ConsumeVarint with trace partitioning on the two class bits and the available length, payload bits symbolic; bounds proving for every module function that consumes a declared length",
         "Sound static analysis deciding the varint clauses for all values at once: both writers branch on the same ordered thresholds 2^6-1/2^14-1/2^30-1/2^62-1 with sizes 1/2/4/8 and reject larger values (first match wins, so the shortest form); for each class the decoder's expression over the encoder's bytes is the identity on v and the length reported equals the bytes appended; decoded values stay below 2^(8n-2) for arbitrary input; every b[k] is read behind len(b) >= n and failure (0,-1) occurs exactly on the negated guard; Consume*Bytes return b[prefix:prefix+size] and prefix+size (linear identities), fail exactly when that exceeds len(b), with no narrowing (also with 32-bit int); Append*Bytes layouts mirror them and the uint8 length is narrowed only after the check; the appenders write the destination only through append; every module function that calls a quicwire.Consume* function has all its slice and index bounds proved (a declared length is compared with the remaining input before slicing).",
         "Trusts go/ssa, this checker's bit domain, range prover and effect analysis; append does not modify existing elements; encoding/binary as documented. An encoder not written as append of byte expressions is outside the bit domain and is reported as undecided (failing).",
         "DESIGN.md §4 C19"),
 "C20": ("abstract interpretation of the padding arithmetic over residue classes (n = 0; n = 32q+r for r = 1..32 with q symbolic; +, -, constant *, /, % exact in the affine-in-q domain with Go's truncated remainder), content terms of the padded buffer, an inductive backward-scan rule for the unpadder (guard-dominance facts + linear range proving), def-use flow of the origin-name parameter, sealed-plaintext layout term, dominance of signing by the exact map-lookup hit; operand-closure dependence of Evaluate's rejecting branches on the recovered name; key-spelling agreement of the registry",
         "Sound static analysis deciding the padding and unpadding clauses for all name lengths below 2^31-64: padOriginName returns name || zeros of total length 32*max(1, ceil(n/32)); unpadOriginName starts at the last byte, steps down by one only over zero bytes, returns the prefix ending at the first non-zero byte found from the end and \"\" if none (so it strips exactly the trailing zeros and inverts padding on names not ending in a zero byte); the name parameter reaches the request only through padOriginName and every other field of the sealed plaintext has a name-independent width; the issuer looks the unpadded name up by exact map key and signs only on a hit; no rejecting branch of Evaluate other than the lookup miss depends on the recovered name or its padded bytes; the registry is written and read under the same spelling of the key. Does not decide that HPKE and the outer codecs transport the padded field unchanged (C01/C04, go-hpke contract).",
         "Trusts go/ssa, this checker's term evaluator, range prover and affine residue domain; a padding size computed with branches (outside +,-,*,/,% of the length) is reported as undecided (failing).",
         "DESIGN.md §4 C20"),
 "C01": ("writer/reader layout agreement and parameter agreement between the two ends of each protocol: symbolic byte-layout terms, checked read sequences, widths from go/types constants, return-term bindings on SSA; key-spelling agreement of every table held in a struct field",
         "Sound static analysis of structural necessary conditions of an honest run completing: request encoders and the decoders the issuers use agree (widths = length of what the client stores); each issuer's response layout is what its client splits and parses; tokens are type||nonce||SHA-256(challenge)||key id||authenticator with widths 48/256/256/64 and are decoded from state token input || finalize output; constructors bind the token input to the type constant, nonce, challenge digest and key id; both ends name the same suite, hash, info strings, labels and exported-secret length; the type-3 issuer's unpadding inverts the client's origin padding for every name length (rules shared with C20); the QUIC-varint length prefixes of type 5 and batch messages are exact (rules shared with C19); every table held in a struct field (origin index keys, attester maps, batch issuer lists) is stored and looked up under the same spelling of its key. Does not decide that the cryptography completes and verifies (dependencies' contract).",
         "Trusts go/types, go/ssa, this checker's term and reader extractors, the layout table (c04.go), circl/go-hpke/crypto as documented.",
         "DESIGN.md §4 C01"),
 "C11": ("call-graph reachability to entropy sources (VTA, Once.Do resolved at the site, std bodies as leaves) with positive control; parameter liveness by symbolic binding; mutable-global query over may-write summaries; content-dependence slice of the rejecting branches on blind/salt bytes",
         "Sound static analysis of structural necessary conditions of reproducibility: the deterministic entry points reach no entropy source (their randomised siblings do - positive control), the supplied blinds/salt are exactly what DeterministicBlind/FixedBlind receive (element i with input i), no mutable package-level state is touched, and the state keeps its own serialized token input that contains no blind/salt parameter. Does not decide that unblinding cancels the blind nor agreement with the Rust vectors (arithmetic evaluation).",
         "Trusts go/ssa, VTA call graph, effects.go, this checker's term evaluator; std functions outside the sink list are deterministic.",
         "DESIGN.md §4 C11"),
 "C14": ("reference agreement: syntax-tree comparison of the fork's functions with GOROOT crypto/internal/edwards25519{,/field} and crypto/ed25519 (alpha-renaming, reviewed helper equivalences); guard dominance and hash-input terms on SSA; constant comparison by value; the canonicity test decided by pushing the three orderings of (scalar byte, bound byte) through one loop iteration on SSA",
         "Sound static analysis of structural necessary conditions: 77 functions of the arithmetic core, key generation and key derivation are syntactically the standard library's (modulo renaming), so they compute what it computes; constants agree by value; Verify accepts only behind the five RFC 8032 guards with the standard hash input; signing uses the standard hash inputs and output layout; the canonical-S test scans all 32 bytes against L-1, most significant first, returning true on <, false on >, and true when all are equal (decided by orderings, not by enumerating byte values); a lazily built table spelled with sync.OnceValue agrees when its body is the reference's, statement by statement. Does not decide the fork-specific ref10 scalar arithmetic (scMulAdd, scReduce, SetBytes, ModInverse) - the larger part of bit-compatibility - for which no reference exists in the sandbox.",
         "Trusts go/parser, this checker's AST matcher, go/ssa, the GOROOT source of the default toolchain as reference, the reviewed divergent list (printed in evidence).",
         "DESIGN.md §4 C14"),
 "C03": ("range proving on SSA: linear obligations over symbolic atoms decided by Fourier-Motzkin entailment from dominating guards, SSA definitions, loop induction, reviewed post-/pre-condition tables and translated callee success facts; loop-shape and recursion checks; unchecked-read detection; nil-pointer-result/verdict agreement between scope functions and their dereferencing callers; constructor-literal completeness for embedded structs whose zero value holds nil interfaces",
         "Sound static analysis of a structural sufficient condition for 'no panic, termination, allocation proportional to input' inside pat-go code: every slice (hi <= len, not cap), index, make (bounded by a constant or an input length), non-constant division, slice-to-array conversion and callee precondition in every pat-go function reachable from the 36 peer-bytes entry points is proved (obligation count in the evidence file; thorough repeats for 386 and arm64, where int is 32 bits); every cryptobyte read's result is used; all 15 loops match terminating shapes; no recursion; explicit panics are documented own-key preconditions; the ECDSA core is behind its range checks; every composite literal that builds a module struct sets each embedded-by-value struct field whose zero value holds nil interfaces, if that field is read anywhere; a scope function returning a pointer with a verdict, or a non-error interface, returns nil only on failure returns when a caller dereferences it (field, load, method call, unchecked assertion) without a nil comparison. Does not cover panics/allocation inside dependencies on well-typed input, nil caller pointers, or machine-word overflow of length arithmetic.",
         "Trusts go/ssa, ranges.go (Fourier-Motzkin over rationals), the reviewed post-condition/precondition/positive-getter tables (printed in evidence), C14 identity for matched arithmetic functions; dependencies do not panic on well-typed arguments.",
         "DESIGN.md §4 C03"),
}
PENDING_REASON = "check under construction in this round (see DESIGN.md §4 for the planned static rule); not claimed until the rule runs clean on the tree and fires on its seeded breakage"
NOT_APPLICABLE = {}

def main():
    props = [json.loads(l)["id"] for l in open(os.path.join(HERE, "properties.jsonl"))]
    checks = []
    for pid in props:
        if pid not in CHECKS: continue
        tech, text, note, ref = CHECKS[pid]
        checks.append({
            "property_id": pid,
            "quick_cmd": f"./check {pid} quick",
            "thorough_cmd": f"./check {pid} thorough",
            "evidence_file": f"/verif/evidence/{pid}.json",
            "replay_cmd_template": "cat {path}",
            "engine": "patcheck",
            "level_claimed": {"category": "other", "text": text, "design_ref": ref},
            "level_note": note,
            "technique": "static analysis: " + tech,
        })
    na = []
    for pid in props:
        if pid in CHECKS: continue
        na.append({"property_id": pid, "reason": NOT_APPLICABLE.get(pid, PENDING_REASON)})
    m = {
        "version": 1,
        "setup_cmd": "cd /verif/checker && env -u GOWORK GOFLAGS=-mod=mod GOPROXY=off GOSUMDB=off GOTOOLCHAIN=local CGO_ENABLED=0 go build -o ../bin/patcheck .",
        "hooks": {
            "guard": "verif",
            "enable": "no hooks: the checks are static analyses of /repo's source and need no instrumentation; the build tag 'verif' is reserved and unused",
            "baseline_off_cmd": "cd /repo && go test -mod=mod -vet=off -count=1 ./...",
            "source_commits": [],
            "add_only": True,
        },
        "engines": [{
            "name": "patcheck",
            "path": "/verif/checker",
            "serves_properties": sorted(CHECKS),
            "kind_free_text": "repository-specific static analyser (go/packages + go/ssa, x/tools v0.29.0): guard-dominance facts, symbolic byte-layout terms, range prover, effect analysis, reachability, reference agreement with GOROOT",
        }],
        "checks": checks,
        "not_applicable": na,
        "notes": "All checks decide properties from /repo's current source without executing it. Known findings: /verif/known_findings.json. Design: /verif/DESIGN.md.",
    }
    out = os.path.join(HERE, "MANIFEST.json")
    json.dump(m, open(out, "w"), indent=1)
    open(out, "a").write("\n")
    try:
        import jsonschema
        jsonschema.validate(m, json.load(open("/root/.vp/MANIFEST.schema.json")))
        print("MANIFEST.json valid:", len(checks), "checks,", len(na), "not applicable")
    except ImportError:
        print("jsonschema not available; not validated")

if __name__ == "__main__":
    main()
