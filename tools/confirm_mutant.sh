#!/bin/bash
# usage: confirm_mutant.sh <agent dir> <k> <seed id> <property>
# Confirms in a scratch worktree: patch applies, builds, full suite passes with it,
# demo fails with it and passes without. On success stores /verif/seeded/<seed id>/.
src="$1"; k="$2"; id="$3"; prop="$4"
export GOFLAGS=-mod=mod GOPROXY=off GOSUMDB=off GOTOOLCHAIN=local; unset GOWORK
wt=/tmp/confirm_$id
git -C /repo worktree remove --force $wt >/dev/null 2>&1
git -C /repo worktree add -f --detach $wt HEAD >/dev/null 2>&1 || { echo "worktree failed"; exit 2; }
cleanup() { git -C /repo worktree remove --force $wt >/dev/null 2>&1; }
trap cleanup EXIT
cd $wt
demo="$src/demo${k}_test.go.txt"
dest=$(head -15 "$demo" | grep -oE '[A-Za-z0-9_/]+/(zz|aaa)_[A-Za-z0-9_]+_test\.go' | head -1)
[ -z "$dest" ] && { echo "cannot find demo destination in $demo"; exit 2; }
pkg=$(dirname "$dest")
git apply "$src/MUTANT$k.diff" || { echo "FAIL: patch does not apply"; exit 1; }
go build ./... || { echo "FAIL: does not build"; exit 1; }
if ! go test -vet=off -count=1 ./... >/tmp/confirm_$id.suite 2>&1; then echo "FAIL: suite fails with mutant"; tail -5 /tmp/confirm_$id.suite; exit 1; fi
cp "$demo" "$dest"
if go test -vet=off -count=1 -run 'ZZ|Demo|demo' ./$pkg >/tmp/confirm_$id.with 2>&1; then echo "FAIL: demo passes WITH mutant"; exit 1; fi
git checkout -- . 
if ! go test -vet=off -count=1 -run 'ZZ|Demo|demo' ./$pkg >/tmp/confirm_$id.without 2>&1; then echo "FAIL: demo fails WITHOUT mutant"; tail -5 /tmp/confirm_$id.without; exit 1; fi
mkdir -p /verif/seeded/$id
cp "$src/MUTANT$k.diff" /verif/seeded/$id/patch.diff
cp "$demo" /verif/seeded/$id/demo_test.go.txt
cp "$src/MUTANT$k.md" /verif/seeded/$id/agent_notes.md
python3 - "$id" "$prop" "$dest" <<'PY'
import json,sys,re
id,prop,dest=sys.argv[1:4]
notes=open(f'/verif/seeded/{id}/agent_notes.md').read()
meta={"id":id,"property":prop,"source":"independent sub-agent given only the property text and a scratch worktree",
 "demo_destination":dest,
 "confirmed":{"applies_to":"repo HEAD (with fix commits)","build":"go build ./... ok","suite_with_mutant":"go test -vet=off -count=1 ./... ok","demo_with_mutant":"FAIL (as required)","demo_without_mutant":"ok"},
 "needs_to_manifest":"see agent_notes.md","detected_by":[]}
json.dump(meta,open(f'/verif/seeded/{id}/meta.json','w'),indent=1)
PY
echo "CONFIRMED $id ($prop) demo=$dest"
