#!/bin/sh
# usage: trymutant.sh <patch.diff> <prop> [<prop>...]
# Applies the patch to /repo, runs the named checks (evidence to /tmp), reverts.
patch="$1"; shift
cd /repo || exit 2
if ! git diff --quiet; then echo "repo dirty"; exit 2; fi
git apply "$patch" || { echo "patch does not apply"; exit 2; }
trap 'git -C /repo checkout -- . ; git -C /repo clean -fdq -- . >/dev/null 2>&1' EXIT
for p in "$@"; do
  out=$(/verif/bin/patcheck -prop "$p" -tier quick -evidence /tmp/mutev_$p.json 2>&1)
  code=$?
  echo "== $p exit=$code"
  echo "$out" | grep -v "^  rule" | cut -c1-${CLIP:-500}
done
