#!/bin/bash
# usage: round_step.sh <agents root> <first index> <prop>...  - confirms both mutants of each property (in parallel per property)
# and runs the property's own check on each confirmed patch in a scratch clone. Prints one line per mutant.
root="$1"; first="$2"; shift 2
for p in "$@"; do
 (
  for k in 1 2; do
    id="$p-m$((first+k-1))"
    [ -d /verif/seeded/$id ] || /verif/tools/confirm_mutant.sh $root/$p $k $id $p 2>&1 | tail -1 | sed "s/^/$id: /"
  done
  ds=""; for k in 1 2; do id="$p-m$((first+k-1))"; [ -d /verif/seeded/$id ] && ds="$ds /verif/seeded/$id/patch.diff"; done
  [ -n "$ds" ] && FMPREFIX=rs$p /verif/tools/fast_matrix.sh /tmp/rs_$p.txt 2 "$p" $ds && cat /tmp/rs_$p.txt
 ) &
done
wait
