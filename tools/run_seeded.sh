#!/bin/bash
# usage: run_seeded.sh [prop ...]   Runs the given checks (default: all claimed) on every seeded mutant; prints a matrix
# and records the result in each seeded/<id>/meta.json (detected_by).
cd /verif
export GOFLAGS=-mod=mod GOPROXY=off GOSUMDB=off GOTOOLCHAIN=local; unset GOWORK
props="$@"
[ -z "$props" ] && props=$(python3 -c "import json;print(' '.join(c['property_id'] for c in json.load(open('MANIFEST.json'))['checks']))")
(cd checker && go build -o ../bin/patcheck .) || exit 2
tmp=$(mktemp -d)
for d in /verif/seeded/*/; do
  id=$(basename $d)
  if ! git -C /repo diff --quiet; then echo "repo dirty"; exit 2; fi
  git -C /repo apply $d/patch.diff || { echo "$id: patch does not apply"; continue; }
  for p in $props; do
    ( ./bin/patcheck -prop $p -tier quick -evidence $tmp/ev_$p.json >$tmp/out_$p.txt 2>&1; echo $? >$tmp/code_$p ) &
    while [ $(jobs -r | wc -l) -ge 5 ]; do sleep 0.2; done
  done
  wait
  hit=""
  for p in $props; do
    code=$(cat $tmp/code_$p)
    [ "$code" = 1 ] && hit="$hit $p"
    [ "$code" != 0 ] && [ "$code" != 1 ] && hit="$hit $p(ERR)"
  done
  git -C /repo checkout -- . ; git -C /repo clean -fdq -- . >/dev/null 2>&1
  echo "$id: detected by:${hit:- NONE}"
  python3 - "$d" "$hit" <<'PY'
import json,sys
d,hit=sys.argv[1],sys.argv[2].split()
m=json.load(open(d+'/meta.json')); m['detected_by']=hit; json.dump(m,open(d+'/meta.json','w'),indent=1)
PY
done
rm -rf $tmp
