#!/usr/bin/env python3
"""Prints the prompt for a mutation sub-agent: property text + scratch worktree only."""
import json, sys
pid, d = sys.argv[1], sys.argv[2]
p = [json.loads(l) for l in open('/verif/properties.jsonl') if json.loads(l)['id'] == pid][0]
print(f"""You are working in a scratch git worktree of the Go repository cloudflare/pat-go at {d} (Go module github.com/cloudflare/pat-go: a reference implementation of IETF Privacy Pass token issuance, with key-blinding ECDSA/Ed25519 forks and wire codecs). Work ONLY inside {d}. Do not read or use anything under /verif or /root/.vp, and do not touch /repo. The sandbox has no network. For every go command first run:
  export GOFLAGS=-mod=mod GOPROXY=off GOSUMDB=off GOTOOLCHAIN=local; unset GOWORK

Here is a semantic property that this code base is supposed to satisfy:

  Title: {p['title']}
  Statement: {p['statement']}
  It must hold for: {p['quantifier']['text']}

Your task: produce TWO different realistic changes ("mutants") to the repository's non-test Go source, each of which BREAKS this property, while
  (a) the code still compiles (`go build ./...`),
  (b) the complete existing test suite still passes unchanged (`go test -vet=off -count=1 ./...`), and
  (c) the breakage needs something specific to manifest - a particular unusual input, a multi-step sequence of operations, a particular interleaving, a fault at a particular point, or two cooperating sites that each look fine alone - rather than being exposed at once by ordinary use.
Each mutant must be a change spread over TWO (or more) cooperating sites that each look fine when read alone - for example: a helper whose contract is slightly widened or narrowed together with one caller that relied on the old contract; a constructor that now leaves a field to be filled lazily together with a method that reads it on one path without filling it; a writer and a reader that both moved to a new shared constant or helper where one of them still adds its own adjustment; a validation moved from a callee into "all callers" with one caller left out; a buffer now reused or pooled at one site and retained at another; a default changed in one place that another place compares against; an error value now wrapped at its source while a distant comparison still uses ==; a struct field that two methods now interpret differently (length vs. capacity, index vs. count, inclusive vs. exclusive bound); a batch or loop path that diverged from the single-item path it used to share code with. The commit should read as a sensible small refactoring, clean-up, or de-duplication, and a reviewer looking at either site by itself should see nothing wrong. No sabotage with obviously dead giveaways. The two mutants should be as different in kind and location as you can make them. Do not modify, delete or skip existing tests. Do NOT use `git stash` (the stash is shared with other worktrees of this repository): save your change with `git diff > file` and use `git apply` / `git apply -R` to switch between the mutated and the clean tree.

For each mutant k in {{1,2}} deliver, in {d}:
  - MUTANT<k>.diff : the change to non-test source only, as a unified diff that applies with `git apply` to a clean checkout of HEAD (create it with `git diff -- . ':!*_test.go' ':!MUTANT*' > MUTANT<k>.diff` while only that mutant is applied);
  - demo<k>_test.go.txt : a self-contained Go test file (state at the top which package directory it must be copied into and under which name, e.g. tokens/type3/zz_demo_test.go) that FAILS with the mutant applied and PASSES on the unmodified HEAD. You must actually run it both ways and confirm;
  - MUTANT<k>.md : what was changed and why it is plausible, why it breaks the property, what exactly is needed for the breakage to manifest, and the commands you ran with their results (build, full suite with the mutant, demo with and without the mutant).
When you are done, leave the worktree clean of the mutants themselves (git checkout -- . ; remove any copied demo test files) so that only the deliverable files remain as untracked files. Finish with a short summary of the two mutants.""")
