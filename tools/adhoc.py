#!/usr/bin/env python3
# usage: adhoc.py <prop> <file-relative-to-repo> then pairs on stdin: old<TAB>new per line
# Applies each literal replacement (first occurrence) to /repo, runs the check, reverts.
import sys, subprocess
prop, rel = sys.argv[1], sys.argv[2]
REPO = __import__('os').environ.get('REPO', '/repo')
path = REPO + '/' + rel
orig = open(path).read()
for line in sys.stdin.read().split('\n'):
    if not line.strip():
        continue
    old, new = line.split('\t')
    old, new = old.replace('\\n', '\n').replace('\\t', '\t'), new.replace('\\n', '\n').replace('\\t', '\t')
    if old not in orig:
        print('NOT FOUND:', old); continue
    open(path, 'w').write(orig.replace(old, new, 1))
    try:
        b = subprocess.run(['go', 'build', './...'], cwd=REPO, capture_output=True, text=True)
        if b.returncode != 0:
            print('## %s -> %s: DOES NOT BUILD %s' % (old, new, b.stderr[:200])); continue
        for pr in prop.split(','):
            out = subprocess.run([__import__('os').environ.get('PATCHECK', '/verif/bin/patcheck'), '-repo', REPO, '-prop', pr, '-evidence', '/tmp/adhoc_ev.json'], capture_output=True, text=True)
            lines = [l for l in (out.stdout + out.stderr).split('\n') if 'violated' in l or l.startswith('patcheck') or 'instances <' in l]
            print('## %s -> %s: %s exit=%d' % (old[:60], new[:60], pr, out.returncode))
            for l in lines[:4]:
                print('   ', l[:int(__import__("os").environ.get("CLIP", "300"))])
    finally:
        open(path, 'w').write(orig)
