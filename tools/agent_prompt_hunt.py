#!/usr/bin/env python3
"""Prints the prompt for a defect-hunting sub-agent: property text + scratch worktree only."""
import json, sys
pid, d = sys.argv[1], sys.argv[2]
p = [json.loads(l) for l in open('/verif/properties.jsonl') if json.loads(l)['id'] == pid][0]
files = ", ".join(p['anchors']['files'])
print(f"""You are working in a scratch git worktree of the Go repository cloudflare/pat-go at {d} (Go module github.com/cloudflare/pat-go: a reference implementation of IETF Privacy Pass token issuance, with key-blinding ECDSA/Ed25519 forks and wire codecs). Work ONLY inside {d}. Do not read or use anything under /verif or /root/.vp, and do not touch /repo. The sandbox has no network. For every go command first run:
  export GOFLAGS=-mod=mod GOPROXY=off GOSUMDB=off GOTOOLCHAIN=local; unset GOWORK

Here is a semantic property that this code base is supposed to satisfy, as it stands, WITHOUT any modification:

  Title: {p['title']}
  Statement: {p['statement']}
  It must hold for: {p['quantifier']['text']}
  Code it is anchored in: {files}

Several defects against properties like this one have already been found and repaired in this tree (see `git log`). Your task is to find out whether the UNMODIFIED code at HEAD still violates this property for some input, sequence of calls, interleaving or fault - a genuine counterexample, demonstrated by a test against the real code. Read the anchored code and the dependency code it calls (the module cache under $(go env GOMODCACHE) is readable: circl, go-ristretto, go-hpke, x/crypto) with the literal wording of the statement in mind - every clause, every "every", "any", "exactly", "only if", every boundary value the quantifier names (empty, zero, maximal, non-canonical encodings, bits a decoder may ignore, values an encoder and its decoder treat differently, repeated or interleaved calls). Then try your candidate counterexamples for real: write throw-away Go tests and run them. Spend your effort on breadth of candidates actually executed rather than on speculation.

Rules: do NOT change any non-test source file. Do not modify or delete existing tests. Anything you report must be backed by a test you ran. A behaviour is a counterexample only if it contradicts the statement as written for an input the quantifier covers; say so explicitly when a finding depends on how a phrase of the statement is read, and give both readings. Do not report: mere style issues, things outside this property, or the concurrency data race inside circl's (*group.wElt).MarshalBinaryCompress (already known).

Deliver, in {d}:
  - for each counterexample k = 1, 2, ...: FINDING<k>_test.go.txt - a self-contained Go test file (state at the top which package directory it must be copied into and under which name, e.g. tokens/type3/zz_finding1_test.go) that FAILS on the unmodified HEAD because of the counterexample and whose assertion is exactly the property's clause; and FINDING<k>.md - the clause violated, the concrete input/sequence, the observed and the expected behaviour, the place in the code (file:line) responsible, and the command you ran with its output;
  - HUNT.md - the list of candidate counterexamples you actually executed (one line each: what was tried, outcome), so that the absence of findings is informative too.
Leave the worktree clean (remove copied test files; `git status` shows only the deliverables as untracked). Finish with a short summary: findings (if any) and the number of candidates tried.""")
