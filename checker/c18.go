package main

// C18 - token keys encode canonically and key identifiers are derived from them.

import (
	"fmt"
	"go/token"
	"go/types"
	"strings"

	"golang.org/x/tools/go/ssa"
)

func init() { props["C18"] = c18 }

const tagPkg = "(golang.org/x/crypto/cryptobyte/asn1.Tag)"

func asn1SEQ(x string) string { return "asn1(call<" + tagPkg + ".Constructed>(const:48), " + x + ")" }
func asn1CTX(n int, x string) string {
	return fmt.Sprintf("asn1(call<%s.Constructed>(call<%s.ContextSpecific>(const:%d)), %s)", tagPkg, tagPkg, n, x)
}
func asn1OID(o string) string { return "asn1oid(const:" + o + ")" }

const (
	oidRSAPSS = "1.2.840.113549.1.1.10"
	oidSHA384 = "2.16.840.1.101.3.4.2.2"
	oidMGF1   = "1.2.840.113549.1.1.8"
)

// pssSPKI: the DER tree prescribed for Privacy Pass token keys, for the RSA
// public key term pk (fields N and E).
func pssSPKI(pk string) string {
	params := asn1SEQ("cat(" + asn1CTX(0, asn1SEQ(asn1OID(oidSHA384))) + ", " + asn1CTX(1, asn1SEQ("cat("+asn1OID(oidMGF1)+", "+asn1SEQ(asn1OID(oidSHA384))+")")) + ", " + asn1CTX(2, "asn1int(const:48)") + ")")
	alg := asn1SEQ("cat(" + asn1OID(oidRSAPSS) + ", " + params + ")")
	key := "asn1bitstring(extract<0>(call<encoding/asn1.Marshal>(struct<util.pkcs1PSSPublicKey>(kv<E>(" + pk + ".E), kv<N>(" + pk + ".N)))))"
	return asn1SEQ("cat(" + alg + ", " + key + ")")
}

func c18(p *Prog, r *Report) {
	r.Explanation = "Symbolic ASN.1 layout terms and bindings: (1) MarshalTokenKeyPSSOID's builder term equals the prescribed SubjectPublicKeyInfo tree - SEQ{ SEQ{ OID rsassa-pss, SEQ{ [0]{SEQ{OID sha-384}}, [1]{SEQ{OID mgf1, SEQ{OID sha-384}}}, [2]{INT 48} } }, BITSTRING{ RSAPublicKey{N,E} } } - with OIDs compared by value and never reassigned; (2) UnmarshalTokenKey performs the checked reads SEQ{ SEQ(any), BITSTRING{ SEQ{ INT->N, INT->E } } } and returns the integers it read; (3) each issuer's TokenKeyID is SHA-256 over its serialized public key (circl MarshalBinary of the VOPRF public key; the PSS SPKI of the RSA key), freshly computed; (4) requests of types 1, 2, 5 (and the batch issuer's match) take the LAST byte of the key id; (5) the type-3 name key id is SHA-256 of the EncapKey encoding on the client and in the issuer's associated data."
	r.NotDecided = "decode(encode(k)) = k for every modulus and exponent (big-integer DER inside encoding/asn1 and cryptobyte), the legacy writer's bytes (crypto/x509)."
	r.Assumptions = append(r.Assumptions, "encoding/asn1.Marshal of {N *big.Int, E int} is RSAPublicKey DER; cryptobyte ASN.1 readers/writers behave as documented")
	r.Trusted = append(r.Trusted, "go/ssa", "term evaluator and reader extractor of this checker")
	const R1 = "C18.pss-spki-tree"
	const R2 = "C18.spki-reader"
	const R3 = "C18.key-id-derivation"
	const R4 = "C18.truncated-key-id-is-last-byte"
	const R5 = "C18.name-key-id"
	r.Rule(R1, "MarshalTokenKeyPSSOID emits exactly the prescribed RSASSA-PSS SPKI tree (SHA-384, MGF1-SHA-384, salt 48); MarshalTokenKey dispatches on the legacy flag", 2)
	r.Rule(R2, "UnmarshalTokenKey: checked reads SEQ{SEQ, BITSTRING{SEQ{INT N, INT E}}} and the key returned carries those integers", 2)
	r.Rule(R3, "TokenKeyID = SHA-256(serialized public key) for the four issuers, computed from the issuer's own key on every call", 4)
	r.Rule(R4, "TokenKeyID carried by type-1/2/5 requests is keyID[len(keyID)-1]", 6)
	r.Rule(R5, "type-3 NameKeyID = SHA-256(EncapKey.Marshal()) in the client", 1)

	if fn := anchor(p, r, R1, "~/util.MarshalTokenKeyPSSOID"); fn != nil {
		r.List("functions", shortName(fn))
		retValueIs(p, r, R1, fn, "the prescribed RSASSA-PSS SubjectPublicKeyInfo", pssSPKI("param:0"))
	}
	if fn := anchor(p, r, R1, "~/util.MarshalTokenKey"); fn != nil {
		// both forms reachable: legacy -> x509.MarshalPKIXPublicKey, else PSS
		s := p.NewSym(fn)
		n1 := len(sitesIn(fn, func(n string) bool { return n == "util.MarshalTokenKeyRSAEncryptionOID" }))
		n2 := len(sitesIn(fn, func(n string) bool { return n == "util.MarshalTokenKeyPSSOID" }))
		_ = s
		r.Check(n1 == 1 && n2 == 1, R1, "MarshalTokenKey offers both SPKI forms", p.Pos(fn.Pos()), "legacy and PSS writers both called", fmt.Sprintf("legacy calls %d, PSS calls %d", n1, n2))
	}

	if fn := anchor(p, r, R2, "~/util.UnmarshalTokenKey"); fn != nil {
		r.List("functions", shortName(fn))
		s := p.NewSym(fn)
		rps := s.ff.RetPoints(verdictIndex(fn))
		n := 0
		for i := range rps {
			rp := &rps[i]
			if rp.Outcome == Fails {
				continue
			}
			n++
			items := p.ReadSequence(s, rp)
			var got, probs []string
			for _, it := range items {
				if !it.Checked || !it.Result {
					probs = append(probs, "read "+it.String()+" unchecked or failed on the accepting path")
				}
				got = append(got, it.Op+"@"+it.Reader)
			}
			if len(items) != 6 {
				probs = append(probs, fmt.Sprintf("%d reads, required 6", len(items)))
			} else {
				outer, seq, der := items[0].Reader, items[1].Reader, items[3].Reader
				want := []string{"asn1@" + outer, "asn1@" + seq, "asn1bits@" + seq, "asn1@" + der, "asn1int@" + der, "asn1int@" + der}
				if strings.Join(got, " ") != strings.Join(want, " ") {
					probs = append(probs, "read sequence "+strings.Join(got, " ")+", required "+strings.Join(want, " "))
				}
				if items[0].Dst != seq {
					probs = append(probs, "inner reads are not performed on the outer SEQUENCE's content")
				}
				seqTag := "call<" + tagPkg + ".Constructed>(const:48)"
				if items[0].N != seqTag || items[1].N != seqTag || (items[3].N != "const:48" && items[3].N != seqTag) {
					probs = append(probs, "element tags are "+items[0].N+", "+items[1].N+", "+items[3].N+", required SEQUENCE")
				}
				// returned key's N and E are the integers read
				nDst, eDst := items[4].Call.Common().Args[1], items[5].Call.Common().Args[1]
				// the destinations can hold whatever the writers emit: N any big
				// integer, E every value of rsa.PublicKey.E's own type
				dstElem := func(v ssa.Value) types.Type {
					if mi, ok := v.(*ssa.MakeInterface); ok {
						v = mi.X
					}
					if pt, ok := v.Type().Underlying().(*types.Pointer); ok {
						return pt.Elem()
					}
					return v.Type()
				}
				origDst := func(it ReadItem, d ssa.Value) ssa.Value {
					if it.Orig != nil && len(it.Orig.Common().Args) > 1 {
						in := it.Orig.Common().Args[1] // the read inside the helper
						if prm, ok := in.(*ssa.Parameter); ok && prm.Parent() != nil && it.Call != nil {
							// the helper passes its own parameter on: the caller's argument decides
							for i, q := range prm.Parent().Params {
								if q == prm && i < len(it.Call.Common().Args) {
									return it.Call.Common().Args[i]
								}
							}
						}
						return in
					}
					return d
				}
				if t := dstElem(origDst(items[4], nDst)); typeShort(t) != "math/big.Int" {
					probs = append(probs, "the modulus is read into a "+typeShort(t)+", which cannot hold every modulus the writers emit (required *big.Int)")
				}
				if t := dstElem(origDst(items[5], eDst)); typeShort(t) != "math/big.Int" {
					bt, isBasic := t.Underlying().(*types.Basic)
					if !isBasic || bt.Info()&types.IsInteger == 0 || bt.Info()&types.IsUnsigned != 0 || p.Sizes.Sizeof(t) < p.Sizes.Sizeof(types.Typ[types.Int]) {
						probs = append(probs, "the public exponent is read into a "+typeShort(t)+", narrower than rsa.PublicKey.E (int): exponents the writers emit are refused or truncated by the reader")
					}
				}
				okN, okE := false, false
				for _, b := range fn.Blocks {
					for _, in := range b.Instrs {
						st, ok := in.(*ssa.Store)
						if !ok {
							continue
						}
						fa, ok := st.Addr.(*ssa.FieldAddr)
						if !ok || typeShort(deref(fa.X.Type())) != "crypto/rsa.PublicKey" {
							continue
						}
						switch fieldName(fa.X.Type(), fa.Field) {
						case "N":
							okN = sameObject(st.Val, nDst)
						case "E":
							okE = sameObject(st.Val, eDst)
						}
					}
				}
				// or: the integers are read straight into the fields of the key returned
				if !okN || !okE {
					keyOf := func(v ssa.Value, field string) ssa.Value {
						if mi, ok := v.(*ssa.MakeInterface); ok {
							v = mi.X
						}
						if ld, ok := v.(*ssa.UnOp); ok && ld.Op == token.MUL {
							v = ld.X
						}
						fa, ok := v.(*ssa.FieldAddr)
						if !ok || typeShort(deref(fa.X.Type())) != "crypto/rsa.PublicKey" || fieldName(fa.X.Type(), fa.Field) != field {
							return nil
						}
						return fa.X
					}
					kn, ke := keyOf(nDst, "N"), keyOf(eDst, "E")
					if kn != nil && kn == ke {
						for _, rp2 := range s.ff.RetPoints(verdictIndex(fn)) {
							if rp2.Outcome != Fails && len(rp2.Vals) > 0 && rp2.Vals[0] == kn {
								okN, okE = true, true
							}
						}
					}
				}
				if !okN || !okE {
					probs = append(probs, "the key returned does not carry the modulus and exponent just read")
				}
			}
			if len(probs) > 0 {
				r.Fail(R2, "UnmarshalTokenKey accepting path", p.Pos(rp.Ret.Pos()), strings.Join(probs, "; "))
			} else {
				r.OK(R2, "UnmarshalTokenKey accepting path", p.Pos(rp.Ret.Pos()), strings.Join(got, " "))
			}
		}
		r.Check(n == 1, R2, "UnmarshalTokenKey has one accepting path", p.Pos(fn.Pos()), "1", fmt.Sprintf("%d accepting paths", n))
	}

	// R3
	voprf := "hash<sha256>(extract<0>(call<(*github.com/cloudflare/circl/oprf.PublicKey).MarshalBinary>(call<(*github.com/cloudflare/circl/oprf.PrivateKey).Public>(param:0.tokenKey))))"
	rsaID := "hash<sha256>(" + pssSPKI("param:0.tokenKey.PublicKey") + ")"
	for _, c := range []struct{ fn, want string }{
		{"(*~/tokens/type1.BasicPrivateIssuer).TokenKeyID", voprf},
		{"(*~/tokens/type5.BatchedPrivateIssuer).TokenKeyID", voprf},
		{"(*~/tokens/type2.BasicPublicIssuer).TokenKeyID", rsaID},
		{"(*~/tokens/type3.RateLimitedIssuer).TokenKeyID", rsaID},
	} {
		if fn := anchor(p, r, R3, c.fn); fn != nil {
			r.List("functions", shortName(fn))
			retValueIs(p, r, R3, fn, "SHA-256(serialized public key)", c.want)
		}
	}

	// R4: request.TokenKeyID in constructors
	for _, name := range []string{
		"(~/tokens/type1.BasicPrivateClient).CreateTokenRequest", "(~/tokens/type1.BasicPrivateClient).CreateTokenRequestWithBlind",
		"(~/tokens/type2.BasicPublicClient).CreateTokenRequest", "(~/tokens/type2.BasicPublicClient).CreateTokenRequestWithBlind",
		"(~/tokens/type5.BatchedPrivateClient).CreateTokenRequest", "(~/tokens/type5.BatchedPrivateClient).CreateTokenRequestWithBlinds",
	} {
		fn := anchor(p, r, R4, name)
		if fn == nil {
			continue
		}
		s := p.NewSym(fn)
		okAll, n := true, 0
		detail := ""
		for _, rp := range s.ff.RetPoints(verdictIndex(fn)) {
			if rp.Outcome == Fails {
				continue
			}
			n++
			st := s.Of(rp.Vals[0])
			var req *Term
			if st.Op == "struct" {
				req = structField(st, "request")
			}
			got := "<no request>"
			if req != nil && req.Op == "ref" && req.Args[0].Op == "struct" {
				if v := structField(req.Args[0], "TokenKeyID"); v != nil {
					got = v.String()
				}
			}
			if got != "index(param:3, bin<->(len(param:3), const:1))" {
				okAll = false
				detail = "request.TokenKeyID is " + clip(got, 200)
			}
		}
		r.Check(okAll && n > 0, R4, shortName(fn)+": request.TokenKeyID = tokenKeyID[len-1]", p.Pos(fn.Pos()), "last byte of the key id argument", detail+", required index(param:3, len(param:3)-1)")
	}

	// R5
	if fn := anchor(p, r, R5, "~/tokens/type3.encryptOriginTokenRequest"); fn != nil {
		s := p.NewSym(fn)
		okAll, n := true, 0
		detail := ""
		want := "hash<sha256>(" + encapKeyEncoding("param:0") + ")"
		for _, rp := range s.ff.RetPoints(verdictIndex(fn)) {
			if rp.Outcome == Fails {
				continue
			}
			n++
			if got := s.Of(rp.Vals[0]).String(); got != want {
				okAll = false
				detail = "first result is " + clip(got, 300)
			}
		}
		r.Check(okAll && n > 0, R5, "client NameKeyID = SHA-256(EncapKey.Marshal())", p.Pos(fn.Pos()), want, detail+", required "+want)
	}
	// ... and that is what the request carries: the value stored in the
	// request's NameKeyID field by the client's request constructors is that
	// hash of the name key argument, followed through the helpers it is
	// obtained from (a memo or table in between is not the hash of THIS key)
	for _, cn := range []string{"(~/tokens/type3.RateLimitedClient).CreateTokenRequest"} {
		fn := anchor(p, r, R5, cn)
		if fn == nil {
			continue
		}
		keyParam := -1
		for i, pa := range fn.Params {
			if strings.HasSuffix(pa.Type().String(), "tokens/type3.EncapKey") {
				keyParam = i
			}
		}
		n, bad := 0, ""
		for _, b := range fn.Blocks {
			for _, in := range b.Instrs {
				st, ok := in.(*ssa.Store)
				if !ok {
					continue
				}
				fa, ok := st.Addr.(*ssa.FieldAddr)
				if !ok || fieldNameOf(fa) != "NameKeyID" {
					continue
				}
				n++
				if keyParam < 0 {
					bad = "no name key parameter"
					continue
				}
				if ok, why := idIsHashOfKey(p, fn, st.Val, keyParam, 0); !ok {
					bad = why + " at " + p.InstrPos(st)
				}
			}
		}
		r.Check(n > 0 && bad == "", R5, shortName(fn)+": request.NameKeyID = SHA-256(nameKey.Marshal()) of the name key argument", p.Pos(fn.Pos()), fmt.Sprintf("%d store(s) followed to the hash of the argument's own encoding", n), firstNonEmpty(bad, "no store to NameKeyID found"))
	}
	// the serialized key that is hashed must be the encoding of the key's own
	// fields: no encoding cache may be seeded from outside Marshal
	const R6 = "C18.serialization-not-from-a-seeded-cache"
	r.Rule(R6, "a key type's Marshal returns the encoding of its fields: an encoding cache, if it has one, is filled only by that Marshal (shared with C04)", 1)
	encodingCaches(p, r, R6, func(typ string) bool { return strings.Contains(typ, "Key") })
	// a name key received on the wire re-serializes to the bytes it was parsed
	// from: the hash over EncapKey.Marshal() is then the hash of the serialized key
	const R7 = "C18.name-key-reserializes"
	r.Rule(R7, "EncapKey decoder and encoder agree field by field (id, KEM, public key, KDF, AEAD): a parsed name key serializes to the bytes received, so its id is SHA-256 of the serialized key (shared with C04)", 3)
	c04EncapKey(p, r, R7)

}

// sameObject: value v is (a load of) the object pointer dst designates.
func sameObject(v, dst ssa.Value) bool {
	if mi, ok := dst.(*ssa.MakeInterface); ok {
		dst = mi.X
	}
	if v == dst {
		return true
	}
	if ld, ok := v.(*ssa.UnOp); ok {
		if ld.X == dst {
			return true
		}
		// both field addresses of the same base and field
		fa, ok1 := ld.X.(*ssa.FieldAddr)
		fb, ok2 := dst.(*ssa.FieldAddr)
		if ok1 && ok2 && fa.Field == fb.Field && fa.X == fb.X {
			return true
		}
		// dst is the pointer stored in that field: v = *(&p.N), dst = load(&p.N)
		if ld2, ok := dst.(*ssa.UnOp); ok {
			fc, ok3 := ld2.X.(*ssa.FieldAddr)
			if ok1 && ok3 && fa.Field == fc.Field && fa.X == fc.X {
				return true
			}
		}
	}
	return false
}

func fieldNameOf(fa *ssa.FieldAddr) string {
	pt, ok := fa.X.Type().Underlying().(*types.Pointer)
	if !ok {
		return ""
	}
	st, ok := pt.Elem().Underlying().(*types.Struct)
	if !ok || fa.Field >= st.NumFields() {
		return ""
	}
	return st.Field(fa.Field).Name()
}

// idIsHashOfKey: value v of fn is SHA-256 of the encoding of fn's parameter
// keyParam (an EncapKey), possibly obtained through module helpers that are
// handed that very parameter.
func idIsHashOfKey(p *Prog, fn *ssa.Function, v ssa.Value, keyParam int, depth int) (bool, string) {
	if depth > 4 {
		return false, "helper chain too deep"
	}
	s := p.NewSym(fn)
	want := "hash<sha256>(" + encapKeyEncoding(fmt.Sprintf("param:%d", keyParam)) + ")"
	got := s.Of(v).String()
	if got == want {
		return true, ""
	}
	idx := 0
	var call *ssa.Call
	switch x := v.(type) {
	case *ssa.Extract:
		call, _ = x.Tuple.(*ssa.Call)
		idx = x.Index
	case *ssa.Call:
		call = x
	case *ssa.Parameter:
		return false, "the id is parameter " + x.Name() + " of " + shortName(fn) + ", not computed from the key"
	}
	if call == nil {
		return false, "NameKeyID is " + clip(got, 200) + " in " + shortName(fn)
	}
	g := call.Call.StaticCallee()
	if g == nil || g.Blocks == nil || g.Pkg == nil || !strings.HasPrefix(g.Pkg.Pkg.Path(), modPath) {
		return false, "NameKeyID is " + clip(got, 200) + " in " + shortName(fn)
	}
	k2 := -1
	for i, a := range call.Call.Args {
		if a == ssa.Value(fn.Params[keyParam]) || s.Of(a).String() == fmt.Sprintf("param:%d", keyParam) {
			k2 = i
		}
	}
	ff := p.Facts(g)
	n := 0
	for _, rp := range ff.RetPoints(verdictIndex(g)) {
		if rp.Outcome == Fails || idx >= len(rp.Vals) {
			continue
		}
		n++
		rv := rp.Vals[idx]
		if pa, ok := rv.(*ssa.Parameter); ok {
			// handed through: judge what the caller passed
			for j, gp := range g.Params {
				if gp == pa {
					if ok, why := idIsHashOfKey(p, fn, call.Call.Args[j], keyParam, depth+1); !ok {
						return false, why
					}
				}
			}
			continue
		}
		if k2 < 0 {
			return false, shortName(g) + " computes the id without being handed the name key"
		}
		if ok, why := idIsHashOfKey(p, g, rv, k2, depth+1); !ok {
			return false, why
		}
	}
	if n == 0 {
		return false, "no returning path in " + shortName(g)
	}
	return true, ""
}
