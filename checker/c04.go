package main

// C04 - wire codecs round-trip, re-encode stably and keep request types apart.
// (Layout specifications are shared with C01 and C18.)

import (
	"fmt"
	"go/constant"
	"go/token"
	"go/types"
	"strings"

	"golang.org/x/tools/go/ssa"
)

func init() { props["C04"] = c04 }

// constInt: value of a package-level integer constant.
func (p *Prog) constInt(pkg, name string) (int64, bool) {
	pk := p.All[strings.ReplaceAll(pkg, "~/", modPath+"/")]
	if pk == nil || pk.Types == nil {
		return 0, false
	}
	c, ok := pk.Types.Scope().Lookup(name).(*types.Const)
	if !ok {
		return 0, false
	}
	v, ok := constant.Int64Val(constant.ToInt(c.Val()))
	return v, ok
}

// layoutSpec: one wire structure.
type layoutSpec struct {
	name    string
	writer  string   // function producing the encoding ("" = none)
	wterm   string   // required writer term (glob)
	reader  string   // decoder function
	reads   []string // required read sequence on every success path (glob per item)
	tag     string   // required constant compared with the first u16 ("" = none)
	noTrail bool     // last item must be empty=true on the main reader
}

// checkWriter: writer term equals the spec.
func checkWriter(p *Prog, r *Report, rule string, sp layoutSpec) {
	if sp.writer == "" {
		return
	}
	fn := anchor(p, r, rule, sp.writer)
	if fn == nil {
		return
	}
	r.List("functions", shortName(fn))
	t := p.returnTermWith(fn)
	got := "<not a single describable byte layout>"
	if t != nil {
		got = t.String()
	}
	r.Check(glob(sp.wterm, got), rule, sp.name+": encoder layout", p.Pos(fn.Pos()), "writer emits "+clip(sp.wterm, 300), "writer emits "+clip(got, 700)+", required "+clip(sp.wterm, 700))
}

// checkReader: on every success path the decoder performs exactly the
// required checked reads, in order.
func checkReader(p *Prog, r *Report, rule string, sp layoutSpec) (*ssa.Function, *Sym, []RetPoint) {
	fn := anchor(p, r, rule, sp.reader)
	if fn == nil {
		return nil, nil, nil
	}
	r.List("functions", shortName(fn))
	s := p.NewSym(fn)
	rps := s.ff.RetPoints(verdictIndex(fn))
	n := 0
	var succ []RetPoint
	for i := range rps {
		rp := &rps[i]
		if rp.Outcome == Fails {
			continue
		}
		n++
		succ = append(succ, *rp)
		items := p.ReadSequence(s, rp)
		var main []ReadItem
		mainReader := ""
		if len(items) > 0 {
			mainReader = items[0].Reader
		}
		var probs []string
		for _, it := range items {
			if !it.Checked {
				probs = append(probs, "unchecked read "+it.String()+" at "+p.InstrPos(it.Call))
			} else if !it.Result && it.Op != "empty" {
				probs = append(probs, "read "+it.String()+" failed on an accepting path")
			}
			if it.Reader == mainReader {
				main = append(main, it)
			}
		}
		var got []string
		for _, it := range main {
			x := it.Op
			if it.N != "" {
				x += "[" + it.N + "]"
			}
			if it.Dst != "" {
				x += "->" + it.Dst
			}
			if it.Op == "empty" {
				x += fmt.Sprintf("=%v", it.Result)
			}
			got = append(got, x)
		}
		want := append([]string(nil), sp.reads...)
		if sp.noTrail {
			want = append(want, "empty=true")
		}
		if !sp.noTrail && len(got) == len(want)+1 && got[len(got)-1] == "empty=true" {
			got = got[:len(got)-1] // a decoder may also insist on having consumed everything
		}
		if len(got) != len(want) {
			probs = append(probs, fmt.Sprintf("%d reads on the main reader, required %d", len(got), len(want)))
		} else {
			for j := range want {
				if !glob(want[j], got[j]) {
					probs = append(probs, fmt.Sprintf("read #%d is %s, required %s", j+1, got[j], want[j]))
				}
			}
		}
		if sp.tag != "" && len(main) > 0 {
			k, ok := p.tagCheck(s, rp, main[0])
			if !ok || k != sp.tag {
				probs = append(probs, fmt.Sprintf("the leading type tag is not compared with %s on this accepting path (found %q)", sp.tag, k))
			}
		}
		key := sp.name + ": decoder reads"
		if len(probs) > 0 {
			r.Fail(rule, key, p.Pos(rp.Ret.Pos()), strings.Join(probs, "; ")+" [reads: "+strings.Join(got, " ; ")+"]")
		} else {
			r.OK(rule, key, p.Pos(rp.Ret.Pos()), strings.Join(got, " ; "))
		}
	}
	if n == 0 {
		r.Fail(rule, sp.name+": decoder reads", p.Pos(fn.Pos()), "decoder has no accepting path")
	}
	return fn, s, succ
}

// copiedInto: the decoder copies the bytes read by a length-prefixed read (into
// local `lp`) into field fld of parameter 0: a store of make(len(L)) to the
// field and copy(field, L).
func copiedInto(p *Prog, r *Report, rule, name string, fn *ssa.Function, s *Sym, lpOrdinal int, fld string) {
	// the out-term of the k-th lp read (one-step or two-step form)
	var lpCalls []*ssa.Call
	for _, rp := range s.ff.RetPoints(verdictIndex(fn)) {
		if rp.Outcome == Fails {
			continue
		}
		rpc := rp
		lpCalls = nil
		for _, it := range p.ReadSequence(s, &rpc) {
			if strings.HasPrefix(it.Op, "lp") {
				if c, ok := it.Call.(*ssa.Call); ok {
					lpCalls = append(lpCalls, c)
				}
			}
		}
		break
	}
	key := name + ": length-prefixed bytes are copied into ." + fld
	if lpOrdinal >= len(lpCalls) {
		r.Fail(rule, key, p.Pos(fn.Pos()), "length-prefixed read not found")
		return
	}
	lp := lpCalls[lpOrdinal]
	out := "out<1>(" + s.callTerm(lp).String() + ")"
	found := false
	for _, site := range sitesIn(fn, func(n string) bool { return n == "builtin.copy" }) {
		cc := site.Common()
		src := s.Of(cc.Args[1]).String()
		dst := s.Of(cc.Args[0]).String()
		if src == out && dst == "make(len("+out+"))" {
			// destination must be the field
			if ld, ok := cc.Args[0].(*ssa.UnOp); ok {
				if fa, ok := ld.X.(*ssa.FieldAddr); ok && fieldName(fa.X.Type(), fa.Field) == fld {
					found = true
				}
			}
		}
	}
	// or: the field is assigned a value whose content is L (append onto an
	// empty buffer, bytes.Clone, a helper returning a copy)
	for _, b := range fn.Blocks {
		for _, in := range b.Instrs {
			st, ok := in.(*ssa.Store)
			if !ok {
				continue
			}
			fa, ok := st.Addr.(*ssa.FieldAddr)
			if !ok || fieldName(fa.X.Type(), fa.Field) != fld {
				continue
			}
			switch s.Of(st.Val).String() {
			case out, "make(len(" + out + "), copy(" + out + "))", "call<bytes.Clone>(" + out + ")", "call<slices.Clone>(" + out + ")", "conv<[]byte>(" + out + ")":
				found = true
			}
		}
	}
	r.Check(found, rule, key, p.InstrPos(lp), "field = copy of L", "no assignment of a copy of L (the bytes just read) to ."+fld+" was found: the decoded value is not what was on the wire")
}

func c04(p *Prog, r *Report) {
	r.Explanation = "Writer/reader layout agreement extracted from the code: for every wire structure the encoder's byte-layout term (cryptobyte.Builder / append / varint idioms, evaluated symbolically) and the decoder's sequence of checked cryptobyte reads on its accepting paths are both compared with the structure's layout - same fields, same order, same prefix kinds, fixed widths equal to the repository's constants (by value: Ne, Nk, 32, 49, 96). Plus: cache discipline (any method that can change a field Marshal reads is dominated by a reset of the encoding cache), type tags (each request decoder compares the leading uint16 with its own type constant; the batch walker maps each tag to the matching decoder and rejects others), and decoder completeness (every field the writer emits is assigned from the bytes read)."
	r.NotDecided = "value-level round trips (an OriginInfo element containing a comma, DER minimality), 'no longer than b' beyond the absence of optional encodings, behaviour of cryptobyte itself."
	r.Assumptions = append(r.Assumptions, "cryptobyte.Builder/String and quicwire implement the primitives their names say (quicwire is decided by C19)")
	r.Trusted = append(r.Trusted, "go/types constants, go/ssa", "term evaluator and reader extractor of this checker", "the layout table of this file (from the TLS-presentation comments and constants in the repository)")

	const R1 = "C04.layout-agreement"
	const R2 = "C04.cache-discipline"
	const R3 = "C04.type-tags"
	const R4 = "C04.batch-walkers"
	r.Rule(R1, "encoder layout term and decoder read sequence both match the structure's layout (fields, order, prefix kinds, widths by constant value); decoded fields are assigned from the bytes read", 30)
	r.Rule(R2, "for each type with an encoding cache: every method other than Marshal that may store to a field Marshal reads resets/refreshes the cache on every success path; Marshal never returns a cache that no such reset can clear", 6)
	r.Rule(R3, "each request decoder accepts only its own type tag", 4)
	r.Rule(R4, "generic batch request/response walkers: per-tag decoder mapping with rejecting default, element decoded from the bytes of the list, advance = consumed length; response entries absent/present with per-type fixed lengths Ne+2Nk / Nk", 8)

	ne1, ok1 := p.constInt("~/tokens/type1", "Ne")
	nk1, ok2 := p.constInt("~/tokens/type1", "Nk")
	nk2, ok3 := p.constInt("~/tokens/type2", "Nk")
	if !ok1 || !ok2 || !ok3 {
		r.Fail(R1, "width constants type1.Ne, type1.Nk, type2.Nk", "-", "unresolved anchor: width constants not found")
		return
	}
	r.Note("width table: type1.Ne=%d type1.Nk=%d type2.Nk=%d; nonce/context/key id 32; type3 request key 49, name key id 32, signature 96; type5 element 32, authenticator 64", ne1, nk1, nk2)
	c := func(v int64) string { return fmt.Sprintf("const:%d", v) }

	tokenReads := func(w int64) []string {
		return []string{"u16->*.TokenType", "bytes[const:32]->*.Nonce", "bytes[const:32]->*.Context", "bytes[const:32]->*.KeyID", "bytes[" + c(w) + "]->*.Authenticator"}
	}
	tokenW := "cat(u16(param:0.TokenType), param:0.Nonce, param:0.Context, param:0.KeyID, param:0.Authenticator)"
	specs := []layoutSpec{
		{name: "Token (type 1)", writer: "(~/tokens.Token).Marshal", wterm: tokenW, reader: "~/tokens/type1.UnmarshalPrivateToken", reads: tokenReads(nk1)},
		{name: "Token (type 2)", reader: "~/tokens/type2.UnmarshalToken", reads: tokenReads(nk2)},
		{name: "Token (type 3)", reader: "~/tokens/type3.UnmarshalToken", reads: tokenReads(nk2)},
		{name: "Token (type 5)", reader: "~/tokens/type5.UnmarshalBatchedPrivateToken", reads: tokenReads(64)},
		{name: "Token authenticator input", writer: "(~/tokens.Token).AuthenticatorInput", wterm: "cat(u16(param:0.TokenType), param:0.Nonce, param:0.Context, param:0.KeyID)"},
		{name: "TokenRequest type 1", writer: "(*~/tokens/type1.BasicPrivateTokenRequest).Marshal", wterm: "cat(u16(const:1), u8(param:0.TokenKeyID), param:0.BlindedReq)",
			reader: "(*~/tokens/type1.BasicPrivateTokenRequest).Unmarshal", reads: []string{"u16->local:*", "u8->param:0.TokenKeyID", "bytes[" + c(ne1) + "]->param:0.BlindedReq"}, tag: "1"},
		{name: "TokenRequest type 2", writer: "(*~/tokens/type2.BasicPublicTokenRequest).Marshal", wterm: "cat(u16(const:2), u8(param:0.TokenKeyID), param:0.BlindedReq)",
			reader: "(*~/tokens/type2.BasicPublicTokenRequest).Unmarshal", reads: []string{"u16->local:*", "u8->param:0.TokenKeyID", "bytes[" + c(nk2) + "]->param:0.BlindedReq"}, tag: "2"},
		{name: "TokenRequest type 3", writer: "(*~/tokens/type3.RateLimitedTokenRequest).Marshal", wterm: "cat(u16(const:3), param:0.RequestKey, param:0.NameKeyID, lp16(param:0.EncryptedTokenRequest), param:0.Signature)",
			reader: "(*~/tokens/type3.RateLimitedTokenRequest).Unmarshal", reads: []string{"u16->local:*", "bytes[const:49]->param:0.RequestKey", "bytes[const:32]->param:0.NameKeyID", "lp16->local:*", "bytes[const:96]->param:0.Signature"}, tag: "3", noTrail: true},
		{name: "InnerTokenRequest", writer: "(*~/tokens/type3.InnerTokenRequest).Marshal", wterm: "cat(u8(param:0.tokenKeyId), param:0.blindedMsg, lp16(param:0.paddedOrigin))",
			reader: "(*~/tokens/type3.InnerTokenRequest).Unmarshal", reads: []string{"u8->param:0.tokenKeyId", "bytes[" + c(nk2) + "]->param:0.blindedMsg", "lp16->local:*"}},
	}
	for _, sp := range specs {
		checkWriter(p, r, R1, sp)
		if sp.reader == "" {
			continue
		}
		fn, s, succ := checkReader(p, r, R1, sp)
		if fn == nil {
			continue
		}
		if ml, fixed := minLenOfReads(sp.reads); true {
			fl := int64(-1)
			if fixed {
				fl = ml
			}
			lengthPrechecks(p, r, R1, sp.name, fn, ml, fl)
		}
		switch sp.name {
		case "TokenRequest type 3":
			copiedInto(p, r, R1, sp.name, fn, s, 0, "EncryptedTokenRequest")
		case "InnerTokenRequest":
			copiedInto(p, r, R1, sp.name, fn, s, 0, "paddedOrigin")
		}
		if strings.HasPrefix(sp.name, "Token (") {
			// the struct filled by the reads is the one returned
			ok := len(succ) > 0
			for _, rp := range succ {
				if !returnedIsFilled(p, s, rp, 0) {
					ok = false
				}
			}
			r.Check(ok, R1, sp.name+": returned token is the struct the reads filled", p.Pos(fn.Pos()), "same object", "the token returned is not the object the fields were read into")
		}
	}

	c04Type5Request(p, r, R1)
	c04EncapKey(p, r, R1)
	c04Challenge(p, r, R1)

	// R3 is part of checkReader (tag); make the instances explicit
	for _, sp := range specs {
		if sp.tag != "" {
			r.OK(R3, sp.name+": tag "+sp.tag+" required (verified with the read sequence)", "-", "see "+R1)
		}
	}
	c04Cache(p, r, R2)
	// the type-5 and batch structures are framed by QUIC varints: their round
	// trip needs the varint codec to be an exact inverse pair
	const R5 = "C04.varint-length-prefixes-exact"
	r.Rule(R5, "type 5 and batch messages carry QUIC-varint length prefixes: encoder and decoder are exact inverses with the shortest form (the rules of C19, one obligation per rule)", 5)
	c19AsSubRule(p, r, R5)
	c04BatchRequest(p, r, R4)
	c04BatchResponses(p, r, R4, ne1, nk1, nk2)
}

// ---- type 5 request (varint-framed element list)
func c04Type5Request(p *Prog, r *Report, R1 string) {
	name := "TokenRequest type 5"
	idx := "*"
	wterm := "cat(u16(const:5), u8(param:0.TokenKeyID), varint(conv<uint64>(len(each(index(param:0.BlindedReq, " + idx + "))))), each(index(param:0.BlindedReq, " + idx + ")))"
	checkWriter(p, r, R1, layoutSpec{name: name, writer: "(*~/tokens/type5.BatchedPrivateTokenRequest).Marshal", wterm: wterm})
	fn := anchor(p, r, R1, "(*~/tokens/type5.BatchedPrivateTokenRequest).Unmarshal")
	if fn == nil {
		return
	}
	lengthPrechecks(p, r, R1, name, fn, 4, -1) // type || key id || varint(0): an empty element list
	s := p.NewSym(fn)
	rps := s.ff.RetPoints(verdictIndex(fn))
	n := 0
	for i := range rps {
		rp := &rps[i]
		if rp.Outcome == Fails {
			continue
		}
		n++
		items := p.ReadSequence(s, rp)
		var probs []string
		if len(items) != 4 {
			probs = append(probs, fmt.Sprintf("%d reader operations, required 4 (u16 tag, u8 key id, skip varint, bytes list)", len(items)))
		} else {
			if k, ok := p.tagCheck(s, rp, items[0]); !ok || k != "5" {
				probs = append(probs, "leading type tag not compared with 5")
			}
			if items[1].Op != "u8" || items[1].Dst != "param:0.TokenKeyID" {
				probs = append(probs, "second read is "+items[1].String()+", required u8->param:0.TokenKeyID")
			}
			for _, it := range items {
				if !it.Checked || !it.Result {
					probs = append(probs, "read "+it.String()+" unchecked or failed on the accepting path")
				}
			}
			// varint taken from the reader's remaining bytes
			cv := "call<quicwire.ConsumeVarint>(out<0>(" + s.callTerm(items[1].Call).String() + "))"
			if items[2].Op != "skip" || items[2].N != "extract<1>("+cv+")" {
				probs = append(probs, "the varint length is not consumed from the remaining bytes and skipped by its own size: "+items[2].String())
			}
			if items[3].Op != "bytes" || items[3].N != "conv<int>(extract<0>("+cv+"))" {
				probs = append(probs, "the element list is not read with the declared length: "+items[3].String())
			}
			// len % 32 == 0 on the accepting path
			list := "out<1>(" + s.callTerm(items[3].Call).String() + ")"
			mod := false
			for _, a := range rp.Facts {
				if a.Kind == Truth {
					t := s.Of(a.V).String()
					if (t == "bin<!=>(bin<%>(len("+list+"), const:32), const:0)" && !a.Pol) || (t == "bin<==>(bin<%>(len("+list+"), const:32), const:0)" && a.Pol) ||
						(t == "bin<!=>(const:0, bin<%>(len("+list+"), const:32))" && !a.Pol) {
						mod = true
					}
				}
			}
			if !mod {
				probs = append(probs, "accepting path not guarded by len(list) % 32 == 0 (element width of ristretto255)")
			}
			// elements: r.BlindedReq = make(len/32); r.BlindedReq[i] = make(32); copy(r.BlindedReq[i], list[32*i:])
			okEl := false
			for _, site := range sitesIn(fn, func(nm string) bool { return nm == "builtin.copy" }) {
				cc := site.Common()
				src := s.Of(cc.Args[1])
				if src.Op != "slice" || src.Args[0].String() != list {
					continue
				}
				lo := src.Args[1].String()
				// open-ended (copy stops at the 32-byte destination) or exactly [lo : lo+32]
				if hi := src.Args[2].String(); hi != "const:nil" && hi != "bin<+>(const:32, "+lo+")" && hi != "bin<+>("+lo+", const:32)" {
					continue
				}
				ld, ok := cc.Args[0].(*ssa.UnOp)
				if !ok {
					continue
				}
				ixa, ok := ld.X.(*ssa.IndexAddr)
				if !ok {
					continue
				}
				i := s.Of(ixa.Index).String()
				if lo != "bin<*>(const:32, "+i+")" && lo != "bin<*>("+i+", const:32)" {
					continue
				}
				// the element copied into was just allocated with 32 bytes, in a
				// slice of len/32 elements stored into r.BlindedReq
				for _, b := range fn.Blocks {
					for _, in := range b.Instrs {
						st, ok := in.(*ssa.Store)
						if !ok {
							continue
						}
						ia2, ok := st.Addr.(*ssa.IndexAddr)
						if !ok || s.Of(ia2.X).String() != s.Of(ixa.X).String() || s.Of(ia2.Index).String() != i {
							continue
						}
						if s.Of(st.Val).String() == "make(const:32)" && dominates(st, site) {
							okEl = true
						}
					}
				}
			}
			if !okEl {
				// or: the whole list is copied once into a fresh buffer and element i
				// is the window [32*i : 32*i+32] of that copy
				for _, b := range fn.Blocks {
					for _, in := range b.Instrs {
						st, ok := in.(*ssa.Store)
						if !ok {
							continue
						}
						ixa, ok := st.Addr.(*ssa.IndexAddr)
						if !ok {
							continue
						}
						// element i = bytes.Clone(list[32*i : 32*i+32]) (or append([]byte(nil), ...)): a fresh copy of the window
						if vt := s.Of(st.Val); vt.Op == "call" && (vt.Name == "bytes.Clone" || vt.Name == "slices.Clone") && len(vt.Args) == 1 && vt.Args[0].Op == "slice" && len(vt.Args[0].Args) == 3 && vt.Args[0].Args[0].String() == list {
							i := s.Of(ixa.Index).String()
							lo, hi := vt.Args[0].Args[1].String(), vt.Args[0].Args[2].String()
							if (lo == "bin<*>(const:32, "+i+")" || lo == "bin<*>("+i+", const:32)") && (hi == "bin<+>(const:32, "+lo+")" || hi == "bin<+>("+lo+", const:32)") {
								okEl = true
							}
							continue
						}
						win, ok := st.Val.(*ssa.Slice)
						if !ok || win.Low == nil || win.High == nil {
							continue
						}
						if _, fresh := win.X.(*ssa.MakeSlice); !fresh || (s.Of(win.X).String() != list && s.Of(win.X).String() != "make(len("+list+"), copy("+list+"))") {
							continue
						}
						i := s.Of(ixa.Index).String()
						lo, hi := s.Of(win.Low).String(), s.Of(win.High).String()
						if lo != "bin<*>(const:32, "+i+")" && lo != "bin<*>("+i+", const:32)" {
							continue
						}
						if hi != "bin<+>(const:32, "+lo+")" && hi != "bin<+>("+lo+", const:32)" {
							continue
						}
						okEl = true
					}
				}
			}
			if !okEl {
				probs = append(probs, "element i is not a fresh 32-byte copy of list[32*i:]")
			}
			// the element list of the object is replaced on THIS accepting path: a
			// store to .BlindedReq dominates the return (else a reused object keeps
			// the previous message's elements)
			assigned := false
			for _, b := range fn.Blocks {
				for _, in := range b.Instrs {
					st, ok := in.(*ssa.Store)
					if !ok {
						continue
					}
					fa, ok := st.Addr.(*ssa.FieldAddr)
					if ok && fieldName(deref(fa.X.Type()), fa.Field) == "BlindedReq" && dominates(st, rp.Ret) {
						assigned = true
					}
				}
			}
			if !assigned {
				// or through an in-module helper called on this path that stores the field
				for _, b := range fn.Blocks {
					for _, in := range b.Instrs {
						c, ok := in.(*ssa.Call)
						if !ok || !dominates(c, rp.Ret) {
							continue
						}
						g := c.Call.StaticCallee()
						if g == nil || !InModule(g) || g.Blocks == nil {
							continue
						}
						for _, gb := range g.Blocks {
							for _, gin := range gb.Instrs {
								if st, ok := gin.(*ssa.Store); ok {
									if fa, ok := st.Addr.(*ssa.FieldAddr); ok && fieldName(deref(fa.X.Type()), fa.Field) == "BlindedReq" {
										assigned = true
									}
								}
							}
						}
					}
				}
			}
			if !assigned {
				probs = append(probs, "this accepting path does not assign .BlindedReq: a reused object keeps the elements of the message it held before")
			}
		}
		if len(probs) > 0 {
			r.Fail(R1, name+": decoder reads", p.Pos(rp.Ret.Pos()), strings.Join(probs, "; ")+" [reads: "+readSeqString(items)+"]")
		} else {
			r.OK(R1, name+": decoder reads", p.Pos(rp.Ret.Pos()), "u16 tag 5; u8 key id; varint l from the remaining bytes; l bytes; l%32==0; 32-byte elements")
			if _, ok := r.Rules["C04.type-tags"]; ok {
				r.OK("C04.type-tags", name+": tag 5 required (verified with the read sequence)", "-", "see "+R1)
			}
		}
	}
	if n == 0 {
		r.Fail(R1, name+": decoder reads", p.Pos(fn.Pos()), "decoder has no accepting path")
	}
}

// ---- EncapKey
func c04EncapKey(p *Prog, r *Report, R1 string) {
	name := "EncapKey"
	kem, kdf, aead := "call<(github.com/cisco/go-hpke.KEMScheme).ID>(param:0.suite.KEM)", "call<(github.com/cisco/go-hpke.KDFScheme).ID>(param:0.suite.KDF)", "call<(github.com/cisco/go-hpke.AEADScheme).ID>(param:0.suite.AEAD)"
	checkWriter(p, r, R1, layoutSpec{name: name, writer: "(~/tokens/type3.EncapKey).Marshal",
		wterm: "cat(u8(param:0.id), u16(" + kem + "), call<(github.com/cisco/go-hpke.KEMScheme).SerializePublicKey>(param:0.suite.KEM, param:0.publicKey), u16(" + kdf + "), u16(" + aead + "))"})
	fn, s, succ := checkReader(p, r, R1, layoutSpec{name: name, reader: "~/tokens/type3.UnmarshalEncapKey",
		reads: []string{"u8->local:*", "u16->local:*", "bytes[call<(github.com/cisco/go-hpke.KEMScheme).PublicKeySize>(extract<0>(call<github.com/cisco/go-hpke.AssembleCipherSuite>(*)).KEM)]->local:*", "u16->local:*", "u16->local:*"}})
	if fn == nil {
		return
	}
	lengthPrechecks(p, r, R1, name, fn, 7, -1)
	for _, rp := range succ {
		rpc := rp
		items := p.ReadSequence(s, &rpc)
		if len(items) != 5 {
			continue
		}
		out := func(i int) string { return "out<1>(" + s.callTerm(items[i].Call).String() + ")" }
		st := s.Of(rp.Vals[0])
		suite := "extract<0>(call<github.com/cisco/go-hpke.AssembleCipherSuite>(" + out(1) + ", " + out(3) + ", " + out(4) + "))"
		want := map[string]string{
			"id":        out(0),
			"suite":     suite,
			"publicKey": "extract<0>(call<(github.com/cisco/go-hpke.KEMScheme).DeserializePublicKey>(" + suite + ".KEM, " + out(2) + "))",
		}
		for f, w := range want {
			var got string
			if st.Op == "struct" {
				if v := structField(st, f); v != nil {
					got = v.String()
				}
			}
			// conversions of the ids (KEMID(x)) are transparent only for integers
			got = strings.NewReplacer("conv<uint16>(", "(").Replace(got)
			r.Check(got == w || strings.ReplaceAll(got, "conv<", "") == strings.ReplaceAll(w, "conv<", ""), R1, name+": decoded ."+f+" comes from the bytes read", p.Pos(rp.Ret.Pos()), clip(w, 160), "decoded ."+f+" is "+clip(got, 500)+", required "+clip(w, 500))
		}
	}
}

// ---- TokenChallenge
func c04Challenge(p *Prog, r *Report, R1 string) {
	name := "TokenChallenge"
	checkWriter(p, r, R1, layoutSpec{name: name, writer: "(~/tokens.TokenChallenge).Marshal",
		wterm: "cat(u16(param:0.TokenType), lp16(param:0.IssuerName), lp8(param:0.RedemptionNonce), lp16(join(param:0.OriginInfo, lit:\",\")))"})
	fn, s, succ := checkReader(p, r, R1, layoutSpec{name: name, reader: "~/tokens.UnmarshalTokenChallenge",
		reads: []string{"u16->*", "lp16->local:*", "lp8->local:*", "lp16->local:*"}})
	if fn == nil {
		return
	}
	lengthPrechecks(p, r, R1, name, fn, 7, -1)
	for _, rp := range succ {
		rpc := rp
		items := p.ReadSequence(s, &rpc)
		var main []ReadItem
		for _, it := range items {
			if it.Op != "empty" {
				main = append(main, it)
			}
		}
		if len(main) != 4 {
			continue
		}
		out := func(i int) string { return "out<1>(" + s.callTerm(main[i].Call).String() + ")" }
		st := s.Of(rp.Vals[0])
		want := map[string]string{
			"TokenType":  out(0),
			"IssuerName": out(1),
		}
		// OriginInfo: the writer joins with ","; strings.Split inverts the join
		// for every non-empty list, but Split("") is one empty element, not the
		// empty list - so the split must be applied to a non-empty field only,
		// and an empty field must leave the list empty
		{
			splitT := "call<strings.Split>(" + out(3) + ", lit:\",\")"
			var split *ssa.Call
			nStores := 0
			for _, b := range fn.Blocks {
				for _, in := range b.Instrs {
					st, ok := in.(*ssa.Store)
					if !ok {
						continue
					}
					fa, ok := st.Addr.(*ssa.FieldAddr)
					if !ok || fieldName(deref(fa.X.Type()), fa.Field) != "OriginInfo" {
						continue
					}
					nStores++
					if c, ok := st.Val.(*ssa.Call); ok && s.Of(c).String() == splitT {
						split = c
					}
					// or: a local that is the split on one path and still nil on the other
					if ph, ok := st.Val.(*ssa.Phi); ok {
						var cand *ssa.Call
						okPhi := true
						for _, e := range ph.Edges {
							if c, ok := e.(*ssa.Call); ok && s.Of(c).String() == splitT && cand == nil {
								cand = c
							} else if !isNilConst(e) {
								okPhi = false
							}
						}
						if okPhi && cand != nil {
							split = cand
						}
					}
				}
			}
			switch {
			case split == nil || nStores != 1:
				r.Fail(R1, name+": decoded .OriginInfo comes from the bytes read", p.Pos(rp.Ret.Pos()), fmt.Sprintf("%d stores to .OriginInfo, none (or not only) strings.Split(origin field, \",\"): required %s", nStores, clip(splitT, 300)))
			default:
				r.OK(R1, name+": decoded .OriginInfo comes from the bytes read", p.InstrPos(split), "strings.Split(origin field, \",\")")
				nonEmpty := false
				for _, a := range s.ff.At(split.Block()) {
					if a.Kind != Truth {
						continue
					}
					switch x := a.V.(type) {
					case *ssa.BinOp:
						xt, yt := s.Of(x.X).String(), s.Of(x.Y).String()
						ln := "len(" + out(3) + ")"
						switch {
						case xt == ln && yt == "const:0":
							nonEmpty = nonEmpty || (x.Op == token.GTR && a.Pol) || (x.Op == token.NEQ && a.Pol) || (x.Op == token.EQL && !a.Pol) || (x.Op == token.LEQ && !a.Pol)
						case yt == ln && xt == "const:0":
							nonEmpty = nonEmpty || (x.Op == token.LSS && a.Pol) || (x.Op == token.NEQ && a.Pol) || (x.Op == token.EQL && !a.Pol) || (x.Op == token.GEQ && !a.Pol)
						case xt == ln && yt == "const:1":
							nonEmpty = nonEmpty || (x.Op == token.GEQ && a.Pol) || (x.Op == token.LSS && !a.Pol)
						}
					case *ssa.Call:
						if strings.HasSuffix(calleeName(x.Common()), "cryptobyte.String).Empty") && !a.Pol && len(x.Call.Args) == 1 {
							// Empty() of the origin field itself (the local the read filled)
							rc := main[3].Call.Common()
							if len(rc.Args) > 1 && x.Call.Args[0] == rc.Args[1] {
								nonEmpty = true
							}
						}
					}
				}
				r.Check(nonEmpty, R1, name+": an empty origin field decodes to the empty list", p.InstrPos(split), "strings.Split is applied under len(field) > 0 only", "strings.Split is applied to a possibly empty origin field: Split(\"\", \",\") is [\"\"], so a challenge without origin info (OriginInfo nil, as the repository's own vector generator builds) decodes to a list holding one empty name")
			}
		}
		for f, w := range want {
			got := ""
			if st.Op == "struct" {
				if v := structField(st, f); v != nil {
					got = v.String()
				}
			}
			// a read straight into the struct field is named out<fld>(call)
			r.Check(got == w || got == strings.Replace(w, "out<1>(", "out<fld>(", 1), R1, name+": decoded ."+f+" comes from the bytes read", p.Pos(rp.Ret.Pos()), clip(w, 120), "decoded ."+f+" is "+clip(got, 400)+", required "+clip(w, 400))
		}
		// RedemptionNonce = make(len(L)); copy
		found := false
		for _, site := range sitesIn(fn, func(n string) bool { return n == "builtin.copy" }) {
			cc := site.Common()
			if s.Of(cc.Args[1]).String() == out(2) && s.Of(cc.Args[0]).String() == "make(len("+out(2)+"))" {
				found = true
			}
		}
		if st.Op == "struct" {
			if v := structField(st, "RedemptionNonce"); v != nil {
				switch v.String() {
				case out(2), "make(len(" + out(2) + "), copy(" + out(2) + "))", "call<bytes.Clone>(" + out(2) + ")", "conv<[]byte>(" + out(2) + ")":
					found = true
				}
			}
		}
		r.Check(found, R1, name+": decoded .RedemptionNonce is a copy of the bytes read", p.Pos(rp.Ret.Pos()), "copy of L", "RedemptionNonce is not assigned a copy of the length-prefixed bytes read")
	}
}

// ---- cache discipline
func c04Cache(p *Prog, r *Report, R2 string) {
	types5 := []string{"~/tokens/type1.BasicPrivateTokenRequest", "~/tokens/type2.BasicPublicTokenRequest", "~/tokens/type3.RateLimitedTokenRequest", "~/tokens/type5.BatchedPrivateTokenRequest", "~/tokens/type3.InnerTokenRequest", "~/tokens/batched.BatchedTokenRequest"}
	e := p.Effects()
	for _, tn := range types5 {
		full := strings.ReplaceAll(tn, "~/", modPath+"/")
		short := strings.ReplaceAll(tn, "~/", "")
		// Marshal: does it read/write the cache on the receiver's own memory?
		var marshal *ssa.Function
		var methods []*ssa.Function
		for _, f := range p.ModuleFuncs() {
			if f.Signature.Recv() == nil || f.Parent() != nil {
				continue
			}
			rt := typeShort(deref(f.Signature.Recv().Type()))
			if rt != short {
				continue
			}
			if f.Name() == "Marshal" {
				marshal = f
			} else {
				methods = append(methods, f)
			}
		}
		if marshal == nil {
			r.Fail(R2, short+": Marshal", "-", "unresolved anchor: no Marshal method on "+full)
			continue
		}
		// does the cache persist? (Marshal writes receiver memory S0 at field raw)
		persists := false
		if sm := e.Summary(marshal); sm != nil {
			for k, w := range sm.All {
				if k.kind == 'S' && k.idx == 0 {
					if st, ok := w.Site.(*ssa.Store); ok {
						if fa, ok := st.Addr.(*ssa.FieldAddr); ok && fieldName(fa.X.Type(), fa.Field) == "raw" {
							persists = true
						}
					}
				}
			}
		}
		if !persists {
			r.OK(R2, short+": encoding cache does not persist", p.Pos(marshal.Pos()), "Marshal has a value receiver (or never stores the cache into the object): nothing to invalidate")
			continue
		}
		// fields Marshal reads
		read := fieldsRead(marshal)
		delete(read, "raw")
		for _, m := range methods {
			stores := fieldsStoredThroughRecv(e, m)
			touched := false
			for f := range stores {
				if read[f] {
					touched = true
				}
			}
			if !touched {
				continue
			}
			// every success return dominated by a store raw = nil (or fresh encoding)
			ff := p.Facts(m)
			okAll, n := true, 0
			for _, rp := range ff.RetPoints(verdictIndex(m)) {
				if rp.Outcome == Fails {
					continue
				}
				n++
				reset := false
				var resetAt *ssa.Store
				for _, b := range m.Blocks {
					for _, in := range b.Instrs {
						st, ok := in.(*ssa.Store)
						if !ok {
							continue
						}
						fa, ok := st.Addr.(*ssa.FieldAddr)
						if !ok || fieldName(fa.X.Type(), fa.Field) != "raw" || len(m.Params) == 0 || !sameBase(fa.X, m.Params[0]) && fa.X != ssa.Value(m.Params[0]) {
							continue
						}
						if isNilConst(st.Val) && dominates(st, rp.Ret) {
							reset = true
							resetAt = st
						}
					}
				}
				if !reset {
					okAll = false
				}
				// ... and nothing re-fills the cache between the reset and the return
				if reset {
					for _, b := range m.Blocks {
						for _, in := range b.Instrs {
							st, ok := in.(*ssa.Store)
							if !ok || isNilConst(st.Val) {
								continue
							}
							fa, ok := st.Addr.(*ssa.FieldAddr)
							if !ok || fieldName(fa.X.Type(), fa.Field) != "raw" {
								continue
							}
							if reaches(resetAt, st) && reaches(st, rp.Ret) {
								okAll = false
							}
						}
					}
				}
			}
			r.Check(okAll && n > 0, R2, shortName(m)+" resets the encoding cache", p.Pos(m.Pos()), "every success return is dominated by raw = nil", "the method stores to fields Marshal reads but a success return is reachable without resetting the cached encoding: Marshal afterwards returns the previous value's bytes")
		}
	}
	encodingCaches(p, r, R2, nil)
}

// encodingCaches: for every in-module type whose Marshal returns a cached
// field when it is set (if r.f != nil { return r.f }), every store to that
// field anywhere in the module is either nil or made by Marshal itself (or a
// helper only Marshal reaches) - a decoder or constructor that seeds the cache
// with input bytes makes Marshal return something other than the encoding of
// the fields.
func encodingCaches(p *Prog, r *Report, rule string, only func(typ string) bool) {
	type cacheField struct {
		typ   string
		field string
		m     *ssa.Function
	}
	var caches []cacheField
	for _, f := range p.ModuleFuncs() {
		if f.Name() != "Marshal" || f.Signature.Recv() == nil || f.Parent() != nil || f.Blocks == nil {
			continue
		}
		ff := p.Facts(f)
		for _, rp := range ff.RetPoints(-1) {
			if len(rp.Vals) < 1 {
				continue
			}
			u, ok := rp.Vals[0].(*ssa.UnOp)
			if !ok || u.Op != token.MUL {
				continue
			}
			fa, ok := u.X.(*ssa.FieldAddr)
			if !ok {
				continue
			}
			rpc := rp
			s := p.NewSym(f)
			if isCacheReturn(&rpc) || s.cacheFillValue(rp.Vals[0]) != nil {
				cf := cacheField{typeShort(deref(fa.X.Type())), fieldName(fa.X.Type(), fa.Field), f}
				if only != nil && !only(cf.typ) {
					continue
				}
				dup := false
				for _, c := range caches {
					if c.typ == cf.typ && c.field == cf.field {
						dup = true
					}
				}
				if !dup {
					caches = append(caches, cf)
				}
			}
		}
	}
	for _, c := range caches {
		var bad []string
		n := 0
		for _, f := range p.ModuleFuncs() {
			for _, b := range f.Blocks {
				for _, in := range b.Instrs {
					st, ok := in.(*ssa.Store)
					if !ok {
						continue
					}
					fa, ok := st.Addr.(*ssa.FieldAddr)
					if !ok || typeShort(deref(fa.X.Type())) != c.typ || fieldName(fa.X.Type(), fa.Field) != c.field {
						continue
					}
					n++
					if isNilConst(st.Val) {
						continue
					}
					root := f
					for root.Parent() != nil {
						root = root.Parent()
					}
					if root == c.m || p.onlyVia(root, map[*ssa.Function]bool{c.m: true}) {
						continue
					}
					bad = append(bad, shortName(f)+" at "+p.InstrPos(st))
				}
			}
		}
		r.Check(len(bad) == 0, rule, c.typ+"."+c.field+": the encoding cache is filled only by Marshal", p.Pos(c.m.Pos()), fmt.Sprintf("%d store(s): nil or inside Marshal", n), "the cache is seeded outside Marshal (Marshal will return these bytes instead of the encoding of the fields): "+strings.Join(bad, "; "))
	}
	if len(caches) == 0 {
		if only != nil {
			r.OK(rule, "no selected type caches its encoding", "-", "nothing to seed")
			return
		}
		r.Fail(rule, "encoding caches", "-", "no Marshal method with an encoding cache was found (rule vacuous)")
	}
}

func fieldsRead(fn *ssa.Function) map[string]bool {
	out := map[string]bool{}
	seen := map[*ssa.Function]bool{}
	var visit func(f *ssa.Function)
	visit = func(f *ssa.Function) {
		for _, b := range f.Blocks {
			for _, in := range b.Instrs {
				switch in := in.(type) {
				case *ssa.FieldAddr:
					out[fieldName(in.X.Type(), in.Field)] = true
				case *ssa.Field:
					out[fieldName(in.X.Type(), in.Field)] = true
				}
			}
		}
		for _, a := range f.AnonFuncs {
			visit(a)
		}
		// same-type helpers the method delegates to (encode(), fields(), ...)
		for _, b := range f.Blocks {
			for _, in := range b.Instrs {
				if c, ok := in.(ssa.CallInstruction); ok {
					if g := c.Common().StaticCallee(); g != nil && InModule(g) && g.Blocks != nil && !seen[g] && fnPkgPath(g) == fnPkgPath(fn) {
						seen[g] = true
						visit(g)
					}
				}
			}
		}
	}
	seen[fn] = true
	visit(fn)
	return out
}

// fieldsStoredThroughRecv: names of receiver fields the method (or its
// callees) may store to, from the effect summary's witnesses.
func fieldsStoredThroughRecv(e *Effects, m *ssa.Function) map[string]bool {
	out := map[string]bool{}
	sm := e.Summary(m)
	if sm == nil {
		return out
	}
	for k, w := range sm.All {
		if k.kind == 'G' || k.idx != 0 {
			continue
		}
		if k.kind == 'D' && k.field != "" {
			out[k.field] = true
		}
		switch st := w.Site.(type) {
		case *ssa.Store:
			if fa, ok := st.Addr.(*ssa.FieldAddr); ok {
				out[fieldName(fa.X.Type(), fa.Field)] = true
			}
		case ssa.CallInstruction:
			for _, a := range st.Common().Args {
				if fa, ok := a.(*ssa.FieldAddr); ok {
					out[fieldName(fa.X.Type(), fa.Field)] = true
				}
			}
		}
	}
	return out
}

// ---- generic batch request
func c04BatchRequest(p *Prog, r *Report, R4 string) {
	name := "BatchedTokenRequest"
	el := "call<(tokens.TokenRequestWithDetails).Marshal>(index(param:0.token_requests, *))"
	checkWriter(p, r, R4, layoutSpec{name: name, writer: "(~/tokens/batched.BatchedTokenRequest).Marshal",
		wterm: "cat(varint(conv<uint64>(len(each(" + el + ")))), each(" + el + "))"})
	fn := anchor(p, r, R4, "(*~/tokens/batched.BatchedTokenRequest).Unmarshal")
	if fn == nil {
		return
	}
	r.List("functions", shortName(fn))
	if ne1, ok := p.constInt("~/tokens/type1", "Ne"); ok {
		lengthPrechecks(p, r, R4, name, fn, 1+2+1+ne1, -1) // one type-1 request, the shortest element
	}
	s := p.NewSym(fn)
	// whatever the decoder accepts must re-encode to something it accepts: a
	// length pre-check of more than one byte refuses the canonical encoding of
	// the empty list (the single byte 00), so the empty list may not be
	// accepted from any other encoding either (declared length 0 in a longer
	// buffer, a non-minimal varint 0): the declared length must be non-zero on
	// every accepting path
	{
		maxK := int64(0)
		ff := p.Facts(fn)
		edgeOK := acceptingEdges(ff, fn)
		for _, b := range fn.Blocks {
			ifi, ok := b.Instrs[len(b.Instrs)-1].(*ssa.If)
			if !ok || len(b.Succs) != 2 || ff.dead[b] {
				continue
			}
			ok0, ok1 := edgeOK(b, b.Succs[0]), edgeOK(b, b.Succs[1])
			if ok0 == ok1 {
				continue
			}
			a := normCond(ifi.Cond, !ok0)
			bo, isBo := a.V.(*ssa.BinOp)
			if a.Kind != Truth || !isBo {
				continue
			}
			if _, isLen := lenOfParam(bo.X); !isLen {
				continue
			}
			k, okK := constIntOf(bo.Y)
			if !okK {
				continue
			}
			// rejected when len < k (or len <= k-1)
			switch {
			case bo.Op == token.LSS && a.Pol, bo.Op == token.GEQ && !a.Pol:
			case bo.Op == token.LEQ && a.Pol, bo.Op == token.GTR && !a.Pol:
				k++
			default:
				continue
			}
			if k > maxK {
				maxK = k
			}
		}
		nonZero, nS := true, 0
		for _, rp := range s.ff.RetPoints(verdictIndex(fn)) {
			if rp.Outcome == Fails {
				continue
			}
			nS++
			found := false
			for _, a := range rp.Facts {
				bo, ok := a.V.(*ssa.BinOp)
				if a.Kind != Truth || !ok {
					continue
				}
				xT, yT := s.Of(bo.X), s.Of(bo.Y)
				xt, yt := xT.String(), yT.String()
				isL0 := func(t string) bool {
					return strings.HasPrefix(t, "extract<0>(call<quicwire.ConsumeVarint>(") || strings.HasPrefix(t, "conv<int>(extract<0>(call<quicwire.ConsumeVarint>(")
				}
				// len(data[off : off+l]) is l (the list handed back by a framing helper)
				lenOfList := map[string]bool{}
				for _, t := range []*Term{xT, yT} {
					if t.Op == "len" && len(t.Args) == 1 && t.Args[0].Op == "slice" && len(t.Args[0].Args) == 3 {
						lo, hi := t.Args[0].Args[1], t.Args[0].Args[2]
						if hi.Op == "bin" && hi.Name == "+" && len(hi.Args) == 2 {
							if (hi.Args[0].String() == lo.String() && isL0(hi.Args[1].String())) || (hi.Args[1].String() == lo.String() && isL0(hi.Args[0].String())) {
								lenOfList[t.String()] = true
							}
						}
					}
				}
				isL := func(t string) bool { return isL0(t) || lenOfList[t] }
				switch {
				case isL(xt) && yt == "const:0":
					found = found || (bo.Op == token.NEQ && a.Pol) || (bo.Op == token.EQL && !a.Pol) || (bo.Op == token.GTR && a.Pol) || (bo.Op == token.LEQ && !a.Pol)
				case isL(yt) && xt == "const:0":
					found = found || (bo.Op == token.NEQ && a.Pol) || (bo.Op == token.EQL && !a.Pol) || (bo.Op == token.LSS && a.Pol) || (bo.Op == token.GEQ && !a.Pol)
				case isL(xt) && yt == "const:1":
					found = found || (bo.Op == token.GEQ && a.Pol) || (bo.Op == token.LSS && !a.Pol)
				}
			}
			if !found {
				nonZero = false
			}
		}
		r.Check(maxK <= 1 || (nonZero && nS > 0), R4, name+": what the decoder accepts re-encodes to something it accepts", p.Pos(fn.Pos()),
			fmt.Sprintf("length pre-check %d; declared list length non-zero on every accepting path: %v", maxK, nonZero),
			fmt.Sprintf("the decoder refuses inputs shorter than %d bytes but accepts a declared list length of 0 (e.g. 00 00 00 00): it decodes them to the empty list, whose canonical encoding - the single byte 00 - it then refuses", maxK))
	}
	// tag -> constructed type
	tagOf := map[string]string{}
	var unm []*ssa.Call
	for _, b := range fn.Blocks {
		for _, in := range b.Instrs {
			c, ok := in.(*ssa.Call)
			if !ok || !c.Call.IsInvoke() || c.Call.Method.Name() != "Unmarshal" {
				continue
			}
			unm = append(unm, c)
		}
	}
	if len(unm) != 1 {
		r.Fail(R4, name+": one element decode per iteration", p.Pos(fn.Pos()), fmt.Sprintf("found %d Unmarshal calls", len(unm)))
		return
	}
	u := unm[0]
	// the receiver is a phi over new(T) per switch arm
	recv := u.Call.Value
	var probs []string
	if ph, ok := recv.(*ssa.Phi); ok {
		for i, ed := range ph.Edges {
			mi, ok := ed.(*ssa.MakeInterface)
			if !ok {
				probs = append(probs, "element object is not a fresh decoder object")
				continue
			}
			tn := typeShort(deref(mi.X.Type()))
			for _, a := range s.ff.AtEdge(ph.Block().Preds[i], ph.Block()) {
				if a.Kind == Truth && a.Pol {
					if bo, ok := a.V.(*ssa.BinOp); ok && bo.Op == token.EQL {
						if cst, ok := bo.Y.(*ssa.Const); ok && cst.Value != nil {
							if _, dup := tagOf[cst.Value.ExactString()]; !dup {
								tagOf[cst.Value.ExactString()] = tn
							}
							break
						}
					}
				}
			}
		}
	} else if ex, ok := recv.(*ssa.Extract); ok {
		// the decoder object comes from an in-module selector helper: on each of
		// its accepting returns it is a fresh decoder object chosen under
		// tag == constant, the tag being the value passed by the walker
		c, isCall := ex.Tuple.(*ssa.Call)
		var f *ssa.Function
		if isCall {
			f = c.Call.StaticCallee()
		}
		if f == nil || !InModule(f) || f.Blocks == nil {
			probs = append(probs, "element decoder is not selected per tag")
		} else {
			ch := s.child(f)
			tagParam := ""
			for i, prm := range f.Params {
				if i < len(c.Call.Args) {
					ch.params[prm] = s.Of(c.Call.Args[i])
					if strings.Contains(ch.params[prm].String(), "bigEndian).Uint16>") {
						tagParam = ch.params[prm].String()
					}
				}
			}
			for _, rp := range ch.ff.RetPoints(verdictIndex(f)) {
				if rp.Outcome == Fails {
					continue
				}
				mi, ok := rp.Vals[ex.Index].(*ssa.MakeInterface)
				if !ok {
					probs = append(probs, "the selector returns something that is not a fresh decoder object")
					continue
				}
				tn := typeShort(deref(mi.X.Type()))
				found := false
				for _, a := range rp.Facts {
					if a.Kind == Truth && a.Pol {
						if bo, ok := a.V.(*ssa.BinOp); ok && bo.Op == token.EQL {
							if cst, ok := bo.Y.(*ssa.Const); ok && cst.Value != nil && tagParam != "" && ch.Of(bo.X).String() == tagParam {
								tagOf[cst.Value.ExactString()] = tn
								found = true
								break
							}
						}
					}
				}
				if !found {
					probs = append(probs, "decoder "+tn+" is selected without comparing the element's tag with a constant")
				}
			}
			// the walker uses the object only when the selector accepted
			if !s.factsHaveCallSuccess(u.Block(), c) {
				probs = append(probs, "the element is decoded without the selector having accepted the tag")
			}
		}
	} else if c, ok := recv.(*ssa.Call); ok && c.Call.StaticCallee() != nil && InModule(c.Call.StaticCallee()) && c.Call.StaticCallee().Blocks != nil {
		// selector with a single result: a fresh decoder object per tag, nil for
		// tags the batch does not carry; the walker must test for nil
		f := c.Call.StaticCallee()
		ch := s.child(f)
		s.bindArgs(ch, f, c.Call.Args, c)
		tagParam := ""
		for i, prm := range f.Params {
			if i < len(c.Call.Args) && strings.Contains(ch.params[prm].String(), "bigEndian).Uint16>") {
				tagParam = ch.params[prm].String()
			}
		}
		for _, rp := range ch.ff.RetPoints(-1) {
			if len(rp.Vals) != 1 {
				continue
			}
			if isNilConst(rp.Vals[0]) {
				continue
			}
			mi, ok := rp.Vals[0].(*ssa.MakeInterface)
			if !ok {
				probs = append(probs, "the selector returns something that is neither nil nor a fresh decoder object")
				continue
			}
			tn := typeShort(deref(mi.X.Type()))
			found := false
			for _, a := range rp.Facts {
				if a.Kind == Truth && a.Pol {
					if bo, ok := a.V.(*ssa.BinOp); ok && bo.Op == token.EQL {
						if cst, ok := bo.Y.(*ssa.Const); ok && cst.Value != nil && tagParam != "" && ch.Of(bo.X).String() == tagParam {
							tagOf[cst.Value.ExactString()] = tn
							found = true
							break
						}
					}
				}
			}
			if !found {
				probs = append(probs, "decoder "+tn+" is selected without comparing the element's tag with a constant")
			}
		}
		nonNil := false
		for _, a := range s.ff.At(u.Block()) {
			if a.Kind == IsNil && !a.Pol && a.V == ssa.Value(c) {
				nonNil = true
			}
		}
		if !nonNil {
			probs = append(probs, "the element is decoded without testing the selector's result for nil")
		}
	} else {
		probs = append(probs, "element decoder is not selected per tag")
	}
	if tagOf["1"] != "tokens/type1.BasicPrivateTokenRequest" || tagOf["2"] != "tokens/type2.BasicPublicTokenRequest" || len(tagOf) != 2 {
		probs = append(probs, fmt.Sprintf("tag -> decoder mapping is %v, required 1 -> type1.BasicPrivateTokenRequest, 2 -> type2.BasicPublicTokenRequest and nothing else", tagOf))
	}
	r.Check(len(probs) == 0, R4, name+": tag selects the matching decoder, other tags rejected", p.InstrPos(u), fmt.Sprint(tagOf), strings.Join(probs, "; "))
	// the tag is read from the element's own first two bytes and the element decoded from the same position
	ut := s.callTerm(u)
	elemBytes := arg(ut, 1)
	okPos := elemBytes.Op == "slice" && elemBytes.Args[0].String() == "param:1"
	tagFrom := ""
	for _, site := range sitesIn(fn, func(n string) bool { return strings.HasSuffix(n, "bigEndian).Uint16") }) {
		t := s.callTerm(site)
		a := arg(t, len(t.Args)-1)
		if a.Op == "slice" && a.Args[0].String() == "param:1" {
			tagFrom = a.Args[1].String()
		}
	}
	if tagFrom == "" {
		// the same two bytes combined by hand: uint16(data[i])<<8 | uint16(data[i+1])
		rg := p.rangeFor(fn)
		byteOf := func(v ssa.Value) (ssa.Value, bool) {
			if cv, ok := v.(*ssa.Convert); ok {
				v = cv.X
			}
			ld, ok := v.(*ssa.UnOp)
			if !ok || ld.Op != token.MUL {
				return nil, false
			}
			ia, ok := ld.X.(*ssa.IndexAddr)
			if !ok || s.Of(ia.X).String() != "param:1" {
				return nil, false
			}
			return ia.Index, true
		}
		for _, b := range fn.Blocks {
			for _, in := range b.Instrs {
				bo, ok := in.(*ssa.BinOp)
				if !ok || (bo.Op != token.OR && bo.Op != token.ADD) {
					continue
				}
				for _, pr := range [][2]ssa.Value{{bo.X, bo.Y}, {bo.Y, bo.X}} {
					sh, ok := pr[0].(*ssa.BinOp)
					if !ok || sh.Op != token.SHL {
						continue
					}
					if c, ok := sh.Y.(*ssa.Const); !ok || c.Value == nil || c.Int64() != 8 {
						continue
					}
					hiIdx, ok1 := byteOf(sh.X)
					loIdx, ok2 := byteOf(pr[1])
					if !ok1 || !ok2 {
						continue
					}
					h, okh := rg.lin(hiIdx)
					l, okl := rg.lin(loIdx)
					if okh && okl {
						d := l.minus(h).addConst(-1)
						if len(d.c) == 0 && d.k.Sign() == 0 {
							tagFrom = s.Of(hiIdx).String()
						}
					}
				}
			}
		}
	}
	// the same walk written with a shrinking slice as its cursor:
	//   rest := data[off : off+l]; for len(rest) > 0 { tag(rest[:2]); x.Unmarshal(rest); rest = rest[len(x.Marshal()):] }
	if !okPos {
		if ph, isPhi := u.Common().Args[0].(*ssa.Phi); isPhi {
			okCursor, why := c04SliceCursor(p, s, fn, ph, u, recv)
			r.Check(okCursor, R4, name+": each element is decoded from within the declared list", p.InstrPos(u), "cursor = data[off:off+declared length], shrunk from the front only", why)
			r.Check(okCursor, R4, name+": tag and element are read at the same offset of the input", p.InstrPos(u), "tag = cursor[:2], element decoded from cursor", why)
			r.Check(okCursor, R4, name+": advance by the re-encoded length of the element just decoded", p.InstrPos(u), "cursor = cursor[len(elem.Marshal()):] behind elem.Unmarshal(cursor) == true", why)
			return
		}
	}
	okPos = okPos && tagFrom != "" && elemBytes.Args[1].String() == tagFrom
	// the element is confined to the declared list: decoded from data[i:end] with
	// end = offset + declared length (an open-ended data[i:] lets an element
	// straddle the end of the list)
	if okPos {
		hi := elemBytes.Args[2].String()
		cv := "call<quicwire.ConsumeVarint>(param:1)"
		confined := hi != "const:nil" && strings.Contains(hi, "extract<0>("+cv+")") && strings.Contains(hi, "extract<1>("+cv+")")
		r.Check(confined, R4, name+": each element is decoded from within the declared list", p.InstrPos(u), "data[i:end], end = prefix length + declared length", "the element is decoded from "+clip(elemBytes.String(), 200)+", which is not bounded by the declared end of the list")
	}
	r.Check(okPos, R4, name+": tag and element are read at the same offset of the input", p.InstrPos(u), "data[i:i+2] and data[i:...]", "the tag is read at offset "+tagFrom+" but the element is decoded from "+clip(elemBytes.String(), 200))
	// success of the element decode dominates the append and the advance; advance = len(elem.Marshal())
	adv := false
	for _, b := range fn.Blocks {
		for _, in := range b.Instrs {
			bo, ok := in.(*ssa.BinOp)
			if !ok || bo.Op != token.ADD {
				continue
			}
			t := s.Of(bo).String()
			if strings.Contains(t, "len(call<(tokens.TokenRequestWithDetails).Marshal>(") {
				// operand must be Marshal of the very object just decoded
				if c, ok := bo.Y.(*ssa.Call); ok {
					if mc, ok := c.Call.Args[0].(*ssa.Call); ok && mc.Call.IsInvoke() && mc.Call.Value == recv {
						adv = dominatesValue(u, bo) && s.factsHaveCallSuccess(bo.Block(), u)
					}
				}
			}
		}
	}
	r.Check(adv, R4, name+": advance by the re-encoded length of the element just decoded", p.InstrPos(u), "i += len(elem.Marshal()) behind elem.Unmarshal(...) == true", "the walker does not advance by len(Marshal()) of the element it just decoded successfully")
}

func dominatesValue(a ssa.Instruction, b ssa.Instruction) bool { return dominates(a, b) }

func (s *Sym) factsHaveCallSuccess(b *ssa.BasicBlock, c *ssa.Call) bool {
	for _, a := range s.ff.At(b) {
		if cc, ok, succ := callOfAtom(a); ok && succ && cc == c {
			return true
		}
	}
	return false
}

// ---- batch response list
func c04BatchResponses(p *Prog, r *Report, R4 string, ne1, nk1, nk2 int64) {
	name := "batch response list"
	wfn := anchor(p, r, R4, "(~/tokens/batched.BasicBatchedIssuer).EvaluateBatch")
	if wfn != nil {
		ws := p.NewSym(wfn)
		ws.keepSlots = true // the entries are described in terms of the response slots (C05 decides what a slot holds)
		t := ws.returnTerm()
		got := "<none>"
		if t != nil {
			got = t.String()
		}
		resp := "index(make(len(param:1.token_requests)), *)"
		entry := "each(alt(arm<true:bin<>>(len(" + resp + "), const:0)>(cat(u8(const:1), u16(call<(tokens.TokenRequestWithDetails).Type>(index(param:1.token_requests, *))), " + resp + ")), arm<false:bin<>>(len(" + resp + "), const:0)>(u8(const:0))))"
		want := "tuple(cat(varint(conv<uint64>(len(" + entry + "))), " + entry + "), *)"
		ok := glob(want, got)
		// same index in all positions of an entry
		if ok && t != nil {
			idxs := map[string]bool{}
			t.Walk(func(x *Term) bool {
				if x.Op == "index" && len(x.Args) == 2 {
					idxs[x.Args[1].String()] = true
				}
				return true
			})
			if len(idxs) != 1 {
				ok = false
				got = fmt.Sprintf("entries mix %d different indices: %v", len(idxs), idxs)
			}
		}
		r.Check(ok, R4, name+": encoder layout", p.Pos(wfn.Pos()), "varint(len(X)) || X, X = per request: 1||type||response when the slot is non-empty, else 0", "writer emits "+clip(got, 900)+", required "+clip(want, 600))
	}
	rfn := anchor(p, r, R4, "~/tokens/batched.UnmarshalBatchedTokenResponses")
	if rfn == nil {
		return
	}
	r.List("functions", shortName(rfn))
	s := p.NewSym(rfn)
	// the per-type response length: phi of constants guarded by token_type == K
	lens := map[string]int64{}
	for _, b := range rfn.Blocks {
		for _, in := range b.Instrs {
			ph, ok := in.(*ssa.Phi)
			if !ok {
				continue
			}
			for i, ed := range ph.Edges {
				c, ok := ed.(*ssa.Const)
				if !ok || c.Value == nil || c.Value.Kind() != constant.Int {
					continue
				}
				for _, a := range s.ff.AtEdge(ph.Block().Preds[i], ph.Block()) {
					if a.Kind == Truth && a.Pol {
						if bo, ok := a.V.(*ssa.BinOp); ok && bo.Op == token.EQL {
							if k, ok := bo.Y.(*ssa.Const); ok && k.Value != nil {
								lens[k.Value.ExactString()] = c.Int64()
								break
							}
						}
					}
				}
			}
		}
	}
	// or: the table lives in an in-module selector (length, ok) := f(tokenType)
	// whose accepting returns are constants chosen under tokenType == K, used
	// only when it accepted
	if len(lens) == 0 {
		for _, b := range rfn.Blocks {
			for _, in := range b.Instrs {
				c, ok := in.(*ssa.Call)
				if !ok {
					continue
				}
				f := c.Call.StaticCallee()
				if f == nil || !InModule(f) || f.Blocks == nil || f.Signature.Results().Len() != 2 || verdictIndex(f) != 1 {
					continue
				}
				ch := s.child(f)
				s.bindArgs(ch, f, c.Call.Args, c)
				tmp := map[string]int64{}
				okSel := true
				for _, rp := range ch.ff.RetPoints(1) {
					if rp.Outcome == Fails {
						continue
					}
					k, isK := rp.Vals[0].(*ssa.Const)
					if !isK || k.Value == nil || k.Value.Kind() != constant.Int {
						okSel = false
						continue
					}
					found := false
					for _, a := range rp.Facts {
						if a.Kind == Truth && a.Pol {
							if bo, ok := a.V.(*ssa.BinOp); ok && bo.Op == token.EQL {
								if _, isParam := bo.X.(*ssa.Parameter); isParam {
									if tag, ok := bo.Y.(*ssa.Const); ok && tag.Value != nil {
										tmp[tag.Value.ExactString()] = k.Int64()
										found = true
										break
									}
								}
							}
						}
					}
					if !found {
						okSel = false
					}
				}
				// the length read must be behind ok == true
				used := false
				for _, rd := range sitesIn(rfn, func(n string) bool { return strings.HasSuffix(n, "cryptobyte.String).ReadBytes") }) {
					lv := rd.Common().Args[2]
					for {
						// a widening conversion of the selected length (uint16 -> int) is the same length
						cv, isConv := lv.(*ssa.Convert)
						if !isConv || p.Sizes.Sizeof(cv.Type()) < p.Sizes.Sizeof(cv.X.Type()) {
							break
						}
						if bt, ok := cv.X.Type().Underlying().(*types.Basic); !ok || bt.Info()&types.IsUnsigned == 0 {
							break
						}
						lv = cv.X
					}
					if ex, ok := lv.(*ssa.Extract); ok && ex.Tuple == ssa.Value(c) && s.factsHaveCallSuccess(rd.Block(), c) {
						used = true
					}
				}
				if okSel && used && len(tmp) > 0 {
					lens = tmp
				}
			}
		}
	}
	// shortest well-formed list for a non-empty batch: count prefix + one absent entry
	lengthPrechecks(p, r, R4, name, rfn, 2, -1)
	want := map[string]int64{"1": ne1 + 2*nk1, "2": nk2}
	ok := len(lens) == 2 && lens["1"] == want["1"] && lens["2"] == want["2"]
	r.Check(ok, R4, name+": decoder response length per type", p.Pos(rfn.Pos()), fmt.Sprintf("type 1 -> %d (Ne+2Nk), type 2 -> %d (Nk)", want["1"], want["2"]), fmt.Sprintf("decoder uses lengths %v, required %v (type-1 response = element || DLEQ proof = Ne+2Nk, type-2 = Nk)", lens, want))
	// reads inside the loop: u8 status; (present) u16 type; bytes[len]
	var ops []string
	allChecked := true
	for _, b := range rfn.Blocks {
		for _, in := range b.Instrs {
			c, ok := in.(*ssa.Call)
			if !ok {
				continue
			}
			n := calleeName(c.Common())
			if strings.HasPrefix(n, cbString) {
				m := n[len(cbString):]
				ops = append(ops, readOps[m])
				// checked: its result must feed an If
				used := false
				for _, ref := range *c.Referrers() {
					switch x := ref.(type) {
					case *ssa.If:
						used = true
					case *ssa.UnOp:
						for _, rr := range *x.Referrers() {
							if _, ok := rr.(*ssa.If); ok {
								used = true
							}
						}
					}
				}
				if !used {
					allChecked = false
				}
			}
		}
	}
	r.Check(strings.Join(ops, ",") == "u8,u16,bytes" && allChecked, R4, name+": decoder reads status, type, fixed-length response, all checked", p.Pos(rfn.Pos()), "u8 ; u16 ; bytes[len(type)]", "decoder performs reads "+strings.Join(ops, ",")+fmt.Sprintf(" (all checked: %v), required u8,u16,bytes all checked", allChecked))
	// status values: 0 -> empty entry appended, 1 -> response appended, else error
	st := map[string]bool{}
	for _, b := range rfn.Blocks {
		for _, in := range b.Instrs {
			if bo, ok := in.(*ssa.BinOp); ok && bo.Op == token.EQL {
				if k, ok := bo.Y.(*ssa.Const); ok && k.Value != nil && strings.HasPrefix(s.Of(bo.X).String(), "out<1>(call<"+cbString+"ReadUint8>") {
					st[k.Value.ExactString()] = true
				}
			}
		}
	}
	r.Check(st["0"] && st["1"] && len(st) == 2, R4, name+": status byte 0 = absent, 1 = present, others rejected", p.Pos(rfn.Pos()), "compares with 0 and 1", fmt.Sprintf("status byte compared with %v", st))
}

// c04SliceCursor: the batch walker keeps its position as a slice `ph` (a loop
// header phi): entered as data[off : off+declared], every way round the loop
// replaces it by ph[len(x.Marshal()):] for the element x just decoded from ph
// itself, and the tag is read from ph[:2].
func c04SliceCursor(p *Prog, s *Sym, fn *ssa.Function, ph *ssa.Phi, u ssa.CallInstruction, recv ssa.Value) (bool, string) {
	var loop *Loop
	for _, l := range naturalLoops(fn) {
		if l.Header == ph.Block() {
			loop = l
		}
	}
	if loop == nil {
		return false, "the cursor is not a loop variable"
	}
	cv := "call<quicwire.ConsumeVarint>(param:1)"
	nIn := 0
	for i, e := range ph.Edges {
		if !loop.Blocks[ph.Block().Preds[i]] {
			t := s.Of(e)
			if t.Op != "slice" || len(t.Args) != 3 || t.Args[0].String() != "param:1" {
				return false, "the cursor does not start as a sub-slice of the input: " + clip(t.String(), 160)
			}
			hi := t.Args[2].String()
			if hi == "const:nil" || !strings.Contains(hi, "extract<0>("+cv+")") || !strings.Contains(hi, "extract<1>("+cv+")") {
				return false, "the cursor is not bounded by the declared end of the list: " + clip(t.String(), 200)
			}
			continue
		}
		nIn++
		sl, ok := e.(*ssa.Slice)
		if !ok || sl.X != ssa.Value(ph) || sl.Low == nil || sl.High != nil {
			return false, "the cursor is not advanced by dropping a prefix of itself"
		}
		lc, ok := sl.Low.(*ssa.Call)
		if !ok {
			return false, "the advance is not len(elem.Marshal())"
		}
		if b, isB := lc.Call.Value.(*ssa.Builtin); !isB || b.Name() != "len" {
			return false, "the advance is not len(elem.Marshal())"
		}
		mc, ok := lc.Call.Args[0].(*ssa.Call)
		if !ok || !mc.Call.IsInvoke() || mc.Call.Method.Name() != "Marshal" || mc.Call.Value != recv {
			return false, "the advance is not the re-encoded length of the element just decoded"
		}
		uc, isCall := u.(*ssa.Call)
		if !isCall || !s.factsHaveCallSuccess(sl.Block(), uc) {
			return false, "the advance is not behind elem.Unmarshal(cursor) == true"
		}
	}
	if nIn == 0 {
		return false, "the cursor never advances"
	}
	// the tag: two bytes at the front of the cursor
	tagOK := false
	for _, site := range sitesIn(fn, func(n string) bool { return strings.HasSuffix(n, "bigEndian).Uint16") }) {
		args := site.Common().Args
		sl, ok := args[len(args)-1].(*ssa.Slice)
		if ok && sl.X == ssa.Value(ph) && (sl.Low == nil || isZeroConst(sl.Low)) {
			tagOK = true
		}
		if args[len(args)-1] == ssa.Value(ph) {
			tagOK = true
		}
	}
	if !tagOK {
		return false, "the tag is not read from the front of the cursor"
	}
	return true, ""
}

// returnedIsFilled: the first result at rp is (a load of) the struct the
// reads on that path filled; a decoder that forwards to a module helper is
// judged in the helper.
func returnedIsFilled(p *Prog, s *Sym, rp RetPoint, depth int) bool {
	if len(rp.Vals) == 0 || depth > 3 {
		return false
	}
	if ex, ok := rp.Vals[0].(*ssa.Extract); ok && ex.Index == 0 {
		if c, ok := ex.Tuple.(*ssa.Call); ok {
			if g := c.Call.StaticCallee(); g != nil && g.Blocks != nil && InModule(g) {
				ch := s.child(g)
				s.bindArgs(ch, g, c.Call.Args, c)
				n := 0
				for _, grp := range ch.ff.RetPoints(verdictIndex(g)) {
					if grp.Outcome == Fails {
						continue
					}
					n++
					if !returnedIsFilled(p, ch, grp, depth+1) {
						return false
					}
				}
				return n > 0
			}
		}
		return false
	}
	ld, isLd := rp.Vals[0].(*ssa.UnOp)
	if !isLd {
		return false
	}
	for _, it := range p.ReadSequence(s, &rp) {
		call := it.Call
		if it.Orig != nil {
			return false // filled through a reader helper: not followed here
		}
		if len(call.Common().Args) < 2 {
			continue
		}
		if fa, isFa := call.Common().Args[1].(*ssa.FieldAddr); !isFa || fa.X != ld.X {
			return false
		}
	}
	return true
}
