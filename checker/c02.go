package main

// C02 - a client only ever outputs tokens that verify and belong to its own request.

import (
	"fmt"
	"go/token"
	"sort"
	"strings"

	"golang.org/x/tools/go/ssa"
)

func init() { props["C02"] = c02 }

const (
	nmVOPRFFinalize = "(github.com/cloudflare/circl/oprf.VerifiableClient).Finalize"
	nmRSAFinalize   = "(github.com/cloudflare/circl/blindsign/blindrsa.VerifierState).Finalize"
	nmVerifyPSS     = "crypto/rsa.VerifyPSS"
	nmAEADOpen      = "(crypto/cipher.AEAD).Open"
	tRandReader     = "load(global:crypto/rand.Reader)"
	tPSSOpts        = "ref(struct<crypto/rsa.PSSOptions>(kv<Hash>(const:6), kv<SaltLength>(*)))"
)

func tokenInputTerm(typ, nonce, challenge, keyID string) string {
	return "cat(u16(const:" + typ + "), " + nonce + ", hash<sha256>(" + challenge + "), " + keyID + ")"
}

// retTokenIs: every success return of fn returns (as result 0) the given term.
func retValueIs(p *Prog, r *Report, rule string, fn *ssa.Function, what, pattern string) {
	s := p.NewSym(fn)
	rps := s.ff.RetPoints(verdictIndex(fn))
	n := 0
	var bad []string
	for i := range rps {
		if rps[i].Outcome == Fails {
			continue
		}
		n++
		t := s.Of(rps[i].Vals[0])
		if !glob(pattern, t.String()) {
			bad = append(bad, fmt.Sprintf("return at %s yields %s%s", p.Pos(rps[i].Ret.Pos()), clip(t.String(), 300), firstDiff(pattern, t.String())))
		}
	}
	key := shortName(fn) + " returns " + what
	r.Check(len(bad) == 0 && n > 0, rule, key, p.Pos(fn.Pos()),
		fmt.Sprintf("%d success return(s) yield %s", n, clip(pattern, 200)),
		strings.Join(bad, " | ")+"; required "+clip(pattern, 300))
}

// stateFields checks the request-state struct a constructor returns.
func stateFields(p *Prog, r *Report, rule string, fn *ssa.Function, want map[string]string) {
	s := p.NewSym(fn)
	rps := s.ff.RetPoints(verdictIndex(fn))
	n := 0
	for i := range rps {
		if rps[i].Outcome == Fails {
			continue
		}
		n++
		st := s.Of(rps[i].Vals[0])
		for f, pat := range want {
			key := shortName(fn) + ": state." + f
			if st.Op != "struct" {
				r.Fail(rule, key, p.Pos(rps[i].Ret.Pos()), "returned state is not a struct literal: "+clip(st.String(), 200))
				continue
			}
			v := structField(st, f)
			if v == nil {
				r.Fail(rule, key, p.Pos(rps[i].Ret.Pos()), "field "+f+" is not set by the constructor")
				continue
			}
			r.Check(glob(pat, v.String()), rule, key, p.Pos(rps[i].Ret.Pos()),
				"bound to "+clip(pat, 160), "state."+f+" is "+clip(v.String(), 400)+", required "+clip(pat, 400))
		}
	}
	if n == 0 {
		r.Fail(rule, shortName(fn)+": constructor", p.Pos(fn.Pos()), "constructor has no success return")
	}
}

// onlyConstructedBy: struct type tname (in package pkg) is only assembled /
// its fields only stored inside the allowed functions.
func onlyConstructedBy(p *Prog, r *Report, rule, tname string, allowed map[string]bool) {
	bad := 0
	for _, f := range p.ModuleFuncs() {
		root := f
		for root.Parent() != nil {
			root = root.Parent()
		}
		if allowed[root.RelString(nil)] {
			continue
		}
		for _, b := range f.Blocks {
			for _, in := range b.Instrs {
				st, ok := in.(*ssa.Store)
				if !ok {
					continue
				}
				fa, ok := st.Addr.(*ssa.FieldAddr)
				if ok && typeShort(deref(fa.X.Type())) == tname {
					// assembling a fresh value (a local of this function that has not
					// been published) is construction, not modification of a state
					if al, isLocal := rootAlloc(fa.X); isLocal && al.Parent() == f {
						continue
					}
					bad++
					r.Fail(rule, shortName(f)+" stores "+tname+"."+fieldName(fa.X.Type(), fa.Field), p.InstrPos(st),
						"request-state field written outside the constructors: the key/request the state was created for is no longer pinned")
				}
			}
		}
	}
	if bad == 0 {
		r.OK(rule, tname+" fields written only by constructors", "-", fmt.Sprintf("allowed: %d constructor(s)", len(allowed)))
	}
}

// globalStringConst: package-level string variable with a constant
// initialiser and no other store.
func globalStringConst(p *Prog, name string) (string, bool) {
	for _, pk := range p.SSA.AllPackages() {
		for _, m := range pk.Members {
			g, ok := m.(*ssa.Global)
			if !ok || g.RelString(nil) != name {
				continue
			}
			n, val := 0, ""
			for fn := range p.Funcs {
				if fn.Blocks == nil {
					continue
				}
				for _, b := range fn.Blocks {
					for _, in := range b.Instrs {
						if st, ok := in.(*ssa.Store); ok && st.Addr == g {
							n++
							if c, ok := st.Val.(*ssa.Const); ok && c.Value != nil && fn.Name() == "init" {
								val = c.Value.ExactString()
							} else {
								n += 100
							}
						}
					}
				}
			}
			return val, n == 1
		}
	}
	return "", false
}

func c02(p *Prog, r *Report) {
	r.Explanation = "Guard dominance on SSA with symbolic bindings: every non-failing return of each client finalization is dominated by the success edge of the dependency's verification step (VOPRF Finalize with DLEQ check under the pinned client; blind-RSA Finalize plus rsa.VerifyPSS of the returned token under the pinned key; AEAD Open under a key derived from the request's own HPKE secret and the response nonce), the returned token is decode(state token input ++ finalize output), and the state's pinned fields are bound by the constructors to the key/nonce/challenge/key id the request was created for and written nowhere else. Type 5: element count equals the number of requested tokens and token i is built from input i and output i."
	r.NotDecided = "that DLEQ, RSA-PSS and AES-GCM reject every corrupted or foreign response (soundness of the dependencies); that decode(input ++ output) yields the fields of input (decided by C04's layout agreement)."
	r.Assumptions = append(r.Assumptions, "circl VerifiableClient.Finalize verifies the DLEQ proof against the public key the client was created with; rsa.VerifyPSS, cipher.AEAD.Open are sound")
	r.Trusted = append(r.Trusted, "go/types, go/ssa dominators", "term evaluator of this checker")

	const R1 = "C02.verification-dominates-token"
	const R2 = "C02.token-built-from-own-request"
	const R3 = "C02.state-pinned-by-constructor"
	const R4 = "C02.state-written-only-by-constructors"
	const R5 = "C02.batch-count-and-index"
	r.Rule(R1, "every success return of FinalizeToken(s) is dominated by the success edge of the verification call(s) of its type, bound to the state's pinned client/verifier/key", 7)
	r.Rule(R2, "the token returned is decode(state token input ++ output of the verified finalization)", 4)
	r.Rule(R3, "constructors bind state.client/verifier/verificationKey/tokenInput to the issuer key, nonce, SHA-256(challenge) and key id they were called with", 24)
	r.Rule(R4, "request-state fields are written only inside the constructors", 4)
	r.Rule(R5, "type 5: numElements == len(tokenInputs) dominates success; token i = decode(tokenInputs[i] ++ outputs[i]) with the same i", 2)

	c02Body(p, r, R1, R2, R3, R4, R5)

	// R7: every bit of a response is bound. A dependency decoder that ignores
	// bits of its input (found by bit-provenance analysis of the dependency's
	// own code, not by a list) lets a corrupted response through unless the
	// caller accepts the canonical encoding only.
	const R7 = "C02.response-decoded-canonically"
	r.Rule(R7, "each DLEQ proof decoded from a response: the scalar decoder of the group in use ignores no input bit (bit-provenance analysis of the dependency), or every success return is dominated by bytes.Equal(proof.MarshalBinary(), the bytes decoded)", 2)
	for _, name := range []string{
		"(~/tokens/type1.BasicPrivateTokenRequestState).FinalizeToken",
		"(~/tokens/type5.BatchedPrivateTokenRequestState).FinalizeTokens",
	} {
		fn := anchor(p, r, R7, name)
		if fn == nil {
			continue
		}
		s := p.NewSym(fn)
		dsites := p.deepSites(s, func(n string) bool { return strings.HasSuffix(n, "zk/dleq.Proof).UnmarshalBinary") })
		if len(dsites) == 0 {
			r.Fail(R7, shortName(fn)+": proof decoding site", p.Pos(fn.Pos()), "no call of (*dleq.Proof).UnmarshalBinary found: the rule no longer sees how the proof is decoded")
			continue
		}
		for _, ds := range dsites {
			site := ds.Site
			ct := ds.S.callTerm(site)
			gt := arg(ct, 1).String()
			key := shortName(fn) + ": proof decoded canonically"
			if !strings.HasPrefix(gt, "load(global:") {
				r.Fail(R7, key, p.InstrPos(site), "the group handed to the proof decoder is "+clip(gt, 120)+", not a package-level group constant: undecided")
				continue
			}
			global := strings.TrimSuffix(strings.TrimPrefix(gt, "load(global:"), ")")
			dec, why := p.groupScalarDecoder(global)
			if dec == nil {
				r.Fail(R7, key, p.InstrPos(site), "cannot resolve the scalar decoder of "+global+": "+why)
				continue
			}
			culprit, dropped, explored := p.bitDroppingDecoder(dec)
			if culprit == nil {
				r.OK(R7, key, p.InstrPos(site), fmt.Sprintf("scalar decoder %s: %d dependency functions explored, none ignores a bit of its input", shortName(dec), explored))
				continue
			}
			// the canonical check: bytes.Equal(proof.MarshalBinary(), enc) == true on every success return
			encT := arg(ct, 2).String()
			covered, nS := true, 0
			for _, rp := range s.ff.RetPoints(verdictIndex(fn)) {
				if rp.Outcome == Fails {
					continue
				}
				nS++
				found := false
				for _, a := range p.expandFacts(s, rp.Facts, 0) {
					c, ok, succ := callOfAtom(a.Atom)
					if !ok || !succ || !wholeValueEquality[calleeName(c.Common())] {
						continue
					}
					isReenc := func(v ssa.Value) bool {
						ex, ok := v.(*ssa.Extract)
						if !ok || ex.Index != 0 {
							return false
						}
						mc, ok := ex.Tuple.(*ssa.Call)
						if !ok || !strings.HasSuffix(calleeName(mc.Common()), "zk/dleq.Proof).MarshalBinary") || len(mc.Call.Args) == 0 {
							return false
						}
						return mc.Call.Args[0] == site.Common().Args[0] && dominates(site, mc)
					}
					a0, a1 := c.Common().Args[0], c.Common().Args[1]
					if (isReenc(a0) && a.S.Of(a1).String() == encT) || (isReenc(a1) && a.S.Of(a0).String() == encT) {
						found = true
					}
				}
				if !found {
					covered = false
				}
			}
			var bitsS []string
			for _, d := range dropped {
				bitsS = append(bitsS, fmt.Sprintf("%d.%d", d/8, d%8))
			}
			if covered && nS > 0 {
				r.OK(R7, key, p.InstrPos(site), fmt.Sprintf("%s ignores input bits (byte.bit) %s, and every success return is dominated by bytes.Equal(proof.MarshalBinary(), encoding)", shortName(culprit), strings.Join(bitsS, " ")))
			} else {
				r.Fail(R7, key, p.InstrPos(site), fmt.Sprintf("the scalar decoder reached from %s ignores bits of its input: %s never looks at (byte.bit) %s of each scalar, and no success return is dominated by a comparison of proof.MarshalBinary() with the bytes decoded - a response with those bits flipped is accepted", shortName(dec), shortName(culprit), strings.Join(bitsS, " ")))
			}
		}
	}

	// R8: a batch of evaluated elements is accepted on the strength of ONE
	// batched DLEQ proof. That is sound only if the batching weights bind the
	// whole batch, or the batch is too small for a k-list attack.
	const R8 = "C02.batched-proof-binds-the-batch"
	r.Rule(R8, "type 5: the dependency's per-element batching weights depend on the whole batch (over-approximate dependence slice of the HashToScalar input in the composites computation), or FinalizeTokens bounds the batch to at most 2 elements", 1)
	if fn := anchor(p, r, R8, "(~/tokens/type5.BatchedPrivateTokenRequestState).FinalizeTokens"); fn != nil {
		cc := p.Func("(github.com/cloudflare/circl/zk/dleq.Params).computeComposites")
		key := shortName(fn) + " | batched DLEQ weights | unbounded batch"
		if cc == nil {
			r.Fail(R8, key, p.Pos(fn.Pos()), "unresolved anchor: (circl/zk/dleq.Params).computeComposites not found - the rule no longer sees how the batching weights are derived")
		} else {
			indep, detail := weightsIndependentPerElement(p, cc)
			switch {
			case !indep:
				r.OK(R8, key, p.Pos(cc.Pos()), "weights bind the batch, or undecided in the safe direction: "+detail)
			case batchBounded(p, fn, 2):
				r.OK(R8, key, p.Pos(fn.Pos()), "weights are independent per element, but the batch is bounded to at most 2 elements")
			default:
				r.Fail(R8, key, p.Pos(fn.Pos()), "the batching weights of the DLEQ proof are independent per element ("+detail+") and FinalizeTokens accepts batches of any size: an issuer can choose, slot by slot, evaluated elements with error terms whose weighted sum cancels (a k-list problem: about 2^31 hash evaluations for 8192 elements) - the proof verifies and the client returns tokens none of which verifies")
			}
		}
	}

	// R6: a request state answers every response the same way: finalization
	// may not write memory reached through the state (a second response for the
	// same request - after a rejected one, or a replay - would otherwise be
	// judged against changed inputs)
	const R6 = "C02.finalization-leaves-the-state-intact"
	r.Rule(R6, "FinalizeToken(s): no instruction of this module may write memory of or reachable from the request state, appends behind len excepted (mod/ref summaries over the call graph)", 4)
	e := p.Effects()
	for _, name := range []string{
		"(~/tokens/type1.BasicPrivateTokenRequestState).FinalizeToken",
		"(~/tokens/type2.BasicPublicTokenRequestState).FinalizeToken",
		"(~/tokens/type3.RateLimitedTokenRequestState).FinalizeToken",
		"(~/tokens/type5.BatchedPrivateTokenRequestState).FinalizeTokens",
	} {
		fn := anchor(p, r, R6, name)
		if fn == nil {
			continue
		}
		sm := e.Summary(fn)
		var bad []string
		for k, w := range sm.All {
			if k.kind == 'G' || k.idx != 0 {
				continue
			}
			if k.siteFn == nil || !InModule(k.siteFn) {
				continue // inside a dependency (circl's value-preserving normalisations are C17's known finding)
			}
			if k.op == "builtin.append" {
				continue // append writes behind len: the state's visible content is unchanged (C16 judges aliasing)
			}
			bad = append(bad, e.describe(w))
		}
		sort.Strings(bad)
		r.Check(len(bad) == 0, R6, shortName(fn)+": the request state is not written", p.Pos(fn.Pos()), "no write through the receiver", "finalization may write the request state: "+strings.Join(bad, "; ")+" - a later response for the same request is then checked against changed inputs")
	}
}

// c02Body: the per-type checks, parameterised by rule names so that C01 can
// reuse the construction-binding and token-building parts.
func c02Body(p *Prog, r *Report, R1, R2, R3, R4, R5 string) {
	// ---------- type 1
	if fn := anchor(p, r, R1, "(~/tokens/type1.BasicPrivateTokenRequestState).FinalizeToken"); fn != nil {
		r.List("functions", shortName(fn))
		fin := "call<" + nmVOPRFFinalize + ">(param:0.client, param:0.verifier, *)"
		p.RequireOnSuccess(r, R1, fn, CallReq{Desc: "VerifiableClient.Finalize(state.client, state.verifier, evaluation) ok", Callee: nmVOPRFFinalize,
			Check: func(t *Term) string {
				return firstNonEmpty(want("client", arg(t, 0), "param:0.client"), want("finalize data", arg(t, 1), "param:0.verifier"))
			}})
		tok := "call<tokens/type1.UnmarshalPrivateToken>(cat(param:0.tokenInput, index(extract<0>(" + fin + "), const:0)))"
		p.RequireOnSuccess(r, R2, fn, CallReq{Desc: "UnmarshalPrivateToken(state.tokenInput ++ outputs[0]) ok", Callee: "tokens/type1.UnmarshalPrivateToken",
			Check: func(t *Term) string { return want("token bytes", t, tok) }})
		retValueIs(p, r, R2, fn, "the decoded token", "extract<0>("+tok+")")
	}
	ti1 := tokenInputTerm("1", "param:2", "param:1", "param:3")
	cl1 := "call<github.com/cloudflare/circl/oprf.NewVerifiableClient>(load(global:github.com/cloudflare/circl/oprf.SuiteP384), param:4)"
	if fn := anchor(p, r, R3, "(~/tokens/type1.BasicPrivateClient).CreateTokenRequest"); fn != nil {
		stateFields(p, r, R3, fn, map[string]string{
			"client": cl1, "verificationKey": "param:4", "tokenInput": ti1,
			"verifier": "extract<0>(call<(github.com/cloudflare/circl/oprf.client).Blind>(" + cl1 + ".client, list(" + ti1 + ")))",
		})
	}
	if fn := anchor(p, r, R3, "(~/tokens/type1.BasicPrivateClient).CreateTokenRequestWithBlind"); fn != nil {
		stateFields(p, r, R3, fn, map[string]string{
			"client": cl1, "verificationKey": "param:4", "tokenInput": ti1,
			"verifier": "extract<0>(call<(github.com/cloudflare/circl/oprf.client).DeterministicBlind>(" + cl1 + ".client, list(" + ti1 + "), list(*)))",
		})
	}
	onlyConstructedBy(p, r, R4, "tokens/type1.BasicPrivateTokenRequestState", map[string]bool{
		"(github.com/cloudflare/pat-go/tokens/type1.BasicPrivateClient).CreateTokenRequest":          true,
		"(github.com/cloudflare/pat-go/tokens/type1.BasicPrivateClient).CreateTokenRequestWithBlind": true,
	})

	// ---------- type 2 and type 3 share the RSA part
	rsaPart := func(fn *ssa.Function, pkg, blindSig string) {
		fin := "call<" + nmRSAFinalize + ">(param:0.verifier, " + blindSig + ")"
		p.RequireOnSuccess(r, R1, fn, CallReq{Desc: "VerifierState.Finalize(state.verifier, blind signature) ok", Callee: nmRSAFinalize,
			Check: func(t *Term) string { return want("finalize call", t, fin) }})
		tokCall := "call<tokens/" + pkg + ".UnmarshalToken>(cat(param:0.tokenInput, extract<0>(" + fin + ")))"
		T := "extract<0>(" + tokCall + ")"
		p.RequireOnSuccess(r, R2, fn, CallReq{Desc: "UnmarshalToken(state.tokenInput ++ signature) ok", Callee: "tokens/" + pkg + ".UnmarshalToken",
			Check: func(t *Term) string { return want("token bytes", t, tokCall) }})
		p.RequireOnSuccess(r, R1, fn, CallReq{Desc: "rsa.VerifyPSS(state.verificationKey, SHA-384, H(token input), token.Authenticator, {SHA-384, 48}) ok", Callee: nmVerifyPSS,
			Check: func(t *Term) string {
				why := firstNonEmpty(
					want("public key", arg(t, 0), "param:0.verificationKey"),
					want("hash", arg(t, 1), "const:6"),
					want("digest", arg(t, 2), "hash<sha384>("+authInput(T)+")"),
					want("signature", arg(t, 3), T+".Authenticator"),
					want("options", arg(t, 4), tPSSOpts),
				)
				if why != "" {
					return why
				}
				sl := arg(t, 4).String()
				if !strings.Contains(sl, "kv<SaltLength>(call<(crypto.Hash).Size>(const:6))") && !strings.Contains(sl, "kv<SaltLength>(const:48)") {
					return "PSS salt length is not SHA-384's size (48): " + sl
				}
				return ""
			}})
		retValueIs(p, r, R2, fn, "the decoded and verified token", T)
	}
	if fn := anchor(p, r, R1, "(~/tokens/type2.BasicPublicTokenRequestState).FinalizeToken"); fn != nil {
		r.List("functions", shortName(fn))
		rsaPart(fn, "type2", "param:1")
	}
	ti2 := tokenInputTerm("2", "param:2", "param:1", "param:3")
	ver2 := "call<github.com/cloudflare/circl/blindsign/blindrsa.NewVerifier>(param:4, const:6)"
	if fn := anchor(p, r, R3, "(~/tokens/type2.BasicPublicClient).CreateTokenRequest"); fn != nil {
		stateFields(p, r, R3, fn, map[string]string{
			"verificationKey": "param:4", "tokenInput": ti2,
			"verifier": "extract<1>(call<(github.com/cloudflare/circl/blindsign/blindrsa.Verifier).Blind>(" + ver2 + ", " + tRandReader + ", " + ti2 + "))",
		})
	}
	if fn := anchor(p, r, R3, "(~/tokens/type2.BasicPublicClient).CreateTokenRequestWithBlind"); fn != nil {
		stateFields(p, r, R3, fn, map[string]string{
			"verificationKey": "param:4", "tokenInput": ti2,
			"verifier": "extract<1>(call<(github.com/cloudflare/circl/blindsign/blindrsa.Verifier).FixedBlind>(" + ver2 + ", " + ti2 + ", param:5, param:6))",
		})
	}
	onlyConstructedBy(p, r, R4, "tokens/type2.BasicPublicTokenRequestState", map[string]bool{
		"(github.com/cloudflare/pat-go/tokens/type2.BasicPublicClient).CreateTokenRequest":          true,
		"(github.com/cloudflare/pat-go/tokens/type2.BasicPublicClient).CreateTokenRequestWithBlind": true,
	})

	// ---------- type 3
	if fn := anchor(p, r, R1, "(~/tokens/type3.RateLimitedTokenRequestState).FinalizeToken"); fn != nil {
		r.List("functions", shortName(fn))
		suite := "param:0.nameKey.suite"
		ks := "call<(github.com/cisco/go-hpke.AEADScheme).KeySize>(" + suite + ".AEAD)"
		ns := "call<(github.com/cisco/go-hpke.AEADScheme).NonceSize>(" + suite + ".AEAD)"
		n := "call<builtin.max>(" + ks + ", " + ns + ")"
		salt := "cat(param:0.encapEnc, slice(param:1, const:0, " + n + "))"
		prk := "call<(github.com/cisco/go-hpke.KDFScheme).Extract>(" + suite + ".KDF, " + salt + ", param:0.encapSecret)"
		key := "call<(github.com/cisco/go-hpke.KDFScheme).Expand>(" + suite + ".KDF, " + prk + ", load(global:github.com/cloudflare/pat-go/tokens/type3.labelResponseKey), " + ks + ")"
		nonce := "call<(github.com/cisco/go-hpke.KDFScheme).Expand>(" + suite + ".KDF, " + prk + ", load(global:github.com/cloudflare/pat-go/tokens/type3.labelResponseNonce), " + ns + ")"
		aead := "extract<0>(call<(github.com/cisco/go-hpke.AEADScheme).New>(" + suite + ".AEAD, " + key + "))"
		open := "call<" + nmAEADOpen + ">(" + aead + ", const:nil, " + nonce + ", slice(param:1, " + n + ", const:nil), const:nil)"
		p.RequireOnSuccess(r, R1, fn, CallReq{Desc: "AEAD.Open(key,nonce derived from Extract(enc||response nonce, request's HPKE secret), ciphertext) ok", Callee: nmAEADOpen,
			Check: func(t *Term) string { return want("open call", t, open) }})
		rsaPart(fn, "type3", "extract<0>("+open+")")
		for g, v := range map[string]string{"labelResponseKey": `"key"`, "labelResponseNonce": `"nonce"`} {
			val, ok := globalStringConst(p, "github.com/cloudflare/pat-go/tokens/type3."+g)
			r.Check(ok && val == v, R1, "type3."+g+" is the constant "+v, "-", "initialised once to "+val, fmt.Sprintf("label variable is %q (single constant initialiser: %v); issuer and client derive response keys from it", val, ok))
		}
	}
	if fn := anchor(p, r, R3, "(~/tokens/type3.RateLimitedClient).CreateTokenRequest"); fn != nil {
		ti3 := tokenInputTerm("3", "param:2", "param:1", "param:4")
		ver3 := "call<github.com/cloudflare/circl/blindsign/blindrsa.NewVerifier>(param:5, const:6)"
		stateFields(p, r, R3, fn, map[string]string{
			"verificationKey": "param:5", "tokenInput": ti3, "nameKey": "param:7",
			"verifier":    "extract<1>(call<(github.com/cloudflare/circl/blindsign/blindrsa.Verifier).Blind>(" + ver3 + ", " + tRandReader + ", " + ti3 + "))",
			"encapSecret": "call<(*github.com/cisco/go-hpke.context).Export>(*extract<1>(call<github.com/cisco/go-hpke.SetupBaseS>(param:7.suite, " + tRandReader + ", param:7.publicKey, lit:\"TokenRequest\"))*, lit:\"TokenResponse\", call<(github.com/cisco/go-hpke.AEADScheme).KeySize>(param:7.suite.AEAD))",
			"encapEnc":    "slice(cat(extract<0>(call<github.com/cisco/go-hpke.SetupBaseS>(param:7.suite, " + tRandReader + ", param:7.publicKey, lit:\"TokenRequest\")), *), const:0, call<(github.com/cisco/go-hpke.KEMScheme).PublicKeySize>(param:7.suite.KEM))",
		})
	}
	onlyConstructedBy(p, r, R4, "tokens/type3.RateLimitedTokenRequestState", map[string]bool{
		"(github.com/cloudflare/pat-go/tokens/type3.RateLimitedClient).CreateTokenRequest": true,
	})

	// ---------- type 5
	if fn := anchor(p, r, R1, "(~/tokens/type5.BatchedPrivateTokenRequestState).FinalizeTokens"); fn != nil {
		r.List("functions", shortName(fn))
		var finTerm *Term
		p.RequireOnSuccess(r, R1, fn, CallReq{Desc: "VerifiableClient.Finalize(state.client, state.verifier, evaluation) ok", Callee: nmVOPRFFinalize,
			Check: func(t *Term) string {
				why := firstNonEmpty(want("client", arg(t, 0), "param:0.client"), want("finalize data", arg(t, 1), "param:0.verifier"))
				if why == "" {
					finTerm = t
				}
				return why
			}})
		if finTerm != nil {
			c05count(p, r, R5, fn, finTerm)
		}
	}
	cl5 := "call<github.com/cloudflare/circl/oprf.NewVerifiableClient>(load(global:github.com/cloudflare/circl/oprf.SuiteRistretto255), param:4)"
	for _, c := range []struct{ name, blind string }{
		{"(~/tokens/type5.BatchedPrivateClient).CreateTokenRequest", "extract<0>(call<(github.com/cloudflare/circl/oprf.client).Blind>(" + cl5 + ".client, make(len(param:2))))"},
		{"(~/tokens/type5.BatchedPrivateClient).CreateTokenRequestWithBlinds", "extract<0>(call<(github.com/cloudflare/circl/oprf.client).DeterministicBlind>(" + cl5 + ".client, make(len(param:2)), make(len(param:2))))"},
	} {
		fn := anchor(p, r, R3, c.name)
		if fn == nil {
			continue
		}
		stateFields(p, r, R3, fn, map[string]string{
			"client": cl5, "verificationKey": "param:4", "tokenInputs": "make(len(param:2))", "verifier": c.blind,
		})
		// element i of tokenInputs is a copy of the token input built from nonce i
		s := p.NewSym(fn)
		found := false
		var seen []string
		for _, site := range sitesIn(fn, func(n string) bool { return n == "builtin.copy" }) {
			cc := site.Common()
			dst, src := s.Of(cc.Args[0]), s.Of(cc.Args[1])
			if dst.Op != "index" || dst.Args[0].String() != "make(len(param:2))" {
				continue
			}
			i := dst.Args[1].String()
			wantSrc := tokenInputTerm("5", "index(param:2, "+i+")", "param:1", "param:3")
			seen = append(seen, clip(src.String(), 200))
			// the destination element must itself be a fresh buffer of the source's length
			if src.String() == wantSrc && elementIsFreshCopyTarget(s, fn, cc.Args[0], cc.Args[1]) {
				found = true
			}
		}
		// or: tokenInputs[i] = <fresh copy of the token input> (e.g. through a helper)
		for _, b := range fn.Blocks {
			for _, in := range b.Instrs {
				st, ok := in.(*ssa.Store)
				if !ok {
					continue
				}
				ia, ok := st.Addr.(*ssa.IndexAddr)
				if !ok || s.Of(ia.X).String() != "make(len(param:2))" {
					continue
				}
				i := s.Of(ia.Index).String()
				w := tokenInputTerm("5", "index(param:2, "+i+")", "param:1", "param:3")
				v := s.Of(st.Val).String()
				seen = append(seen, clip(v, 200))
				if v == "make(len("+w+"), copy("+w+"))" || (v == w && wholeTail(p, st.Val, 0, map[ssa.Value]bool{})) {
					found = true
				}
			}
		}
		r.Check(found, R3, shortName(fn)+": tokenInputs[i] = copy of token input(nonce[i])", p.Pos(fn.Pos()),
			"tokenInputs[i] is a fresh copy of type||nonce[i]||SHA-256(challenge)||key id with the same i",
			"no copy into tokenInputs[i] of type||nonce[i]||SHA-256(challenge)||key id with matching index found; copies seen: "+strings.Join(seen, " ; "))
	}
	onlyConstructedBy(p, r, R4, "tokens/type5.BatchedPrivateTokenRequestState", map[string]bool{
		"(github.com/cloudflare/pat-go/tokens/type5.BatchedPrivateClient).CreateTokenRequest":           true,
		"(github.com/cloudflare/pat-go/tokens/type5.BatchedPrivateClient).CreateTokenRequestWithBlinds": true,
	})
}

// elementIsFreshCopyTarget: before copy(x[i], src), x[i] was assigned
// make([]byte, len(src)) with the same x, i and src.
func elementIsFreshCopyTarget(s *Sym, fn *ssa.Function, dst, src ssa.Value) bool {
	d := s.Of(dst)
	for _, b := range fn.Blocks {
		for _, in := range b.Instrs {
			st, ok := in.(*ssa.Store)
			if !ok {
				continue
			}
			ia, ok := st.Addr.(*ssa.IndexAddr)
			if !ok {
				continue
			}
			at := T("index", "", s.Of(ia.X), s.Of(ia.Index))
			if at.String() != d.String() {
				continue
			}
			ms, ok := st.Val.(*ssa.MakeSlice)
			if !ok {
				continue
			}
			if s.Of(ms.Len).String() == "len("+s.Of(src).String()+")" {
				return true
			}
		}
	}
	return false
}

// c05count: type 5 element count and per-index pairing.
func c05count(p *Prog, r *Report, rule string, fn *ssa.Function, fin *Term) {
	s := p.NewSym(fn)
	// number of decoded elements = length of evaluation.Elements
	eval := arg(fin, 2)
	var elems *Term
	if eval.Op == "ref" && eval.Args[0].Op == "struct" {
		elems = structField(eval.Args[0], "Elements")
	}
	key := shortName(fn) + ": element count == len(state.tokenInputs)"
	if elems == nil || elems.Op != "make" {
		r.Undecided(rule, key, p.Pos(fn.Pos()), "cannot see how evaluation.Elements is allocated: "+clip(eval.String(), 200))
		return
	}
	num := elems.Args[0].String()
	rps := s.ff.RetPoints(verdictIndex(fn))
	var bad []string
	nS := 0
	for i := range rps {
		rp := &rps[i]
		if rp.Outcome == Fails {
			continue
		}
		nS++
		ok := false
		for _, a := range p.expandFacts(s, rp.Facts, 0) {
			if a.Kind != Truth {
				continue
			}
			b, isB := a.V.(*ssa.BinOp)
			if !isB {
				continue
			}
			eq := (b.Op == token.EQL && a.Pol) || (b.Op == token.NEQ && !a.Pol)
			if !eq {
				continue
			}
			x, y := a.S.Of(b.X).String(), a.S.Of(b.Y).String()
			if (x == num && y == "len(param:0.tokenInputs)") || (y == num && x == "len(param:0.tokenInputs)") {
				ok = true
			}
		}
		if !ok {
			bad = append(bad, "success return at "+p.Pos(rp.Ret.Pos())+" is reachable without numElements == len(tokenInputs)")
		}
	}
	r.Check(len(bad) == 0 && nS > 0, rule, key, p.Pos(fn.Pos()), "count of decoded elements "+clip(num, 120)+" equals len(state.tokenInputs) on every success path", strings.Join(bad, " | "))

	// per-index pairing
	key2 := shortName(fn) + ": token[i] = decode(tokenInputs[i] ++ outputs[i])"
	found := 0
	var probs []string
	for _, b := range fn.Blocks {
		for _, in := range b.Instrs {
			st, ok := in.(*ssa.Store)
			if !ok {
				continue
			}
			ia, ok := st.Addr.(*ssa.IndexAddr)
			if !ok || !strings.HasSuffix(typeShort(ia.X.Type()), "[]tokens.Token") {
				continue
			}
			i := s.Of(ia.Index).String()
			wantV := "extract<0>(call<tokens/type5.UnmarshalBatchedPrivateToken>(cat(index(param:0.tokenInputs, " + i + "), index(extract<0>(" + fin.String() + "), " + i + "))))"
			v := s.Of(st.Val).String()
			if v == wantV {
				found++
			} else {
				probs = append(probs, "store at "+p.InstrPos(st)+" puts "+clip(v, 300)+" into tokens["+clip(i, 60)+"]")
			}
		}
	}
	r.Check(found > 0 && len(probs) == 0, rule, key2, p.Pos(fn.Pos()), "token i is decoded from input i and output i of the verified finalization",
		"tokens are not built index-for-index from state.tokenInputs[i] and outputs[i]: "+strings.Join(probs, " | "))
	// the returned slice is the one filled by those stores, of length numElements
	retValueIs(p, r, rule, fn, "the tokens slice of length numElements", "make("+num+")")
}
