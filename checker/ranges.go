package main

// E4: range prover. Obligations (slice bounds, index bounds, make sizes,
// narrowing conversions, division) are linear inequalities over symbolic atoms
// (SSA values named by their Sym term, lengths of byte strings, pure getter
// calls). Facts come from dominating branch edges, SSA definitions, loop
// induction and a reviewed table of callee post-conditions. Entailment is
// decided by Fourier-Motzkin elimination over the rationals (sound for
// proving: rational infeasibility implies integer infeasibility).

import (
	"fmt"
	"go/constant"
	"go/token"
	"go/types"
	"math/big"
	"sort"
	"strconv"
	"strings"

	"golang.org/x/tools/go/ssa"
)

// Lin is a linear form  sum coef[a]*a + k  over atoms named by strings.
type Lin struct {
	c map[string]*big.Rat
	k *big.Rat
}

func newLin() Lin { return Lin{c: map[string]*big.Rat{}, k: new(big.Rat)} }

func linConst(v int64) Lin {
	l := newLin()
	l.k.SetInt64(v)
	return l
}

func linAtom(a string) Lin {
	l := newLin()
	l.c[a] = big.NewRat(1, 1)
	return l
}

func (l Lin) clone() Lin {
	n := newLin()
	n.k.Set(l.k)
	for a, v := range l.c {
		n.c[a] = new(big.Rat).Set(v)
	}
	return n
}

func (l Lin) add(o Lin, f *big.Rat) Lin {
	n := l.clone()
	n.k.Add(n.k, new(big.Rat).Mul(o.k, f))
	for a, v := range o.c {
		if n.c[a] == nil {
			n.c[a] = new(big.Rat)
		}
		n.c[a].Add(n.c[a], new(big.Rat).Mul(v, f))
		if n.c[a].Sign() == 0 {
			delete(n.c, a)
		}
	}
	return n
}

func (l Lin) plus(o Lin) Lin  { return l.add(o, big.NewRat(1, 1)) }
func (l Lin) minus(o Lin) Lin { return l.add(o, big.NewRat(-1, 1)) }
func (l Lin) scale(f int64) Lin {
	return newLin().add(l, big.NewRat(f, 1))
}
func (l Lin) addConst(v int64) Lin { return l.plus(linConst(v)) }

func (l Lin) isConst() bool { return len(l.c) == 0 }

func (l Lin) String() string {
	var as []string
	for a := range l.c {
		as = append(as, a)
	}
	sort.Strings(as)
	var parts []string
	for _, a := range as {
		parts = append(parts, l.c[a].RatString()+"*"+a)
	}
	parts = append(parts, l.k.RatString())
	return strings.Join(parts, " + ")
}

// Short: String with long atom names clipped (for reports).
func (l Lin) Short() string {
	var as []string
	for a := range l.c {
		as = append(as, a)
	}
	sort.Strings(as)
	var parts []string
	for _, a := range as {
		n := a
		if len(n) > 70 {
			n = n[:32] + "..." + n[len(n)-32:]
		}
		parts = append(parts, l.c[a].RatString()+"*"+n)
	}
	parts = append(parts, l.k.RatString())
	return strings.Join(parts, " + ")
}

// Range is the prover context for one function.
type Range struct {
	p     *Prog
	fn    *ssa.Function
	s     *Sym
	atoms map[string]ssa.Value // atom name -> a representative SSA value
	// axioms that hold everywhere in the function (definitions, type ranges)
	global    []Lin // each >= 0
	seenAx    map[string]bool
	inGuarded map[*ssa.Phi]bool
	loops     []*Loop
	depth     int
	products  []product
}

func (p *Prog) NewRange(fn *ssa.Function) *Range {
	return &Range{p: p, fn: fn, s: p.NewSym(fn), atoms: map[string]ssa.Value{}, seenAx: map[string]bool{}, loops: naturalLoops(fn)}
}

func intBits(t types.Type, intBitsArch int) (bits int, signed bool, ok bool) {
	b, isB := t.Underlying().(*types.Basic)
	if !isB || b.Info()&types.IsInteger == 0 {
		return 0, false, false
	}
	switch b.Kind() {
	case types.Int8:
		return 8, true, true
	case types.Int16:
		return 16, true, true
	case types.Int32:
		return 32, true, true
	case types.Int64:
		return 64, true, true
	case types.Int:
		return intBitsArch, true, true
	case types.Uint8:
		return 8, false, true
	case types.Uint16:
		return 16, false, true
	case types.Uint32:
		return 32, false, true
	case types.Uint64:
		return 64, false, true
	case types.Uint, types.Uintptr:
		return intBitsArch, false, true
	case types.UntypedInt:
		return 64, true, true
	}
	return 0, false, false
}

func pow2(n int) *big.Rat {
	z := new(big.Int).Lsh(big.NewInt(1), uint(n))
	return new(big.Rat).SetInt(z)
}

// atom registers an opaque atom for v and adds its type-range axioms.
func (rg *Range) atom(v ssa.Value) Lin {
	name := rg.s.Of(v).String()
	if _, ok := rg.atoms[name]; !ok {
		rg.atoms[name] = v
		rg.typeAxioms(name, v.Type())
		rg.valueAxioms(name, v)
	}
	return linAtom(name)
}

func (rg *Range) lenAtom(v ssa.Value) Lin {
	name := "len(" + rg.s.Of(v).String() + ")"
	if _, ok := rg.atoms[name]; !ok {
		rg.atoms[name] = v
		rg.axiom(linAtom(name)) // len >= 0
		rg.lenAxioms(name, v)
	}
	return linAtom(name)
}

func (rg *Range) axiom(l Lin) {
	k := l.String()
	if rg.seenAx[k] {
		return
	}
	rg.seenAx[k] = true
	rg.global = append(rg.global, l)
}

func (rg *Range) typeAxioms(name string, t types.Type) {
	bits, signed, ok := intBits(t, rg.p.IntBits)
	if !ok {
		return
	}
	a := linAtom(name)
	if !signed {
		rg.axiom(a) // >= 0
		if bits < 64 {
			up := newLin()
			up.k.Sub(pow2(bits), big.NewRat(1, 1))
			rg.axiom(up.minus(a)) // <= 2^bits-1
		}
	} else if bits < 64 {
		up := newLin()
		up.k.Sub(pow2(bits-1), big.NewRat(1, 1))
		rg.axiom(up.minus(a))
		lo := newLin()
		lo.k.Set(pow2(bits - 1))
		rg.axiom(a.plus(lo))
	}
}

// positiveGetters: pure configuration getters of the dependencies that return
// a positive size (reviewed: group parameters, HPKE suite sizes, curve sizes).
var positiveGetters = []string{
	".CompressedElementLength", ".ScalarLength", ".ElementLength",
	"KEMScheme).PublicKeySize>", "KEMScheme).PrivateKeySize>", "AEADScheme).KeySize>", "AEADScheme).NonceSize>",
	"(crypto.Hash).Size>", ".BitSize",
}

func (rg *Range) valueAxioms(name string, v ssa.Value) {
	for _, g := range positiveGetters {
		if strings.HasSuffix(name, g) || (strings.HasSuffix(g, ">") && strings.Contains(name, g+"(")) {
			rg.axiom(linAtom(name).addConst(-1)) // >= 1
			// sizes are small: bounded by 2^16 (no overflow in products with lengths)
			rg.axiom(linConst(1 << 16).minus(linAtom(name)))
			return
		}
	}
	switch x := v.(type) {
	case *ssa.BinOp:
		a := linAtom(name)
		switch x.Op {
		case token.AND:
			// x & c  in [0, c]
			for _, o := range []ssa.Value{x.X, x.Y} {
				if c, ok := o.(*ssa.Const); ok && c.Value != nil && c.Value.Kind() == constant.Int {
					if cv, exact := constant.Int64Val(c.Value); exact && cv >= 0 {
						rg.axiom(a)
						rg.axiom(linConst(cv).minus(a))
					}
				}
			}
		case token.REM:
			if cv, exact := rg.constVal(x.Y); exact {
				if cv > 0 {
					rg.axiom(linConst(cv - 1).minus(a))
					rg.axiom(a.addConst(cv - 1))
					if xl, ok := rg.lin(x.X); ok && rg.nonneg(xl) {
						rg.axiom(a)
					}
				}
			}
		case token.QUO:
			if cv, exact := rg.constVal(x.Y); exact {
				if cv > 0 {
					if xl, ok := rg.lin(x.X); ok && rg.nonneg(xl) {
						// cv*q <= x < cv*q + cv
						rg.axiom(xl.minus(a.scale(cv)))
						rg.axiom(a.scale(cv).addConst(cv - 1).minus(xl))
						rg.axiom(a)
					}
				}
			} else if yl, ok := rg.lin(x.Y); ok && len(yl.c) == 1 && yl.k.Sign() == 0 {
				// q = x / e with e a positive atom: q >= 0 when x >= 0; (q*e <= x) is used by the product rule
				if xl, ok := rg.lin(x.X); ok && rg.nonneg(xl) && rg.positive(yl) {
					rg.axiom(a)
					rg.axiom(xl.minus(a)) // q <= x since e >= 1
				}
			}
		case token.SHL:
			// c << k with a constant c >= 0 and 0 <= k <= m: c <= value <= c << m
			if c, ok := x.X.(*ssa.Const); ok && c.Value != nil && c.Value.Kind() == constant.Int {
				if cv, exact := constant.Int64Val(c.Value); exact && cv >= 0 && cv < 1<<20 {
					if kl, ok := rg.lin(x.Y); ok && rg.nonneg(kl) {
						for m := int64(0); m <= 16; m++ {
							if rg.entails(nil, linConst(m).minus(kl)) {
								rg.axiom(a.addConst(-cv))
								rg.axiom(linConst(cv << uint(m)).minus(a))
								break
							}
						}
					}
				}
			}
		case token.SHR:
			// an unsigned value of w bits shifted right by k is at most (2^w-1) >> k
			if bits, signed, isInt := intBits(x.X.Type(), rg.p.IntBits); isInt && !signed && bits <= 32 {
				if c, ok := x.Y.(*ssa.Const); ok && c.Value != nil {
					if k, exact := constant.Int64Val(c.Value); exact && k >= 0 && k < int64(bits) {
						rg.axiom(a)
						rg.axiom(linConst(((int64(1) << uint(bits)) - 1) >> uint(k)).minus(a))
					}
				}
			}
			if xl, ok := rg.lin(x.X); ok && rg.nonneg(xl) {
				rg.axiom(a)
				rg.axiom(xl.minus(a))
				if c, ok := x.Y.(*ssa.Const); ok && c.Value != nil {
					if k, exact := constant.Int64Val(c.Value); exact && k > 0 && k < 62 {
						// a <= x / 2^k
						rg.axiom(xl.minus(a.scale(1 << uint(k))))
					}
				}
			}
		}
	case *ssa.Phi:
		rg.phiAxioms(name, x)
	case *ssa.Extract:
		rg.extractAxioms(name, x)
	case *ssa.Call:
		rg.callAxioms(name, x)
	}
}

func (rg *Range) lenAxioms(name string, v ssa.Value) {
	rg.lenAxiomsTerm(name, rg.s.Of(v), v)
}

func (rg *Range) lenAxiomsTerm(name string, t *Term, v ssa.Value) {
	// len of known-width values
	switch x := v.(type) {
	case *ssa.Call:
		n := calleeName(x.Common())
		switch n {
		case "crypto/sha256.Sum256":
		}
		_ = n
	}
	a := linAtom(name)
	eq := func(l Lin) {
		rg.axiom(a.minus(l))
		rg.axiom(l.minus(a))
	}
	// a buffer described by its allocation: its length is the allocation's
	// length term (the same term names the same quantity wherever it occurs)
	if t.Op == "make" && len(t.Args) >= 1 {
		n := t.Args[0]
		if n.Op == "const" {
			if k, err := strconv.ParseInt(n.Name, 10, 64); err == nil {
				eq(linConst(k))
				return
			}
		} else {
			nm := n.String()
			if _, ok := rg.atoms[nm]; !ok {
				rg.atoms[nm] = n.Src
				rg.axiom(linAtom(nm)) // a length that was allocated is >= 0
			}
			eq(linAtom(nm))
			return
		}
	}
	// concatenations: the sum of the parts
	if t.Op == "cat" {
		sum := linConst(0)
		ok := true
		for _, part := range t.Args {
			pl, pok := rg.lenOfTerm(part)
			if !pok {
				ok = false
				break
			}
			sum = sum.plus(pl)
		}
		if ok {
			eq(sum)
			return
		}
	}
	// dependency post-conditions on lengths (reviewed in circl v1.3.7:
	// server.evaluate allocates len(elements) results; client.validate requires
	// len(e.Elements) == len(blinds) == len(inputs) and finalize allocates len(inputs))
	if t.Op == "field" && t.Name == "Elements" && len(t.Args) == 1 && t.Args[0].Op == "extract" && t.Args[0].Name == "0" {
		if c := t.Args[0].Args[0]; c.Op == "call" && strings.HasSuffix(c.Name, "oprf.VerifiableServer).Evaluate") && len(c.Args) == 2 {
			if l, ok := rg.lenOfTermField(c.Args[1], "Elements"); ok {
				eq(l)
			}
		}
	}
	if t.Op == "extract" && t.Name == "0" && len(t.Args) == 1 {
		if c := t.Args[0]; c.Op == "call" && strings.HasSuffix(c.Name, "oprf.VerifiableClient).Finalize") && len(c.Args) == 3 {
			if l, ok := rg.lenOfTermField(c.Args[2], "Elements"); ok {
				eq(l)
			}
		}
	}
	// go-hpke (reviewed): SetupBaseS returns the serialized ephemeral public key,
	// KEM.PublicKeySize() bytes long
	if t.Op == "extract" && t.Name == "0" && len(t.Args) == 1 && t.Args[0].Op == "call" && t.Args[0].Name == "github.com/cisco/go-hpke.SetupBaseS" && len(t.Args[0].Args) == 4 {
		g := "call<(github.com/cisco/go-hpke.KEMScheme).PublicKeySize>(" + t.Args[0].Args[0].String() + ".KEM)"
		if _, ok := rg.atoms[g]; !ok {
			rg.atoms[g] = v
			rg.axiom(linAtom(g).addConst(-1))
			rg.axiom(linConst(1 << 16).minus(linAtom(g)))
		}
		eq(linAtom(g))
	}
	// type invariants of key types (objects are built by their constructors;
	// shorter values are a documented panic, as in crypto/ed25519)
	if nt, ok := v.Type().(*types.Named); ok && nt.Obj().Pkg() != nil && nt.Obj().Pkg().Path() == modPath+"/ed25519" {
		switch nt.Obj().Name() {
		case "PrivateKey":
			eq(linConst(64))
		case "PublicKey":
			eq(linConst(32))
		}
	}
	// interface contract (reviewed): an Issuer's TokenKeyID is a SHA-256 digest of
	// its public key, never empty; registered issuers are configuration, not peer bytes
	if t.Op == "call" && t.Name == "(tokens/batched.Issuer).TokenKeyID" {
		rg.axiom(a.addConst(-1))
	}
	// results of in-module Marshal-like calls: at least the fixed part of the layout
	if c, ok := v.(*ssa.Call); ok {
		if k := rg.minLenOfCall(c); k > 0 {
			rg.axiom(a.addConst(-k))
		}
	}
	switch t.Op {
	case "make":
		if len(t.Args) > 0 && t.Args[0].Src != nil {
			if l, ok := rg.lin(t.Args[0].Src); ok {
				eq(l)
			}
		}
		return
	case "list":
		eq(linConst(int64(len(t.Args))))
		return
	}
	switch t.Op {
	case "hash":
		w := map[string]int64{"sha256": 32, "sha512": 64, "sha384": 48, "crypto/sha512.New384": 48, "crypto/sha512.New": 64, "crypto/sha256.New": 32}
		if k, ok := w[t.Name]; ok {
			rg.axiom(linAtom(name).addConst(-k))
			rg.axiom(linConst(k).minus(linAtom(name)))
		}
	case "make":
		if len(t.Args) > 0 {
			if ms, ok := v.(*ssa.MakeSlice); ok {
				if ll, ok := rg.lin(ms.Len); ok {
					rg.axiom(linAtom(name).minus(ll))
					rg.axiom(ll.minus(linAtom(name)))
				}
			}
		}
	}
}

// nonneg / positive: quick syntactic checks (all coefficients on nonneg atoms).
func (rg *Range) nonneg(l Lin) bool   { return rg.entails(nil, l) }
func (rg *Range) positive(l Lin) bool { return rg.entails(nil, l.addConst(-1)) }

// phiAxioms: induction variables. i = phi(init, i + k, ...) with every step
// k >= 0 gives i >= init; with every k <= 0 gives i <= init.
func (rg *Range) phiAxioms(name string, ph *ssa.Phi) {
	var inits []ssa.Value
	up, down := true, true
	steps := 0
	for _, e := range ph.Edges {
		if bo, ok := e.(*ssa.BinOp); ok && (bo.Op == token.ADD || bo.Op == token.SUB) && (bo.X == ssa.Value(ph)) {
			steps++
			yl, ok := rg.lin(bo.Y)
			if !ok {
				up, down = false, false
				continue
			}
			if bo.Op == token.SUB {
				yl = yl.scale(-1)
			}
			if !rg.nonneg(yl) {
				up = false
			}
			if !rg.nonneg(yl.scale(-1)) {
				down = false
			}
			continue
		}
		if bo, ok := e.(*ssa.BinOp); ok && bo.Op == token.ADD && bo.Y == ssa.Value(ph) {
			steps++
			xl, ok := rg.lin(bo.X)
			if !ok || !rg.nonneg(xl) {
				up = false
			}
			down = false
			continue
		}
		if e == ssa.Value(ph) {
			continue
		}
		inits = append(inits, e)
	}
	if steps == 0 || len(inits) != 1 {
		return
	}
	il, ok := rg.lin(inits[0])
	if !ok {
		return
	}
	a := linAtom(name)
	if up {
		rg.axiom(a.minus(il))
	}
	if down {
		rg.axiom(il.minus(a))
	}
	// guarded countdown: the phi starts non-negative and every step down is
	// taken only where its result is still non-negative (for e > 0 { e-- }):
	// then the phi is non-negative throughout (induction over iterations)
	if down && !up && rg.nonneg(il) && !rg.inGuarded[ph] {
		if rg.inGuarded == nil {
			rg.inGuarded = map[*ssa.Phi]bool{}
		}
		rg.inGuarded[ph] = true
		okAll := true
		for k, e := range ph.Edges {
			bo, isStep := e.(*ssa.BinOp)
			if !isStep || bo.X != ssa.Value(ph) {
				continue
			}
			el, ok := rg.lin(e)
			if !ok {
				okAll = false
				break
			}
			hyp := append([]Lin{a}, rg.edgeCmpFacts(ph.Block().Preds[k], ph.Block())...)
			if !rg.entails(hyp, el) {
				okAll = false
				break
			}
		}
		delete(rg.inGuarded, ph)
		if okAll {
			rg.axiom(a)
		}
	}
	// coupled induction: a header phi stepping by a constant c on the loop's
	// single back edge, next to the loop's 0-based unit counter i, is init + c*i
	if c, i, ok := rg.coupledCounter(ph); ok {
		rel := a.minus(il).minus(rg.atom(i).scale(c))
		rg.axiom(rel)
		rg.axiom(rel.scale(-1))
	}
}

// unitStep: ph has two edges, one entering the loop (returned as init) and one
// back edge whose value is ph + c for a constant c.
func (rg *Range) constStep(ph *ssa.Phi) (init ssa.Value, c int64, ok bool) {
	if len(ph.Edges) != 2 {
		return nil, 0, false
	}
	b := ph.Block()
	for k, e := range ph.Edges {
		if !b.Dominates(b.Preds[k]) {
			continue
		}
		bo, isBo := e.(*ssa.BinOp)
		if !isBo || bo.Op != token.ADD || bo.X != ssa.Value(ph) {
			return nil, 0, false
		}
		cv, isC := rg.constVal(bo.Y)
		if !isC || b.Dominates(b.Preds[1-k]) {
			return nil, 0, false
		}
		return ph.Edges[1-k], cv, true
	}
	return nil, 0, false
}

func (rg *Range) coupledCounter(ph *ssa.Phi) (int64, *ssa.Phi, bool) {
	_, c, ok := rg.constStep(ph)
	if !ok || c == 0 {
		return 0, nil, false
	}
	for _, in := range ph.Block().Instrs {
		o, isPhi := in.(*ssa.Phi)
		if !isPhi {
			break
		}
		if o == ph {
			continue
		}
		init, oc, ok := rg.constStep(o)
		if !ok || oc != 1 {
			continue
		}
		if k, isC := init.(*ssa.Const); isC && k.Value != nil && k.Value.ExactString() == "0" {
			if pi, _, _ := rg.constStep(ph); pi != nil {
				if pk, isC := pi.(*ssa.Const); isC && pk.Value != nil && pk.Value.ExactString() == "0" && c == 1 {
					continue // two unit counters: nothing to couple
				}
			}
			return c, o, true
		}
	}
	return 0, nil, false
}

// extractAxioms: post-conditions of calls returning several values.
func (rg *Range) extractAxioms(name string, ex *ssa.Extract) {
	c, ok := ex.Tuple.(*ssa.Call)
	if !ok {
		if nx, ok := ex.Tuple.(*ssa.Next); ok && ex.Index == 1 {
			// range over int / slice index: handled through loop facts
			_ = nx
		}
		return
	}
	n := calleeName(c.Common())
	a := linAtom(name)
	switch n {
	case "quicwire.ConsumeVarint", "quicwire.ConsumeVarintInt64":
		if ex.Index == 1 {
			// n = -1, or 1 <= n <= 8 and n <= len(b)
			rg.axiom(a.addConst(1))
			rg.axiom(linConst(8).minus(a))
			rg.axiom(rg.lenAtom(c.Call.Args[0]).minus(a))
		} else if ex.Index == 0 {
			up := newLin()
			up.k.Sub(pow2(62), big.NewRat(1, 1))
			rg.axiom(up.minus(a))
			rg.axiom(a)
		}
	case "quicwire.ConsumeUint32", "quicwire.ConsumeUint64", "quicwire.ConsumeUint8Bytes", "quicwire.ConsumeVarintBytes":
		if ex.Index == 1 {
			rg.axiom(a.addConst(1))
			rg.axiom(rg.lenAtom(c.Call.Args[0]).minus(a))
		}
	}
}

func (rg *Range) callAxioms(name string, c *ssa.Call) {
	n := calleeName(c.Common())
	a := linAtom(name)
	switch n {
	case "tokens/type3.max", "builtin.max":
		for _, arg := range c.Call.Args {
			if x, ok := rg.lin(arg); ok {
				rg.axiom(a.minus(x))
			}
		}
	case "builtin.min":
		allNonneg := true
		for _, arg := range c.Call.Args {
			if x, ok := rg.lin(arg); ok {
				rg.axiom(x.minus(a))
				if !rg.nonneg(x) {
					allNonneg = false
				}
			} else {
				allNonneg = false
			}
		}
		if allNonneg {
			rg.axiom(a) // the minimum of non-negative values
		}
	case "bytes.IndexByte", "bytes.Index", "bytes.LastIndexByte", "bytes.LastIndex", "bytes.IndexAny", "bytes.IndexRune",
		"strings.IndexByte", "strings.Index", "strings.LastIndexByte", "strings.LastIndex", "strings.IndexAny", "strings.IndexRune":
		// documented contract: -1 or a valid index of the first argument
		rg.axiom(a.addConst(1))
		rg.axiom(rg.lenOf(c.Call.Args[0]).minus(a).addConst(-1))
	case "builtin.clear":
	case "(*math/big.Int).BitLen", "(*math/big.Int).TrailingZeroBits":
		rg.axiom(a)
		up := newLin()
		up.k.Set(pow2(40))
		rg.axiom(up.minus(a))
	}
}

// lin converts an integer-valued SSA value to a linear form.
func (rg *Range) lin(v ssa.Value) (Lin, bool) {
	rg.depth++
	defer func() { rg.depth-- }()
	if rg.depth > 40 {
		return rg.atom(v), true
	}
	if k, ok := rg.depConst(v); ok {
		return linConst(k), true
	}
	switch x := v.(type) {
	case *ssa.Const:
		if x.Value == nil || x.Value.Kind() != constant.Int {
			return Lin{}, false
		}
		l := newLin()
		bi, ok := new(big.Int).SetString(x.Value.ExactString(), 10)
		if !ok {
			return Lin{}, false
		}
		l.k.SetInt(bi)
		return l, true
	case *ssa.BinOp:
		bits, _, isInt := intBits(x.Type(), rg.p.IntBits)
		if !isInt {
			return Lin{}, false
		}
		switch x.Op {
		case token.ADD, token.SUB:
			a, ok1 := rg.lin(x.X)
			b, ok2 := rg.lin(x.Y)
			if !ok1 || !ok2 {
				return rg.atom(v), true
			}
			var res Lin
			if x.Op == token.ADD {
				res = a.plus(b)
			} else {
				res = a.minus(b)
			}
			if bits < rg.p.IntBits && !rg.fitsType(res, x.Type()) {
				// arithmetic in a type narrower than the machine word (uint8,
				// uint16, ...) may wrap: linear only if provably in range.
				// Machine-word arithmetic on lengths is assumed not to overflow.
				return rg.atom(v), true
			}
			return res, true
		case token.MUL:
			a, ok1 := rg.lin(x.X)
			b, ok2 := rg.lin(x.Y)
			if ok1 && ok2 {
				if a.isConst() && a.k.IsInt() {
					return b.scaleRat(a.k), true
				}
				if b.isConst() && b.k.IsInt() {
					return a.scaleRat(b.k), true
				}
				// product of two forms: canonical product atom a*b
				return rg.productAtom(v, a, b), true
			}
			return rg.atom(v), true
		case token.SHL:
			if c, ok := x.Y.(*ssa.Const); ok && c.Value != nil {
				if k, exact := constant.Int64Val(c.Value); exact && k >= 0 && k < 31 {
					if a, ok := rg.lin(x.X); ok {
						res := a.scale(1 << uint(k))
						if rg.fitsType(res, x.Type()) {
							return res, true
						}
					}
				}
			}
			return rg.atom(v), true
		}
		return rg.atom(v), true
	case *ssa.Convert:
		fb, _, ok1 := intBits(x.X.Type(), rg.p.IntBits)
		_, _, ok2 := intBits(x.Type(), rg.p.IntBits)
		if !ok1 || !ok2 {
			return rg.atom(v), true
		}
		_ = fb
		inner, ok := rg.lin(x.X)
		if !ok {
			return rg.atom(v), true
		}
		// value-preserving iff the operand fits the target type; the check is
		// made with the global axioms only here, and again with local facts at
		// the obligation (convObligations)
		if rg.fitsType(inner, x.Type()) {
			return inner, true
		}
		// keep the conversion as an atom that is tied to its operand when a
		// local proof shows it fits (see entailsAt)
		a := rg.atom(v)
		return a, true
	case *ssa.Call:
		if b, ok := x.Call.Value.(*ssa.Builtin); ok {
			switch b.Name() {
			case "len":
				return rg.lenOf(x.Call.Args[0]), true
			case "cap":
				// cap >= len
				a := rg.atom(v)
				for name := range a.c {
					rg.axiom(linAtom(name).minus(rg.lenOf(x.Call.Args[0])))
				}
				return a, true
			case "copy":
				a := rg.atom(v)
				for name := range a.c {
					rg.axiom(linAtom(name))
					rg.axiom(rg.lenOf(x.Call.Args[0]).minus(linAtom(name)))
					rg.axiom(rg.lenOf(x.Call.Args[1]).minus(linAtom(name)))
				}
				return a, true
			}
		}
		return rg.atom(v), true
	case *ssa.Phi:
		// all edges equal?
		return rg.atom(v), true
	case *ssa.UnOp:
		if x.Op == token.SUB {
			if a, ok := rg.lin(x.X); ok {
				return a.scale(-1), true
			}
		}
		return rg.atom(v), true
	}
	if _, _, ok := intBits(v.Type(), rg.p.IntBits); ok {
		return rg.atom(v), true
	}
	return Lin{}, false
}

// constVal: v is an integer constant, literally or by the dependency table.
func (rg *Range) constVal(v ssa.Value) (int64, bool) {
	if c, ok := v.(*ssa.Const); ok && c.Value != nil && c.Value.Kind() == constant.Int {
		return constant.Int64Val(c.Value)
	}
	return rg.depConst(v)
}

// depConst: v is one of the dependencies' fixed group/hash sizes (the table
// depConsts of rules.go): a getter and the literal are the same number.
func (rg *Range) depConst(v ssa.Value) (int64, bool) {
	switch v.(type) {
	case *ssa.Convert, *ssa.UnOp, *ssa.Field, *ssa.Call:
	default:
		return 0, false
	}
	if _, _, ok := intBits(v.Type(), rg.p.IntBits); !ok {
		return 0, false
	}
	t := rg.s.Of(v).String()
	if !strings.Contains(t, ").Params>(") && !strings.Contains(t, "crypto.Hash).Size>(") {
		return 0, false
	}
	r := depConsts.Replace(t)
	if strings.HasPrefix(r, "const:") {
		var k int64
		if _, err := fmt.Sscanf(r[6:], "%d", &k); err == nil && fmt.Sprintf("const:%d", k) == r {
			return k, true
		}
	}
	return 0, false
}

func (l Lin) scaleRat(f *big.Rat) Lin { return newLin().add(l, f) }

// productAtom: a*b as one atom with a canonical name (sorted operands).
func (rg *Range) productAtom(v ssa.Value, a, b Lin) Lin {
	sa, sb := a.String(), b.String()
	if sa > sb {
		sa, sb = sb, sa
		a, b = b, a
	}
	name := "(" + sa + ")*(" + sb + ")"
	if _, ok := rg.atoms[name]; !ok {
		rg.atoms[name] = v
		rg.products = append(rg.products, product{name: name, a: a, b: b})
		if rg.nonneg(a) && rg.nonneg(b) {
			rg.axiom(linAtom(name))
		}
	}
	return linAtom(name)
}

// fitsType: the linear form is provably within the value range of type t
// (using global axioms only).
func (rg *Range) fitsType(l Lin, t types.Type) bool {
	bits, signed, ok := intBits(t, rg.p.IntBits)
	if !ok {
		return false
	}
	lo, hi := newLin(), newLin()
	if signed {
		lo.k.Neg(pow2(bits - 1))
		hi.k.Sub(pow2(bits-1), big.NewRat(1, 1))
	} else {
		hi.k.Sub(pow2(bits), big.NewRat(1, 1))
	}
	return rg.entails(nil, l.minus(lo)) && rg.entails(nil, hi.minus(l))
}

// lenOf: linear form of len(v) for a slice/string/array value.
func (rg *Range) lenOf(v ssa.Value) Lin {
	switch x := v.(type) {
	case *ssa.Slice:
		var lo, hi Lin
		okLo, okHi := true, true
		if x.Low != nil {
			lo, okLo = rg.lin(x.Low)
		} else {
			lo = linConst(0)
		}
		if x.High != nil {
			hi, okHi = rg.lin(x.High)
		} else {
			hi = rg.lenOfBase(x.X)
		}
		if okLo && okHi {
			return hi.minus(lo)
		}
	case *ssa.Convert:
		if isByteSliceOrString(x.X.Type().Underlying()) && isByteSliceOrString(x.Type().Underlying()) {
			return rg.lenOf(x.X)
		}
	case *ssa.ChangeType:
		return rg.lenOf(x.X)
	case *ssa.MakeSlice:
		if l, ok := rg.lin(x.Len); ok {
			return l
		}
	case *ssa.Const:
		if x.Value == nil {
			return linConst(0)
		}
		if x.Value.Kind() == constant.String {
			return linConst(int64(len(constant.StringVal(x.Value))))
		}
	case *ssa.Call:
		if b, ok := x.Call.Value.(*ssa.Builtin); ok && b.Name() == "append" {
			base := rg.lenOf(x.Call.Args[0])
			if len(x.Call.Args) > 1 {
				return base.plus(rg.lenOf(x.Call.Args[1]))
			}
			return base
		}
		// an in-module function all of whose returns are views of constant,
		// equal length (buf[:] of a *[32]byte): that constant
		if f := x.Call.StaticCallee(); f != nil && InModule(f) && f.Blocks != nil && f.Signature.Results().Len() == 1 && rg.depth < 6 {
			if k, ok := rg.p.constResultLen(f, 0); ok {
				return linConst(k)
			}
		}
	case *ssa.Phi:
		// all edges the same length?
	}
	if arr, ok := deref(v.Type()).Underlying().(*types.Array); ok {
		return linConst(arr.Len())
	}
	return rg.lenAtom(v)
}

func (rg *Range) lenOfBase(v ssa.Value) Lin {
	if arr, ok := deref(v.Type()).Underlying().(*types.Array); ok {
		return linConst(arr.Len())
	}
	return rg.lenOf(v)
}

type product struct {
	name string
	a, b Lin
}

// ---------------------------------------------------------------- entailment

type constraint = Lin // meaning: form >= 0

// entails: do the global axioms plus the given facts imply goal >= 0.
func (rg *Range) entails(facts []Lin, goal Lin) bool {
	if goal.isConst() {
		return goal.k.Sign() >= 0
	}
	cs := make([]Lin, 0, len(rg.global)+len(facts)+1)
	cs = append(cs, rg.global...)
	cs = append(cs, facts...)
	// negation of the goal: -goal - eps >= 0; over integers: -goal - 1 >= 0 when
	// all quantities are integers (they are)
	cs = append(cs, goal.scale(-1).addConst(-1))
	return infeasible(cs, goal)
}

// infeasible: Fourier-Motzkin elimination. relevant restricts elimination
// order to keep the system small: constraints not sharing atoms (transitively)
// with the goal are dropped.
func infeasible(cs []Lin, goal Lin) bool {
	// keep only constraints connected to the goal's atoms
	rel := map[string]bool{}
	for a := range goal.c {
		rel[a] = true
	}
	for changed := true; changed; {
		changed = false
		for _, c := range cs {
			touch := false
			for a := range c.c {
				if rel[a] {
					touch = true
				}
			}
			if touch {
				for a := range c.c {
					if !rel[a] {
						rel[a] = true
						changed = true
					}
				}
			}
		}
	}
	var cur []Lin
	for _, c := range cs {
		if c.isConst() {
			if c.k.Sign() < 0 {
				return true
			}
			continue
		}
		keep := false
		for a := range c.c {
			if rel[a] {
				keep = true
			}
		}
		if keep {
			cur = append(cur, c)
		}
	}
	var atoms []string
	for a := range rel {
		atoms = append(atoms, a)
	}
	// eliminate atoms with the fewest occurrences first
	for len(atoms) > 0 {
		sort.Slice(atoms, func(i, j int) bool {
			return occ(cur, atoms[i]) < occ(cur, atoms[j]) || occ(cur, atoms[i]) == occ(cur, atoms[j]) && atoms[i] < atoms[j]
		})
		a := atoms[0]
		atoms = atoms[1:]
		var pos, neg, rest []Lin
		for _, c := range cur {
			v := c.c[a]
			switch {
			case v == nil:
				rest = append(rest, c)
			case v.Sign() > 0:
				pos = append(pos, c)
			default:
				neg = append(neg, c)
			}
		}
		if len(pos)*len(neg) > 4000 {
			return false // give up (not proved)
		}
		for _, p := range pos {
			for _, n := range neg {
				// p: cp*a + P >= 0 ; n: -cn*a + N >= 0  =>  cn*P + cp*N >= 0
				cp := p.c[a]
				cn := new(big.Rat).Neg(n.c[a])
				comb := newLin().add(p, cn).add(n, cp)
				delete(comb.c, a)
				if comb.isConst() {
					if comb.k.Sign() < 0 {
						return true
					}
					continue
				}
				rest = append(rest, comb)
			}
		}
		cur = dedupe(rest)
		if len(cur) > 6000 {
			return false
		}
	}
	for _, c := range cur {
		if c.isConst() && c.k.Sign() < 0 {
			return true
		}
	}
	return false
}

func occ(cs []Lin, a string) int {
	n := 0
	for _, c := range cs {
		if c.c[a] != nil {
			n++
		}
	}
	return n
}

func dedupe(cs []Lin) []Lin {
	seen := map[string]bool{}
	var out []Lin
	for _, c := range cs {
		k := c.String()
		if !seen[k] {
			seen[k] = true
			out = append(out, c)
		}
	}
	return out
}

// ---------------------------------------------------------------- facts

// cmpFact turns a comparison atom into linear constraints (>= 0).
func (rg *Range) cmpFact(a Atom) []Lin {
	if a.Kind != Truth {
		return nil
	}
	bo, ok := a.V.(*ssa.BinOp)
	if !ok {
		return nil
	}
	x, ok1 := rg.lin(bo.X)
	y, ok2 := rg.lin(bo.Y)
	if !ok1 || !ok2 {
		return nil
	}
	op := bo.Op
	if !a.Pol {
		switch op {
		case token.LSS:
			op = token.GEQ
		case token.GTR:
			op = token.LEQ
		case token.LEQ:
			op = token.GTR
		case token.GEQ:
			op = token.LSS
		case token.EQL:
			op = token.NEQ
		case token.NEQ:
			op = token.EQL
		default:
			return nil
		}
	}
	switch op {
	case token.LSS:
		return []Lin{y.minus(x).addConst(-1)}
	case token.LEQ:
		return []Lin{y.minus(x)}
	case token.GTR:
		return []Lin{x.minus(y).addConst(-1)}
	case token.GEQ:
		return []Lin{x.minus(y)}
	case token.EQL:
		return []Lin{x.minus(y), y.minus(x)}
	}
	return nil
}

// factsAt collects linear facts holding at block b: dominating comparisons,
// successful checked reads (len post-conditions), callee success facts.
// edgeCmpFacts: comparison facts that hold when control passes from -> to.
func (rg *Range) edgeCmpFacts(from, to *ssa.BasicBlock) []Lin {
	var out []Lin
	for _, a := range rg.s.ff.AtEdge(from, to) {
		out = append(out, rg.cmpFact(a)...)
	}
	return out
}

func (rg *Range) factsAt(b *ssa.BasicBlock) []Lin {
	var out []Lin
	for _, a := range rg.s.ff.At(b) {
		out = append(out, rg.cmpFact(a)...)
		if c, ok, succ := callOfAtom(a); ok && succ {
			out = append(out, rg.callSuccessFacts(c)...)
		}
		if a.Kind == IsNil && !a.Pol {
			// v != nil
		}
	}
	// conversions whose operand provably fits given these facts: tie atom to operand
	out = append(out, rg.convTies(out)...)
	out = append(out, rg.productFacts(out)...)
	return out
}

// convTies: for each conversion atom conv<T>(x): if x fits T under the facts,
// add conv == x.
func (rg *Range) convTies(facts []Lin) []Lin {
	var out []Lin
	for name, v := range rg.atoms {
		cv, ok := v.(*ssa.Convert)
		if !ok || !strings.HasPrefix(name, "conv<") {
			continue
		}
		inner, ok := rg.lin(cv.X)
		if !ok {
			continue
		}
		bits, signed, ok := intBits(cv.Type(), rg.p.IntBits)
		if !ok {
			continue
		}
		lo, hi := newLin(), newLin()
		if signed {
			lo.k.Neg(pow2(bits - 1))
			hi.k.Sub(pow2(bits-1), big.NewRat(1, 1))
		} else {
			hi.k.Sub(pow2(bits), big.NewRat(1, 1))
		}
		if rg.entails(facts, inner.minus(lo)) && rg.entails(facts, hi.minus(inner)) {
			a := linAtom(name)
			out = append(out, a.minus(inner), inner.minus(a))
		}
	}
	return out
}

// productFacts: monotonicity of products with a non-negative factor and the
// quotient identity (x/e)*e <= x.
func (rg *Range) productFacts(facts []Lin) []Lin {
	var out []Lin
	for _, pr := range rg.products {
		pa := linAtom(pr.name)
		for _, fac := range [][2]Lin{{pr.a, pr.b}, {pr.b, pr.a}} {
			A, e := fac[0], fac[1]
			if !rg.entails(facts, e) {
				continue
			}
			// quotient atoms q = x / e with the same e
			for qname, qv := range rg.atoms {
				bo, ok := qv.(*ssa.BinOp)
				if !ok || bo.Op != token.QUO {
					continue
				}
				el, ok := rg.lin(bo.Y)
				if !ok || el.String() != e.String() {
					continue
				}
				xl, ok := rg.lin(bo.X)
				if !ok || !rg.entails(facts, xl) {
					continue
				}
				q := linAtom(qname)
				// A <= q  =>  A*e <= q*e <= x
				if rg.entails(facts, q.minus(A)) {
					out = append(out, xl.minus(pa))
				}
				// A + 1 <= q  =>  A*e + e = (A+1)*e <= q*e <= x
				if rg.entails(facts, q.minus(A).addConst(-1)) {
					out = append(out, xl.minus(pa).minus(e))
				}
			}
			// A >= 0 => A*e >= 0 ; A >= 1 => A*e >= e
			if rg.entails(facts, A) {
				out = append(out, pa)
			}
			if rg.entails(facts, A.addConst(-1)) {
				out = append(out, pa.minus(e))
			}
			// two products with the same e: A1 <= A2 => A1*e <= A2*e
			for _, pr2 := range rg.products {
				if pr2.name == pr.name {
					continue
				}
				for _, fac2 := range [][2]Lin{{pr2.a, pr2.b}, {pr2.b, pr2.a}} {
					if fac2[1].String() != e.String() {
						continue
					}
					if rg.entails(facts, fac2[0].minus(A)) {
						out = append(out, linAtom(pr2.name).minus(pa))
					}
				}
			}
		}
	}
	return out
}

// callSuccessFacts: post-conditions of a call that succeeded.
func (rg *Range) callSuccessFacts(c *ssa.Call) []Lin {
	n := calleeName(c.Common())
	args := c.Call.Args
	var out []Lin
	outLen := func(ptr ssa.Value) (Lin, bool) {
		// length of the value *ptr after this call
		var t *Term
		idx := -1
		for i, a := range args {
			if a == ptr {
				idx = i
			}
		}
		switch x := ptr.(type) {
		case *ssa.Alloc:
			t = &Term{Op: "out", Name: fmt.Sprintf("%d", idx), Args: []*Term{rg.s.callTerm(c)}}
		case *ssa.FieldAddr:
			_ = x
			return Lin{}, false
		}
		if t == nil {
			return Lin{}, false
		}
		name := "len(" + t.String() + ")"
		if _, ok := rg.atoms[name]; !ok {
			rg.atoms[name] = c
			rg.axiom(linAtom(name))
		}
		return linAtom(name), true
	}
	switch {
	case n == cbString+"ReadBytes" && len(args) == 3:
		if l, ok := outLen(args[1]); ok {
			if nl, ok := rg.lin(args[2]); ok {
				out = append(out, l.minus(nl), nl.minus(l))
			}
		}
	case strings.HasPrefix(n, cbString+"ReadUint") && strings.HasSuffix(n, "LengthPrefixed"):
		if l, ok := outLen(args[1]); ok {
			max := int64(255)
			if strings.Contains(n, "Uint16") {
				max = 65535
			} else if strings.Contains(n, "Uint24") {
				max = 1<<24 - 1
			}
			out = append(out, linConst(max).minus(l))
		}
	case n == cbString+"Skip":
		// the String shrank by n: len(new) = len(old) - n, n <= len(old), n >= 0
		if nl, ok := rg.lin(args[1]); ok {
			out = append(out, nl)
		}
	}
	// a request decoder that accepted b holds a value whose encoding is no longer
	// than b (the layout agreement of C04: the decoder's fixed-width reads are
	// the encoder's fields): len(x.Marshal()) <= len(b)
	if c.Call.IsInvoke() && c.Call.Method.Name() == "Unmarshal" && len(args) == 1 && strings.HasSuffix(c.Call.Value.Type().String(), "tokens.TokenRequestWithDetails") {
		mt := &Term{Op: "call", Name: "(tokens.TokenRequestWithDetails).Marshal", Args: []*Term{rg.s.Of(c.Call.Value)}}
		name := "len(" + mt.String() + ")"
		if _, ok := rg.atoms[name]; !ok {
			rg.atoms[name] = c
			rg.axiom(linAtom(name))
		}
		out = append(out, rg.lenOf(args[0]).minus(linAtom(name)))
	}
	// in-module callee: facts common to all its success returns
	if f := c.Call.StaticCallee(); f != nil && InModule(f) && f.Blocks != nil {
		out = append(out, rg.calleeSuccess(f, c)...)
	}
	return out
}

// calleeSuccess: comparison facts that dominate every success return of f,
// translated to the caller (parameters replaced by the argument terms). Only
// facts over lengths and pure terms of parameters translate.
func (rg *Range) calleeSuccess(f *ssa.Function, call *ssa.Call) []Lin {
	if len(rg.s.stack) > 3 {
		return nil
	}
	child := rg.s.child(f)
	for i, prm := range f.Params {
		if i < len(call.Call.Args) {
			child.params[prm] = rg.s.Of(call.Call.Args[i])
		}
	}
	crg := &Range{p: rg.p, fn: f, s: child, atoms: map[string]ssa.Value{}, seenAx: map[string]bool{}, loops: naturalLoops(f)}
	var common map[string]Lin
	n := 0
	for _, rp := range child.ff.RetPoints(verdictIndex(f)) {
		if rp.Outcome == Fails {
			continue
		}
		n++
		cur := map[string]Lin{}
		for _, a := range rp.Facts {
			for _, l := range crg.cmpFact(a) {
				// only facts whose atoms mention no callee-local values
				local := false
				calleeTag := shortName(f)
				for at := range l.c {
					if strings.Contains(at, "opaque:"+calleeTag+"#") || strings.Contains(at, "@"+calleeTag+">") {
						local = true
					}
				}
				if !local {
					cur[l.String()] = l
				}
			}
		}
		// lengths of slice results: len(result_i) == the callee's length form
		for i, rv := range rp.Vals {
			if !isSliceOrString(rv.Type()) {
				continue
			}
			var resVal ssa.Value
			if len(rp.Vals) == 1 {
				resVal = call
			} else if refs := call.Referrers(); refs != nil {
				for _, r := range *refs {
					if ex, ok := r.(*ssa.Extract); ok && ex.Index == i {
						resVal = ex
					}
				}
			}
			if resVal == nil {
				continue
			}
			l := crg.lenOf(rv)
			local := false
			calleeTag := shortName(f)
			for at := range l.c {
				if strings.Contains(at, "opaque:"+calleeTag+"#") || strings.Contains(at, "@"+calleeTag+">") || strings.Contains(at, "alloc<") {
					local = true
				}
			}
			if local {
				continue
			}
			ra := rg.lenAtom(resVal)
			for _, e := range []Lin{ra.minus(l), l.minus(ra)} {
				cur[e.String()] = e
			}
		}
		if common == nil {
			common = cur
		} else {
			for k := range common {
				if _, ok := cur[k]; !ok {
					delete(common, k)
				}
			}
		}
	}
	var out []Lin
	for _, l := range common {
		// make sure atoms exist in the caller's table with their axioms
		for at := range l.c {
			if _, ok := rg.atoms[at]; !ok {
				rg.atoms[at] = crg.atoms[at]
				if strings.HasPrefix(at, "len(") {
					rg.axiom(linAtom(at))
				} else if v := crg.atoms[at]; v != nil {
					rg.typeAxioms(at, v.Type())
					for _, g := range positiveGetters {
						if strings.HasSuffix(at, g) || (strings.HasSuffix(g, ">") && strings.Contains(at, g+"(")) {
							rg.axiom(linAtom(at).addConst(-1))
						}
					}
				}
			}
		}
		out = append(out, l)
	}
	return out
}

// lenOfTermField: length of field fld of the struct a term designates
// (&T{fld: X}): list -> element count, make -> its length.
func (rg *Range) lenOfTermField(t *Term, fld string) (Lin, bool) {
	if t.Op == "obj" && len(t.Args) > 0 {
		t = t.Args[0]
	}
	if t.Op == "ref" && len(t.Args) == 1 {
		t = t.Args[0]
	}
	if t.Op != "struct" {
		return Lin{}, false
	}
	x := structField(t, fld)
	if x == nil {
		return Lin{}, false
	}
	switch x.Op {
	case "list":
		return linConst(int64(len(x.Args))), true
	case "make":
		if len(x.Args) > 0 {
			if src := x.Args[0].Src; src != nil {
				if in, ok := src.(ssa.Instruction); !ok || in.Parent() == rg.fn {
					return rg.lin(src)
				}
			}
			// allocated in an inlined helper: the length term names the quantity
			nm := x.Args[0].String()
			if _, ok := rg.atoms[nm]; !ok {
				rg.atoms[nm] = x.Args[0].Src
				rg.axiom(linAtom(nm))
			}
			return linAtom(nm), true
		}
	}
	if x.Src != nil {
		return rg.lenOf(x.Src), true
	}
	return Lin{}, false
}

// lenOfTerm: length of the byte string a term describes, as a linear form
// over length atoms named by the sub-terms.
func (rg *Range) lenOfTerm(t *Term) (Lin, bool) {
	switch t.Op {
	case "cat":
		sum := linConst(0)
		for _, p := range t.Args {
			l, ok := rg.lenOfTerm(p)
			if !ok {
				return Lin{}, false
			}
			sum = sum.plus(l)
		}
		return sum, true
	case "u8":
		return linConst(1), true
	case "u16":
		return linConst(2), true
	case "u24":
		return linConst(3), true
	case "u32":
		return linConst(4), true
	case "u64":
		return linConst(8), true
	case "lp8":
		l, ok := rg.lenOfTerm(t.Args[0])
		return l.addConst(1), ok
	case "lp16":
		l, ok := rg.lenOfTerm(t.Args[0])
		return l.addConst(2), ok
	case "lit":
		if len(t.Name) >= 2 {
			// quoted Go string
			var str string
			if _, err := fmt.Sscanf(t.Name, "%q", &str); err == nil {
				return linConst(int64(len(str))), true
			}
		}
	}
	name := "len(" + t.String() + ")"
	if _, ok := rg.atoms[name]; !ok {
		var v ssa.Value = t.Src
		rg.atoms[name] = v
		rg.axiom(linAtom(name))
		if v != nil {
			rg.lenAxiomsTerm(name, t, v)
		}
	}
	return linAtom(name), true
}

// constResultLen: every return of f yields a slice of the same constant length.
var constLenMemo = map[*ssa.Function]int64{}

func (p *Prog) constResultLen(f *ssa.Function, depth int) (int64, bool) {
	if v, ok := constLenMemo[f]; ok {
		return v, v >= 0
	}
	constLenMemo[f] = -1
	if depth > 3 {
		return 0, false
	}
	frg := p.NewRange(f)
	res := int64(-1)
	for _, b := range f.Blocks {
		ret, ok := b.Instrs[len(b.Instrs)-1].(*ssa.Return)
		if !ok || len(ret.Results) != 1 {
			continue
		}
		l := frg.lenOf(ret.Results[0])
		if !l.isConst() || !l.k.IsInt() {
			return 0, false
		}
		k := l.k.Num().Int64()
		if res >= 0 && res != k {
			return 0, false
		}
		res = k
	}
	if res < 0 {
		return 0, false
	}
	constLenMemo[f] = res
	return res, true
}
