package main

// E1: loading /repo's current working tree, SSA, function lookup, scopes.

import (
	"fmt"
	"go/token"
	"go/types"
	"os"
	"sort"
	"strings"

	"golang.org/x/tools/go/callgraph"
	"golang.org/x/tools/go/callgraph/cha"
	"golang.org/x/tools/go/callgraph/vta"
	"golang.org/x/tools/go/packages"
	"golang.org/x/tools/go/ssa"
	"golang.org/x/tools/go/ssa/ssautil"
)

const modPath = "github.com/cloudflare/pat-go"

// Prog is one loaded build configuration of the repository.
type Prog struct {
	Repo    string
	GOARCH  string
	Pkgs    []*packages.Package // initial (pat-go) packages
	All     map[string]*packages.Package
	SSA     *ssa.Program
	Fset    *token.FileSet
	Funcs   map[*ssa.Function]bool
	byName  map[string]*ssa.Function
	cg      *callgraph.Graph
	eff     *Effects
	ranges  map[*ssa.Function]*Range
	Sizes   types.Sizes
	IntBits int
}

func goEnv(goarch string) []string {
	env := []string{}
	for _, e := range os.Environ() {
		if strings.HasPrefix(e, "GOWORK=") || strings.HasPrefix(e, "GOFLAGS=") ||
			strings.HasPrefix(e, "GOARCH=") || strings.HasPrefix(e, "GOPROXY=") ||
			strings.HasPrefix(e, "GOSUMDB=") || strings.HasPrefix(e, "GOTOOLCHAIN=") {
			continue
		}
		env = append(env, e)
	}
	env = append(env, "GOWORK=off", "GOFLAGS=-mod=mod", "GOPROXY=off", "GOSUMDB=off", "GOTOOLCHAIN=local", "CGO_ENABLED=0")
	if goarch != "" {
		env = append(env, "GOARCH="+goarch)
	}
	return env
}

// Load type-checks ./... of repo and builds SSA for the whole program.
// Any load or type error is fatal for the check (never a pass).
func Load(repo, goarch string) (*Prog, error) {
	cfg := &packages.Config{
		Mode:  packages.LoadAllSyntax,
		Dir:   repo,
		Env:   goEnv(goarch),
		Tests: false,
	}
	pkgs, err := packages.Load(cfg, "./...")
	if err != nil {
		return nil, fmt.Errorf("load: %v", err)
	}
	if len(pkgs) == 0 {
		return nil, fmt.Errorf("load: no packages matched ./... in %s", repo)
	}
	var errs []string
	all := map[string]*packages.Package{}
	packages.Visit(pkgs, nil, func(p *packages.Package) {
		all[p.PkgPath] = p
		for _, e := range p.Errors {
			errs = append(errs, e.Error())
		}
	})
	if len(errs) > 0 {
		sort.Strings(errs)
		if len(errs) > 10 {
			errs = errs[:10]
		}
		return nil, fmt.Errorf("load: type/parse errors:\n  %s", strings.Join(errs, "\n  "))
	}
	n := 0
	for _, p := range pkgs {
		if strings.HasPrefix(p.PkgPath, modPath) {
			n++
		}
	}
	if n == 0 {
		return nil, fmt.Errorf("load: no %s packages found", modPath)
	}
	prog, _ := ssautil.AllPackages(pkgs, ssa.InstantiateGenerics)
	prog.Build()
	p := &Prog{Repo: repo, GOARCH: goarch, Pkgs: pkgs, All: all, SSA: prog, Fset: pkgs[0].Fset}
	p.Funcs = ssautil.AllFunctions(prog)
	p.byName = map[string]*ssa.Function{}
	for f := range p.Funcs {
		if f.Synthetic != "" && !strings.HasPrefix(f.Synthetic, "package initializer") {
			// wrappers/thunks/bound methods: not addressable by name
			if f.Parent() == nil && f.Pkg == nil {
				continue
			}
		}
		name := f.RelString(nil)
		if old, ok := p.byName[name]; ok {
			// prefer the declared (non-synthetic) one
			if old.Synthetic == "" {
				continue
			}
		}
		p.byName[name] = f
	}
	p.Sizes = pkgs[0].TypesSizes
	p.IntBits = int(p.Sizes.Sizeof(types.Typ[types.Int])) * 8
	p.computeFieldRenames()
	return p, nil
}

// Func resolves a fully qualified function name, e.g.
// "(*github.com/cloudflare/pat-go/tokens/type3.RateLimitedAttester).VerifyRequest".
// The short form with "~/" for the module path is accepted.
func (p *Prog) Func(name string) *ssa.Function {
	name = strings.ReplaceAll(name, "~/", modPath+"/")
	if f := p.byName[name]; f != nil {
		return f
	}
	// a method may be declared on T or *T: accept either form of the anchor
	if strings.HasPrefix(name, "(*") {
		return p.byName["("+name[2:]]
	}
	if strings.HasPrefix(name, "(") {
		if f := p.byName["(*"+name[1:]]; f != nil && f.Synthetic == "" {
			return f
		}
	}
	return nil
}

func (p *Prog) Pos(pos token.Pos) string {
	if !pos.IsValid() {
		return "-"
	}
	ps := p.Fset.Position(pos)
	f := ps.Filename
	if strings.HasPrefix(f, p.Repo+"/") {
		f = f[len(p.Repo)+1:]
	} else if i := strings.Index(f, "/pkg/mod/"); i >= 0 {
		f = f[i+9:]
	}
	return fmt.Sprintf("%s:%d", f, ps.Line)
}

func (p *Prog) InstrPos(in ssa.Instruction) string {
	pos := in.Pos()
	if !pos.IsValid() {
		// fall back to nearest positioned instruction in the block / function
		if v, ok := in.(ssa.Value); ok {
			for _, r := range *v.Referrers() {
				if r.Pos().IsValid() {
					pos = r.Pos()
					break
				}
			}
		}
		if !pos.IsValid() && in.Parent() != nil {
			pos = in.Parent().Pos()
		}
	}
	return p.Pos(pos)
}

// InModule reports whether fn is declared in a pat-go package.
func InModule(fn *ssa.Function) bool {
	pk := fnPkgPath(fn)
	return pk == modPath || strings.HasPrefix(pk, modPath+"/")
}

func fnPkgPath(fn *ssa.Function) string {
	for fn.Parent() != nil {
		fn = fn.Parent()
	}
	if fn.Pkg != nil {
		return fn.Pkg.Pkg.Path()
	}
	if fn.Object() != nil && fn.Object().Pkg() != nil {
		return fn.Object().Pkg().Path()
	}
	if o := fn.Origin(); o != nil && o != fn {
		return fnPkgPath(o)
	}
	return ""
}

// ModuleFuncs returns all source functions (incl. closures) of pat-go
// packages, sorted by name, excluding the synthetic ones.
func (p *Prog) ModuleFuncs() []*ssa.Function {
	var out []*ssa.Function
	for f := range p.Funcs {
		if !InModule(f) || f.Blocks == nil {
			continue
		}
		if f.Synthetic != "" {
			continue
		}
		out = append(out, f)
	}
	sort.Slice(out, func(i, j int) bool { return out[i].RelString(nil) < out[j].RelString(nil) })
	return out
}

// CallGraph builds (once) the VTA call graph seeded by CHA.
func (p *Prog) CallGraph() *callgraph.Graph {
	if p.cg == nil {
		p.cg = vta.CallGraph(p.Funcs, cha.CallGraph(p.SSA))
	}
	return p.cg
}

// Callees returns the possible callees of a call instruction. Static calls
// resolve directly. (*sync.Once).Do(f) resolves f at the site (VTA merges all
// Once closures in the program). Dynamic calls use the VTA graph.
func (p *Prog) Callees(site ssa.CallInstruction) (out []*ssa.Function, decided bool) {
	c := site.Common()
	if sc := c.StaticCallee(); sc != nil {
		if sc.RelString(nil) == "(*sync.Once).Do" && len(c.Args) == 2 {
			switch f := c.Args[1].(type) {
			case *ssa.MakeClosure:
				return []*ssa.Function{f.Fn.(*ssa.Function)}, true
			case *ssa.Function:
				return []*ssa.Function{f}, true
			}
			return nil, false
		}
		return []*ssa.Function{sc}, true
	}
	if _, ok := c.Value.(*ssa.Builtin); ok {
		return nil, true
	}
	cg := p.CallGraph()
	n := cg.Nodes[site.Parent()]
	if n == nil {
		return nil, false
	}
	seen := map[*ssa.Function]bool{}
	for _, e := range n.Out {
		if e.Site == site && !seen[e.Callee.Func] {
			seen[e.Callee.Func] = true
			out = append(out, e.Callee.Func)
		}
	}
	sort.Slice(out, func(i, j int) bool { return out[i].RelString(nil) < out[j].RelString(nil) })
	return out, true
}

// Reach computes the functions reachable from entries. follow decides whether
// to descend into a callee's body.
func (p *Prog) Reach(entries []*ssa.Function, follow func(*ssa.Function) bool) map[*ssa.Function]*ssa.Function {
	parent := map[*ssa.Function]*ssa.Function{}
	var work []*ssa.Function
	for _, e := range entries {
		if _, ok := parent[e]; !ok {
			parent[e] = nil
			work = append(work, e)
		}
	}
	for len(work) > 0 {
		f := work[0]
		work = work[1:]
		if f.Blocks == nil {
			continue
		}
		visit := func(g *ssa.Function) {
			if g == nil {
				return
			}
			if _, ok := parent[g]; ok {
				return
			}
			if follow != nil && !follow(g) {
				return
			}
			parent[g] = f
			work = append(work, g)
		}
		for _, b := range f.Blocks {
			for _, in := range b.Instrs {
				switch in := in.(type) {
				case ssa.CallInstruction:
					cs, _ := p.Callees(in)
					for _, g := range cs {
						visit(g)
					}
				case *ssa.MakeClosure:
					visit(in.Fn.(*ssa.Function))
				}
			}
		}
	}
	return parent
}

func pathTo(parent map[*ssa.Function]*ssa.Function, f *ssa.Function) string {
	var names []string
	for g := f; g != nil; g = parent[g] {
		names = append(names, shortName(g))
		if len(names) > 40 {
			break
		}
	}
	for i, j := 0, len(names)-1; i < j; i, j = i+1, j-1 {
		names[i], names[j] = names[j], names[i]
	}
	return strings.Join(names, " -> ")
}

func shortName(f *ssa.Function) string {
	s := f.RelString(nil)
	s = strings.ReplaceAll(s, modPath+"/", "")
	s = strings.ReplaceAll(s, "github.com/cloudflare/circl/", "circl/")
	return s
}

// rangeFor: one prover context per function (used by the term evaluator for
// offset arithmetic).
func (p *Prog) rangeFor(fn *ssa.Function) *Range {
	if p.ranges == nil {
		p.ranges = map[*ssa.Function]*Range{}
	}
	if rg, ok := p.ranges[fn]; ok {
		return rg
	}
	rg := p.NewRange(fn)
	p.ranges[fn] = rg
	return rg
}
