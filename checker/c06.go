package main

// C06 - the attester accepts a rate-limited request only if it is authentic.

import (
	"fmt"
	"strings"

	"golang.org/x/tools/go/ssa"
)

const (
	tP384       = "call<crypto/elliptic.P384>()"
	nmVerify    = "ecdsa.Verify"
	nmBytesEq   = "bytes.Equal"
	nmAttVerify = "(*~/tokens/type3.RateLimitedAttester).VerifyRequest"
	nmAttInner  = "(*~/tokens/type3.RateLimitedAttester).innerVerifyRequest"
	nmAttFinal  = "(*~/tokens/type3.RateLimitedAttester).FinalizeIndex"
)

// pubKeyFrom: the term of unmarshalPublicKey(curve, enc).
func pubKeyFrom(curve, enc string) string {
	uc := "call<crypto/elliptic.UnmarshalCompressed>(" + curve + ", " + enc + ")"
	return "ref(struct<ecdsa.PublicKey>(kv<Curve>(" + curve + "), kv<X>(extract<0>(" + uc + ")), kv<Y>(extract<1>(" + uc + "))))"
}

// signedMessage: the layout every party must sign/verify for request term req.
func signedMessage(req string) string {
	return "cat(u16(const:3), " + req + ".RequestKey, " + req + ".NameKeyID, lp16(" + req + ".EncryptedTokenRequest))"
}

// checkSigHalves: r = SetBytes(sig[:n]), s = SetBytes(sig[n:]) for one n.
func checkSigHalves(rT, sT *Term, sig string) string {
	const pfx = "call<(*math/big.Int).SetBytes>("
	rs, ss := rT.String(), sT.String()
	if !strings.HasPrefix(rs, pfx) || !strings.HasPrefix(ss, pfx) {
		return "r and s are not big.Int.SetBytes of signature halves: r=" + clip(rs, 200) + " s=" + clip(ss, 200)
	}
	ra, sa := arg(rT, 1), arg(sT, 1)
	if ra.Op != "slice" || sa.Op != "slice" {
		return "r and s are not slices of the signature"
	}
	if ra.Args[0].String() != sig || sa.Args[0].String() != sig {
		return fmt.Sprintf("r/s are slices of %s / %s, required %s", clip(ra.Args[0].String(), 120), clip(sa.Args[0].String(), 120), sig)
	}
	if ra.Args[1].String() != "const:0" || sa.Args[2].String() != "const:nil" {
		return "r must be sig[:n] and s must be sig[n:]"
	}
	if ra.Args[2].String() != sa.Args[1].String() {
		return "r and s are split at different offsets: " + clip(ra.Args[2].String(), 120) + " vs " + clip(sa.Args[1].String(), 120)
	}
	return ""
}

func reqSignature(desc, curve, req string) CallReq {
	return CallReq{
		Desc:   desc,
		Callee: nmVerify,
		Check: func(t *Term) string {
			return firstNonEmpty(
				want("verification key", arg(t, 0), pubKeyFrom(curve, req+".RequestKey")),
				want("digest", arg(t, 1), "hash<sha384>("+signedMessage(req)+")"),
				checkSigHalves(arg(t, 2), arg(t, 3), req+".Signature"),
			)
		},
	}
}

func init() { props["C06"] = c06 }

func c06(p *Prog, r *Report) {
	r.Explanation = "Must-pass-through (guard dominance) on SSA with argument bindings as symbolic terms: every non-failing return of RateLimitedAttester.VerifyRequest is dominated by the success edge of ecdsa.Verify over the request's own key/contents/signature and of bytes.Equal(Blind(clientKey, blindKey, ctx), RequestKey); the client state cache is written only behind both. Checks are followed through in-module callees with parameter substitution, so inlining or extracting helpers does not change the verdict."
	r.NotDecided = "that ECDSA verification rejects every forged signature and that key blinding is injective (cryptographic soundness of dependencies); behaviour of the user-supplied cache."
	r.Assumptions = append(r.Assumptions, "crypto/elliptic, math/big, crypto/sha512 behave as documented", "heap fields of the request are not modified between the reads the terms name (no store to them exists in the analysed functions; checked)")
	r.Trusted = append(r.Trusted, "go/types, go/ssa (x/tools v0.29.0) incl. dominator tree", "term evaluator of this checker (terms.go)", "guard-fact extraction (facts.go)")

	const R1a = "C06.signature-dominates-accept"
	const R1b = "C06.blinded-key-equality-dominates-accept"
	const R2 = "C06.signed-message-covers-request"
	const R3 = "C06.cache-write-behind-checks"
	const R4 = "C06.no-other-state-write"
	r.Rule(R1a, "every success return of VerifyRequest is dominated by ecdsa.Verify(K,H,r,s)=true with K=decode(request.RequestKey), H=SHA-384(type||RequestKey||NameKeyID||len16-prefixed EncryptedTokenRequest), (r,s)=halves of request.Signature", 1)
	r.Rule(R1b, "every success return of VerifyRequest is dominated by bytes.Equal(MarshalCompressed(BlindPublicKeyWithContext(P384, decode(clientKeyEnc), CreateKey(blindKeyEnc), type||\"ClientBlind\")), request.RequestKey)=true", 1)
	r.Rule(R2, "the signed message is the request's wire encoding minus the signature (every field other than the signature is covered)", 1)
	r.Rule(R3, "every ClientStateCache.Put reachable in VerifyRequest is dominated by both checks", 2)
	r.Rule(R4, "VerifyRequest and its in-module callees contain no other cache write and no map update of ClientState", 1)

	fn := anchor(p, r, R1a, nmAttVerify)
	if fn == nil {
		return
	}
	r.Count("functions_analysed", 1)
	r.List("functions", shortName(fn))
	const req = "param:1"
	sigReq, eqReq := attesterReqs()
	p.RequireOnSuccess(r, R1a, fn, sigReq)
	p.RequireOnSuccess(r, R1b, fn, eqReq)

	// R2: signed message == Marshal layout minus Signature
	mfn := anchor(p, r, R2, "(*~/tokens/type3.RateLimitedTokenRequest).Marshal")
	if mfn != nil {
		mt := p.returnTermWith(mfn, T("param", "1"))
		wantM := "cat(u16(const:3), param:1.RequestKey, param:1.NameKeyID, lp16(param:1.EncryptedTokenRequest), param:1.Signature)"
		ms := "<not computable>"
		if mt != nil {
			ms = mt.String()
		}
		r.Check(ms == wantM, R2, "RateLimitedTokenRequest.Marshal layout = signed message ++ Signature", p.Pos(mfn.Pos()),
			"Marshal term "+ms+" = signed message "+signedMessage(req)+" followed by the signature",
			"Marshal term is "+ms+", but the attester verifies the signature over "+signedMessage(req)+" followed by Signature: a request field is outside the signature or the layouts differ")
	}

	// R3: cache.Put sites
	puts := sitesIn(fn, func(n string) bool { return strings.HasSuffix(n, "ClientStateCache).Put") })
	for i, site := range puts {
		d := fmt.Sprintf("cache.Put#%d", i)
		p.RequireBeforeSite(r, R3, fn, site, d, sigReq)
		p.RequireBeforeSite(r, R3, fn, site, d, eqReq)
	}
	if len(puts) == 0 {
		r.Note("no ClientStateCache.Put site found in VerifyRequest")
	}

	// R4: no other writes to attester state from VerifyRequest
	reach := p.Reach([]*ssa.Function{fn}, InModule)
	bad := 0
	for g := range reach {
		if g.Blocks == nil {
			continue
		}
		r.Count("functions_analysed", 1)
		for _, b := range g.Blocks {
			for _, in := range b.Instrs {
				switch in := in.(type) {
				case *ssa.MapUpdate:
					if isClientStateMap(in.Map) {
						bad++
						r.Fail(R4, shortName(g)+": map update of ClientState", p.InstrPos(in), "a ClientState map is updated on a path reachable from VerifyRequest")
					}
				case ssa.CallInstruction:
					n := calleeName(in.Common())
					if strings.HasSuffix(n, "ClientStateCache).Put") && g != fn {
						bad++
						r.Fail(R4, shortName(g)+": cache.Put outside VerifyRequest", p.InstrPos(in), "cache written in a callee where the dominance of both checks is not established")
					}
				}
			}
		}
	}
	if bad == 0 {
		r.OK(R4, "VerifyRequest closure", p.Pos(fn.Pos()), fmt.Sprintf("%d in-module functions reachable; no ClientState map update, no cache.Put outside the guarded sites", len(reach)))
	}
}

func isClientStateMap(v ssa.Value) bool {
	// map loaded from a field of type3.ClientState
	u, ok := v.(*ssa.UnOp)
	if !ok {
		return false
	}
	fa, ok := u.X.(*ssa.FieldAddr)
	if !ok {
		return false
	}
	return strings.HasSuffix(typeShort(deref(fa.X.Type())), "type3.ClientState")
}

// attesterReqs: the two checks VerifyRequest must pass before accepting
// (shared with C09, which requires them before a client is registered).
func attesterReqs() (sigReq, eqReq CallReq) {
	const req = "param:1"
	sigReq = reqSignature("ecdsa.Verify(request key, SHA-384(request contents), r, s)=true", tP384, req)
	ctx := `cat(u16(const:3), lit:"ClientBlind")`
	blinded := "extract<0>(call<ecdsa.BlindPublicKeyWithContext>(" + tP384 + ", " + pubKeyFrom(tP384, "param:3") + ", extract<0>(call<ecdsa.CreateKey>(" + tP384 + ", param:2)), " + ctx + "))"
	eqReq = CallReq{
		Desc:   "bytes.Equal(blinded client key, request key)=true",
		Callee: nmBytesEq,
		Check: func(t *Term) string {
			wantEnc := "call<crypto/elliptic.MarshalCompressed>(" + tP384 + ", " + blinded + ".X, " + blinded + ".Y)"
			a0, a1 := arg(t, 0), arg(t, 1)
			if a0.String() == req+".RequestKey" {
				a0, a1 = a1, a0
			}
			return firstNonEmpty(
				want("compared value", a0, wantEnc),
				want("other operand", a1, req+".RequestKey"),
			)
		},
	}
	return
}
