package main

// Constructors initialise what the protocol steps use: a struct-valued field
// whose zero value holds nil interfaces, nil pointers or nil funcs (a key with
// its cipher suite, a client with its curve) must be set by every composite
// literal that builds the holder, if the field is read anywhere in the module.
// Otherwise a holder fresh from its constructor hands a zero key to code that
// invokes methods on its interface fields - a nil dereference reachable from
// peer input. Literals with no elements at all (the "no value" result next to
// an error) are not constructors. Pointer- and interface-typed fields are not
// judged here (a nil check can guard them); embedded-by-value structs cannot
// be nil-checked.

import (
	"fmt"
	"go/ast"
	"go/types"
	"sort"
	"strings"

	"golang.org/x/tools/go/ssa"
)

// zeroHoldsNil: the zero value of t (a non-pointer struct, recursively)
// contains a nil interface, pointer, func, chan.
func zeroHoldsNil(t types.Type, depth int) bool {
	if depth > 4 {
		return false
	}
	st, ok := t.Underlying().(*types.Struct)
	if !ok {
		return false
	}
	if n, ok := t.(*types.Named); ok && n.Obj().Pkg() != nil && (n.Obj().Pkg().Path() == "sync" || n.Obj().Pkg().Path() == "sync/atomic" || n.Obj().Pkg().Path() == "math/big" || n.Obj().Pkg().Path() == "time") {
		return false // documented as ready to use when zero
	}
	for i := 0; i < st.NumFields(); i++ {
		ft := st.Field(i).Type()
		switch u := ft.Underlying().(type) {
		case *types.Interface, *types.Signature:
			return true
		case *types.Struct:
			if zeroHoldsNil(ft, depth+1) {
				return true
			}
		default:
			_ = u
		}
	}
	return false
}

func constructorsInitialiseUsedFields(p *Prog, r *Report, rule string) {
	type hf struct {
		holder *types.Named
		field  int
	}
	unset := map[hf]string{} // -> literal position
	nLits := 0
	for _, pkg := range p.Pkgs {
		if !strings.HasPrefix(pkg.PkgPath, modPath) {
			continue
		}
		for _, file := range pkg.Syntax {
			// fields assigned by name somewhere in the same function (x.f = ...)
			// count as set by that function's literals
			var assignedHere map[string]bool
			ast.Inspect(file, func(n ast.Node) bool {
				if fd, ok := n.(*ast.FuncDecl); ok {
					assignedHere = map[string]bool{}
					if fd.Body != nil {
						ast.Inspect(fd.Body, func(m ast.Node) bool {
							if as, ok := m.(*ast.AssignStmt); ok {
								for _, l := range as.Lhs {
									if se, ok := l.(*ast.SelectorExpr); ok {
										assignedHere[se.Sel.Name] = true
									}
								}
							}
							return true
						})
					}
					return true
				}
				cl, ok := n.(*ast.CompositeLit)
				if !ok || len(cl.Elts) == 0 {
					return true
				}
				tv, ok := pkg.TypesInfo.Types[cl]
				if !ok {
					return true
				}
				named, ok := tv.Type.(*types.Named)
				if !ok || named.Obj().Pkg() == nil || !strings.HasPrefix(named.Obj().Pkg().Path(), modPath) {
					return true
				}
				st, ok := named.Underlying().(*types.Struct)
				if !ok {
					return true
				}
				nLits++
				set := map[string]bool{}
				positional := false
				for _, e := range cl.Elts {
					if kv, ok := e.(*ast.KeyValueExpr); ok {
						if id, ok := kv.Key.(*ast.Ident); ok {
							set[id.Name] = true
						}
					} else {
						positional = true
					}
				}
				if positional {
					return true
				}
				for i := 0; i < st.NumFields(); i++ {
					f := st.Field(i)
					if set[f.Name()] || assignedHere[f.Name()] {
						continue
					}
					if _, isStruct := f.Type().Underlying().(*types.Struct); isStruct && zeroHoldsNil(f.Type(), 0) {
						unset[hf{named, i}] = p.Pos(cl.Pos())
					}
				}
				return true
			})
		}
	}
	// is the field read anywhere?
	var bad []string
	for k, at := range unset {
		readAt := ""
		for _, fn := range p.ModuleFuncs() {
			for _, b := range fn.Blocks {
				for _, in := range b.Instrs {
					switch x := in.(type) {
					case *ssa.FieldAddr:
						pt, ok := x.X.Type().Underlying().(*types.Pointer)
						if !ok || !types.Identical(pt.Elem(), k.holder) || x.Field != k.field {
							continue
						}
						for _, u := range *x.Referrers() {
							if st, isStore := u.(*ssa.Store); isStore && st.Addr == ssa.Value(x) {
								continue
							}
							readAt = p.InstrPos(u)
						}
					case *ssa.Field:
						if types.Identical(x.X.Type(), k.holder) && x.Field == k.field {
							readAt = p.InstrPos(x)
						}
					}
				}
			}
		}
		if readAt != "" {
			st := k.holder.Underlying().(*types.Struct)
			bad = append(bad, fmt.Sprintf("%s.%s is read at %s but the constructor literal at %s leaves it zero; its zero value holds nil interfaces", k.holder.Obj().Name(), st.Field(k.field).Name(), readAt, at))
		}
	}
	sort.Strings(bad)
	r.Check(len(bad) == 0 && nLits > 0, rule, "constructors set every embedded struct whose zero value holds nil interfaces", "-", fmt.Sprintf("%d constructing literals of module struct types examined", nLits), firstNonEmpty(strings.Join(bad, "; "), "no composite literal found"))
}
