package main

// C05 - generic batch issuance keeps order and count and isolates failures.

import (
	"fmt"
	"go/token"
	"strings"

	"golang.org/x/tools/go/ssa"
)

func init() { props["C05"] = c05 }

func isEmptyBytes(s *Sym, v ssa.Value) bool {
	if isNilConst(v) {
		return true
	}
	t := s.Of(v).String()
	return t == "cat()" || t == "make(const:0)" || t == "const:nil"
}

func c05(p *Prog, r *Report) {
	r.Explanation = "Slot/index discipline of BasicBatchedIssuer.EvaluateBatch decided on SSA: one response slot per request (make(len(requests))), written only at the request loop's own index, only with an empty value or the result of issuer.Evaluate(request) on the err == nil edge, for an issuer taken from the list registered under the request's own Type() whose key id's last byte equals the request's truncated key id; a failing issuer leaves the inner loop running (next matching issuer is tried) and nothing in the request loop returns, panics or touches another slot; the emit loop writes exactly one status byte per slot, present (1 || type || response) exactly when the slot is non-empty, with the same index throughout; the response decoder mirrors that layout (shared with C04); and each basic issuer's Evaluate succeeds only behind the success edges of its decode and evaluation steps with no error result dropped."
	r.NotDecided = "that a present entry finalizes to a valid token (C01/C02), that a successful Evaluate never returns an empty response (dependency), behaviour of user-supplied Issuer implementations."
	r.Assumptions = append(r.Assumptions, "issuers registered are the repository's basic issuers or behave like them (non-empty response on success)")
	r.Trusted = append(r.Trusted, "go/ssa dominators and natural loops", "term evaluator of this checker")
	const R1 = "C05.one-slot-per-request-same-index"
	const R2 = "C05.slot-sources"
	const R3 = "C05.isolation"
	const R4 = "C05.issuer-lookup"
	const R5 = "C05.issuer-evaluate-error-discipline"
	const R6 = "C05.every-issuer-registered"
	const R7 = "C05.iteration-independence"
	r.Rule(R1, "responses = make(len(requests)); slot stores use the request loop index; emit loop writes one status byte per slot with present <=> non-empty slot, same index throughout; decoder mirrors the layout", 5)
	r.Rule(R2, "values stored into a slot are empty or issuer.Evaluate(request)'s first result on the err == nil edge", 1)
	r.Rule(R3, "no return/panic inside the request loop; a failing issuer does not end the search (control returns to the issuer loop)", 2)
	r.Rule(R4, "issuer list = i.issuers[request.Type()]; key match = request.TruncatedTokenKeyID() vs last byte of that issuer's TokenKeyID(); the matched issuer evaluates the current request", 3)
	r.Rule(R7, "no condition guarding issuer.Evaluate inside the request loop reads state written by another iteration (non-induction loop phi, or a map/slice/cell allocated outside the loop and stored to inside it; the iteration's own slot excepted)", 1)
	r.Rule(R6, "the batch issuer's constructor registers each issuer argument under issuer.Type() on every iteration (none is dropped)", 1)
	const R8 = "C05.varint-length-prefixes-exact"
	r.Rule(R8, "the response list's QUIC-varint length prefix: encoder and decoder are exact inverses with the shortest form (the rules of C19, one obligation per rule)", 5)
	c19AsSubRule(p, r, R8)
	r.Rule(R5, "type1/type2 issuer Evaluate: success only behind the success edges of decode, evaluate and encode steps; every error result is branched on or returned", 7)

	fn := anchor(p, r, R1, "(~/tokens/batched.BasicBatchedIssuer).EvaluateBatch")
	if fn == nil {
		return
	}
	r.List("functions", shortName(fn))
	s := p.NewSym(fn)
	loops := naturalLoops(fn)

	// responses slice
	var resp *ssa.MakeSlice
	for _, b := range fn.Blocks {
		for _, in := range b.Instrs {
			if ms, ok := in.(*ssa.MakeSlice); ok && strings.HasSuffix(ms.Type().String(), "[][]byte") {
				resp = ms
			}
		}
	}
	if resp == nil {
		r.Fail(R1, "responses slice", p.Pos(fn.Pos()), "no [][]byte response slot slice allocated")
		return
	}
	r.Check(s.Of(resp.Len).String() == "len(param:1.token_requests)", R1, "one slot per request", p.InstrPos(resp), "make([][]byte, len(req.token_requests))", "slots allocated with length "+s.Of(resp.Len).String()+", required len(req.token_requests)")

	// Two accepted shapes of the per-request step: (A) written inline in the
	// request loop; (B) moved into an in-module helper H(request) []byte called
	// from the loop, whose returns are the slot value.
	evals := sitesIn(fn, func(n string) bool { return strings.HasSuffix(n, "batched.Issuer).Evaluate") })
	var (
		ev      *ssa.Call     // the issuer.Evaluate call
		es      *Sym          // evaluator of the function containing ev
		efn     *ssa.Function // that function
		reqIdx  string        // slot index term (in fn)
		wantReq string        // term of the request evaluated
		outer   *Loop         // request loop (in fn)
		probs   []string
		nStores int
	)
	slotStores := func() []*ssa.Store {
		var out []*ssa.Store
		for _, b := range fn.Blocks {
			for _, in := range b.Instrs {
				if st, ok := in.(*ssa.Store); ok {
					if ia, ok := st.Addr.(*ssa.IndexAddr); ok && ia.X == ssa.Value(resp) {
						out = append(out, st)
					}
				}
			}
		}
		return out
	}
	for _, st := range slotStores() {
		idx := s.Of(st.Addr.(*ssa.IndexAddr).Index).String()
		if reqIdx == "" {
			reqIdx = idx
		} else if reqIdx != idx {
			probs = append(probs, "slot stores use different indices: "+reqIdx+" vs "+idx)
		}
	}
	wantReq = "index(param:1.token_requests, " + reqIdx + ")"
	var helperCall *ssa.Call
	switch {
	case len(evals) == 1:
		ev, es, efn = evals[0].(*ssa.Call), s, fn
	case len(evals) == 0:
		for _, st := range slotStores() {
			c, ok := st.Val.(*ssa.Call)
			if !ok {
				continue
			}
			h := c.Call.StaticCallee()
			if h == nil || !InModule(h) || h.Blocks == nil {
				continue
			}
			hev := sitesIn(h, func(n string) bool { return strings.HasSuffix(n, "batched.Issuer).Evaluate") })
			if len(hev) != 1 {
				continue
			}
			hs := s.child(h)
			for i, prm := range h.Params {
				if i < len(c.Call.Args) {
					hs.params[prm] = s.Of(c.Call.Args[i])
				}
			}
			ev, es, efn, helperCall = hev[0].(*ssa.Call), hs, h, c
		}
	}
	if ev == nil {
		r.Fail(R2, "one issuer.Evaluate call", p.Pos(fn.Pos()), fmt.Sprintf("found %d in EvaluateBatch and no per-request helper containing exactly one", len(evals)))
		return
	}
	eloops := naturalLoops(efn)
	inner := innermostLoop(eloops, ev.Block())
	if helperCall == nil {
		for _, l := range loops {
			if l.Blocks[ev.Block()] && inner != nil && l != inner && len(l.Blocks) > len(inner.Blocks) {
				if outer == nil || len(l.Blocks) < len(outer.Blocks) {
					outer = l
				}
			}
		}
	} else {
		outer = innermostLoop(loops, helperCall.Block())
	}
	if inner == nil || outer == nil {
		r.Fail(R3, "request loop and issuer loop", p.InstrPos(ev), "issuer.Evaluate is not inside an issuer loop nested in (or called from) the request loop")
		return
	}

	// slot stores
	for _, st := range slotStores() {
		nStores++
		if !outer.Blocks[st.Block()] {
			probs = append(probs, "slot store outside the request loop at "+p.InstrPos(st))
		}
		if isEmptyBytes(s, st.Val) {
			continue
		}
		if helperCall != nil {
			if st.Val != ssa.Value(helperCall) {
				probs = append(probs, "slot store at "+p.InstrPos(st)+" stores "+clip(s.Of(st.Val).String(), 160)+", neither empty nor the per-request result")
			}
			continue
		}
		ex, isEx := st.Val.(*ssa.Extract)
		if !isEx || ex.Tuple != ssa.Value(ev) || ex.Index != 0 {
			probs = append(probs, "slot store at "+p.InstrPos(st)+" stores "+clip(s.Of(st.Val).String(), 160)+", neither empty nor the result of issuer.Evaluate")
			continue
		}
		if !s.factsHaveCallSuccess(st.Block(), ev) {
			probs = append(probs, "slot store at "+p.InstrPos(st)+" is not behind err == nil of issuer.Evaluate")
		}
	}
	if helperCall != nil {
		// every value the helper returns is empty or Evaluate's result on err == nil
		for _, rp := range es.ff.RetPoints(-1) {
			if len(rp.Vals) != 1 {
				probs = append(probs, "the per-request helper does not return exactly the slot value")
				continue
			}
			v := rp.Vals[0]
			if isEmptyBytes(es, v) {
				continue
			}
			ex, isEx := v.(*ssa.Extract)
			if !isEx || ex.Tuple != ssa.Value(ev) || ex.Index != 0 {
				probs = append(probs, "per-request helper returns "+clip(es.Of(v).String(), 160)+" at "+p.Pos(rp.Ret.Pos())+", neither empty nor the result of issuer.Evaluate")
				continue
			}
			okS := false
			for _, a := range rp.Facts {
				if cc, ok, succ := callOfAtom(a); ok && succ && cc == ev {
					okS = true
				}
			}
			if !okS {
				probs = append(probs, "per-request helper returns the Evaluate result at "+p.Pos(rp.Ret.Pos())+" without err == nil")
			}
		}
	}
	r.Check(len(probs) == 0 && nStores > 0, R2, "slot sources", p.InstrPos(resp), fmt.Sprintf("%d stores: empty or Evaluate result on err == nil, index %s", nStores, clip(reqIdx, 80)), strings.Join(probs, "; "))

	// the index is the request loop's: the request evaluated is requests[idx]
	evT := es.callTerm(ev)
	reqArg := arg(evT, 1).String()
	r.Check(reqArg == wantReq, R1, "slot index = index of the request evaluated", p.InstrPos(ev), wantReq, "issuer evaluates "+clip(reqArg, 200)+" but the slot written is #"+clip(reqIdx, 80))

	// R4 lookup
	issuerT := arg(evT, 0).String()
	list := "extract<0>(lookup(param:0.issuers, call<(tokens.TokenRequestWithDetails).Type>(" + wantReq + ")))"
	if list2 := "lookup(param:0.issuers, call<(tokens.TokenRequestWithDetails).Type>(" + wantReq + "))"; glob("index("+list2+", *)", issuerT) {
		list = list2 // plain lookup: a missing type yields a nil list, over which the issuer loop does not iterate
	}
	r.Check(glob("index("+list+", *)", issuerT), R4, "issuer comes from the list registered under the request's type", p.InstrPos(ev), "i.issuers[req.Type()][k]", "issuer is "+clip(issuerT, 300)+", required an element of "+list)
	keyOK := false
	for _, a := range es.ff.At(ev.Block()) {
		if a.Kind != Truth {
			continue
		}
		bo, ok := a.V.(*ssa.BinOp)
		if !ok {
			continue
		}
		eq := (bo.Op == token.NEQ && !a.Pol) || (bo.Op == token.EQL && a.Pol)
		if !eq {
			continue
		}
		x, y := es.Of(bo.X).String(), es.Of(bo.Y).String()
		kid := "call<(tokens/batched.Issuer).TokenKeyID>(" + issuerT + ")"
		last := "index(" + kid + ", bin<->(len(" + kid + "), const:1))"
		trunc := "call<(tokens.TokenRequestWithDetails).TruncatedTokenKeyID>(" + wantReq + ")"
		if (x == trunc && y == last) || (y == trunc && x == last) {
			keyOK = true
		}
	}
	r.Check(keyOK, R4, "Evaluate only behind truncated key id == last byte of the issuer's key id", p.InstrPos(ev), "req.TruncatedTokenKeyID() == issuerKey[len(issuerKey)-1]", "issuer.Evaluate is reachable without the comparison of the request's truncated key id with the LAST byte of this issuer's TokenKeyID()")
	// unsupported type: Evaluate is behind ok=true of the lookup, or the loop
	// ranges over the looked-up list (a missing type gives a nil list: no iteration)
	okLookup := false
	for _, a := range es.ff.At(ev.Block()) {
		if a.Kind == Truth && a.Pol {
			if ex, ok := a.V.(*ssa.Extract); ok && ex.Index == 1 {
				if lk, ok := ex.Tuple.(*ssa.Lookup); ok && "extract<0>("+es.Of(lk).String()+")" == list {
					okLookup = true
				}
			}
		}
	}
	if !okLookup && glob("index("+list+", *)", issuerT) {
		okLookup = true // the issuer is an element of the looked-up list: an absent type has no elements
	}
	r.Check(okLookup, R4, "unsupported type: lookup ok=false leaves the slot empty", p.InstrPos(ev), "Evaluate only for an element of i.issuers[req.Type()]", "issuer.Evaluate is not behind ok=true of i.issuers[req.Type()]")

	// R3 isolation
	bad := ""
	for b := range outer.Blocks {
		for _, in := range b.Instrs {
			switch in.(type) {
			case *ssa.Return, *ssa.Panic:
				bad = p.InstrPos(in)
			}
		}
	}
	if helperCall != nil {
		for _, b := range efn.Blocks {
			for _, in := range b.Instrs {
				if _, ok := in.(*ssa.Panic); ok {
					bad = p.InstrPos(in)
				}
			}
		}
	}
	r.Check(bad == "", R3, "no return/panic inside the request loop", p.Pos(fn.Pos()), "request loop has no exit other than its end", "a return or panic at "+bad+" is inside the request loop: one failing request aborts the batch")
	// err != nil edge stays in the issuer loop
	cont := false
	for _, ref := range *ev.Referrers() {
		ex, ok := ref.(*ssa.Extract)
		if !ok || ex.Index != 1 {
			continue
		}
		for _, rr := range *ex.Referrers() {
			bo, ok := rr.(*ssa.BinOp)
			if !ok {
				continue
			}
			for _, r3 := range *bo.Referrers() {
				ifi, ok := r3.(*ssa.If)
				if !ok {
					continue
				}
				a := normCond(ifi.Cond, true)
				// edge where err != nil
				var failSucc *ssa.BasicBlock
				if a.Kind == IsNil {
					if a.Pol {
						failSucc = ifi.Block().Succs[1]
					} else {
						failSucc = ifi.Block().Succs[0]
					}
				}
				if failSucc != nil && reachesWithin(failSucc, ev.Block(), inner.Blocks, nil) {
					cont = true
				}
			}
		}
	}
	r.Check(cont, R3, "a failing issuer does not end the search", p.InstrPos(ev), "err != nil edge returns to the issuer loop", "after issuer.Evaluate fails control cannot reach another issuer of the list: a later matching issuer is never tried")

	// R7: whether a request is evaluated depends on that request alone
	{
		own := func(addr ssa.Value) bool {
			ia, ok := addr.(*ssa.IndexAddr)
			return ok && ia.X == ssa.Value(resp) && s.Of(ia.Index).String() == reqIdx
		}
		var guards []Atom
		where := ev.Block()
		if helperCall != nil {
			where = helperCall.Block()
		}
		guards = append(guards, s.ff.At(where)...)
		nG, carried := 0, ""
		for _, a := range guards {
			in, ok := a.V.(ssa.Instruction)
			if !ok || !outer.Blocks[in.Block()] {
				// a condition computed outside the loop is the same for every request
				if ph, isPhi := a.V.(*ssa.Phi); !isPhi || !outer.Blocks[ph.Block()] {
					continue
				}
			}
			nG++
			if w := loopCarried(p, a.V, outer, own); w != "" && carried == "" {
				carried = w
			}
		}
		if helperCall != nil && carried == "" {
			if w := loopCarried(p, helperCall, outer, own); w != "" {
				carried = "per-request helper argument: " + w
			}
		}
		r.Check(carried == "", R7, "guards of issuer.Evaluate depend on the current request only", p.InstrPos(ev), fmt.Sprintf("%d guards inside the request loop, none reads loop-carried state", nG), "whether this request is evaluated depends on "+carried+": an earlier (failing) request can change the entry of a later one")
	}

	// R6: the constructor registers every issuer it is given under the issuer's
	// own token type - no iteration of its loop may skip the registration
	if ctor := anchor(p, r, R6, "~/tokens/batched.NewBasicBatchedIssuer"); ctor != nil {
		cs := p.NewSym(ctor)
		var regs []*ssa.MapUpdate
		for _, b := range ctor.Blocks {
			for _, in := range b.Instrs {
				if mu, ok := in.(*ssa.MapUpdate); ok {
					if ap, ok := mu.Value.(*ssa.Call); ok {
						if bi, ok := ap.Call.Value.(*ssa.Builtin); ok && bi.Name() == "append" {
							regs = append(regs, mu)
						}
					}
				}
			}
		}
		okReg, why := len(regs) == 1, fmt.Sprintf("found %d registration sites (issuers[type] = append(issuers[type], issuer))", len(regs))
		var viaHelper *ssa.Call
		if len(regs) == 0 {
			// the registration may live in a helper the loop calls with the current
			// issuer: the helper must register its parameter under the parameter's
			// own Type() before every return
			for _, b := range ctor.Blocks {
				for _, in := range b.Instrs {
					c, ok := in.(*ssa.Call)
					if !ok {
						continue
					}
					h := c.Call.StaticCallee()
					if h == nil || h.Blocks == nil || !InModule(h) {
						continue
					}
					hs := p.NewSym(h)
					for _, hb := range h.Blocks {
						for _, hin := range hb.Instrs {
							mu, ok := hin.(*ssa.MapUpdate)
							if !ok {
								continue
							}
							ap, ok := mu.Value.(*ssa.Call)
							if !ok {
								continue
							}
							if bi, ok := ap.Call.Value.(*ssa.Builtin); !ok || bi.Name() != "append" {
								continue
							}
							el, key := hs.Of(ap.Call.Args[1]).String(), hs.Of(mu.Key).String()
							for i := range h.Params {
								prm := fmt.Sprintf("param:%d", i)
								if !(el == "list("+prm+")" || el == prm) || key != "call<(tokens/batched.Issuer).Type>("+prm+")" || i >= len(c.Call.Args) {
									continue
								}
								dom := true
								for _, rb := range h.Blocks {
									if _, isRet := rb.Instrs[len(rb.Instrs)-1].(*ssa.Return); isRet && rb != mu.Block() && !mu.Block().Dominates(rb) {
										dom = false
									}
								}
								if dom && glob("*index(param:0, *)*", cs.Of(c.Call.Args[i]).String()) {
									viaHelper = c
								}
							}
						}
					}
				}
			}
			if viaHelper != nil {
				okReg, why = true, ""
				loop := innermostLoop(naturalLoops(ctor), viaHelper.Block())
				if loop == nil {
					okReg, why = false, "the registration is not inside the loop over the issuers"
				} else {
					for blk := range loop.Blocks {
						for _, su := range blk.Succs {
							if su == loop.Header && !viaHelper.Block().Dominates(blk) && blk != viaHelper.Block() {
								okReg, why = false, "an iteration can reach the next one without registering the issuer (skip/continue before the registration at "+p.InstrPos(viaHelper)+")"
							}
						}
					}
				}
			}
		}
		if okReg && viaHelper == nil {
			mu := regs[0]
			ap := mu.Value.(*ssa.Call)
			el := cs.Of(ap.Call.Args[1]).String()
			key := cs.Of(mu.Key).String()
			loop := innermostLoop(naturalLoops(ctor), mu.Block())
			switch {
			case loop == nil:
				okReg, why = false, "the registration is not inside the loop over the issuers"
			case !glob("list(index(param:0, *))", el) && !glob("*index(param:0, *)*", el):
				okReg, why = false, "the value appended is "+clip(el, 160)+", not the current element of the issuers argument"
			case !glob("call<(tokens/batched.Issuer).Type>(index(param:0, *))", key):
				okReg, why = false, "registered under "+clip(key, 160)+", required the issuer's own Type()"
			default:
				// every path through one iteration performs the registration: the
				// update's block dominates every back edge of the loop
				for blk := range loop.Blocks {
					for _, su := range blk.Succs {
						if su == loop.Header && !mu.Block().Dominates(blk) && blk != mu.Block() {
							okReg, why = false, "an iteration can reach the next one without registering the issuer (skip/continue before the registration at "+p.InstrPos(mu)+")"
						}
					}
				}
			}
		}
		r.Check(okReg, R6, "NewBasicBatchedIssuer registers every issuer under its own type", p.Pos(ctor.Pos()), "issuers[issuer.Type()] = append(..., issuer) on every iteration", why)
	}

	// emit layout + decoder (shared with C04)
	ne1, _ := p.constInt("~/tokens/type1", "Ne")
	nk1, _ := p.constInt("~/tokens/type1", "Nk")
	nk2, _ := p.constInt("~/tokens/type2", "Nk")
	c04BatchResponses(p, r, R1, ne1, nk1, nk2)

	// R5: basic issuers
	t1 := anchor(p, r, R5, "(~/tokens/type1.BasicPrivateIssuer).Evaluate")
	if t1 != nil {
		r.List("functions", shortName(t1))
		p.RequireOnSuccess(r, R5, t1, CallReq{Desc: "element.UnmarshalBinary(req.BlindedReq) ok", Callee: "(github.com/cloudflare/circl/group.Element).UnmarshalBinary", Check: func(t *Term) string {
			return want("decoded bytes", arg(t, 1), "param:1.BlindedReq")
		}})
		p.RequireOnSuccess(r, R5, t1, CallReq{Desc: "server.Evaluate(request) ok", Callee: "(github.com/cloudflare/circl/oprf.VerifiableServer).Evaluate"})
		p.RequireOnSuccess(r, R5, t1, CallReq{Desc: "evaluated element MarshalBinaryCompress ok", Callee: "(github.com/cloudflare/circl/oprf.Evaluated).MarshalBinaryCompress"})
		p.RequireOnSuccess(r, R5, t1, CallReq{Desc: "proof.MarshalBinary ok", Callee: "(*github.com/cloudflare/circl/zk/dleq.Proof).MarshalBinary"})
		errorsChecked(p, r, R5, t1)
	}
	t2 := anchor(p, r, R5, "(~/tokens/type2.BasicPublicIssuer).Evaluate")
	if t2 != nil {
		r.List("functions", shortName(t2))
		p.RequireOnSuccess(r, R5, t2, CallReq{Desc: "signer.BlindSign(req.BlindedReq) ok", Callee: nmBlindSign, Check: func(t *Term) string {
			return want("blinded message", arg(t, 1), "param:1.BlindedReq")
		}})
		errorsChecked(p, r, R5, t2)
	}
}

// errorsChecked: every call in fn that yields an error has that error branched
// on (nil test feeding an If) or returned.
func errorsChecked(p *Prog, r *Report, rule string, fn *ssa.Function) {
	var bad []string
	n := 0
	for _, b := range fn.Blocks {
		for _, in := range b.Instrs {
			c, ok := in.(*ssa.Call)
			if !ok {
				continue
			}
			res := c.Call.Signature().Results()
			for i := 0; i < res.Len(); i++ {
				if !isErrorType(res.At(i).Type()) {
					continue
				}
				n++
				var ev ssa.Value = c
				if res.Len() > 1 {
					ev = nil
					for _, ref := range *c.Referrers() {
						if ex, ok := ref.(*ssa.Extract); ok && ex.Index == i {
							ev = ex
						}
					}
				}
				used := false
				if ev != nil {
					for _, ref := range *ev.Referrers() {
						switch x := ref.(type) {
						case *ssa.Return:
							used = true
						case *ssa.BinOp:
							for _, rr := range *x.Referrers() {
								if _, ok := rr.(*ssa.If); ok {
									used = true
								}
							}
						case *ssa.Phi:
							used = true
						}
					}
				}
				if !used {
					bad = append(bad, calleeName(c.Common())+" at "+p.InstrPos(c))
				}
			}
		}
	}
	r.Check(len(bad) == 0, rule, shortName(fn)+": no error result dropped", p.Pos(fn.Pos()), fmt.Sprintf("%d error results, all branched on or returned", n), "error result never inspected (dropped or overwritten before any check): "+strings.Join(bad, "; "))
}
