package main

// C10 - issuer-side token verification accepts exactly the tokens it issued.

func init() { props["C10"] = c10 }

const authInputOf = "cat(u16(%s.TokenType), %s.Nonce, %s.Context, %s.KeyID)"

func authInput(tok string) string {
	return "cat(u16(" + tok + ".TokenType), " + tok + ".Nonce, " + tok + ".Context, " + tok + ".KeyID)"
}

func c10(p *Prog, r *Report) {
	r.Explanation = "Guard dominance on SSA with symbolic bindings: every non-failing return of the type-1 and type-5 issuers' Verify is dominated by bytes.Equal(out, token.Authenticator)=true where out is the checked result of VerifiableServer.FullEvaluate, under the issuer's own key and the package's own suite constant, of type||nonce||context||key id rebuilt from the token's own four fields; both operands are whole values (no slicing, bytes.Equal compares lengths)."
	r.NotDecided = "that changing any input bit changes the VOPRF output (PRF property of the dependency); correctness of circl's FullEvaluate."
	r.Assumptions = append(r.Assumptions, "circl oprf FullEvaluate computes the VOPRF of its input under the given key and suite", "bytes.Equal compares full lengths (std)")
	r.Trusted = append(r.Trusted, "go/types, go/ssa dominators", "term evaluator of this checker")
	const R1 = "C10.full-prf-comparison-dominates-accept"
	const R2 = "C10.evaluation-error-checked"
	r.Rule(R1, "every success return of Verify is dominated by bytes.Equal(FullEvaluate(NewVerifiableServer(suite, own key), type||nonce||context||keyid), token.Authenticator)=true with whole-value operands", 2)
	r.Rule(R2, "every success return of Verify is dominated by FullEvaluate's error being nil", 2)

	for _, c := range []struct{ fn, suite string }{
		{"(~/tokens/type1.BasicPrivateIssuer).Verify", "SuiteP384"},
		{"(~/tokens/type5.BatchedPrivateIssuer).Verify", "SuiteRistretto255"},
	} {
		fn := anchor(p, r, R1, c.fn)
		if fn == nil {
			continue
		}
		r.List("functions", shortName(fn))
		server := "call<github.com/cloudflare/circl/oprf.NewVerifiableServer>(load(global:github.com/cloudflare/circl/oprf." + c.suite + "), param:0.tokenKey)"
		full := "call<(github.com/cloudflare/circl/oprf.VerifiableServer).FullEvaluate>(" + server + ", " + authInput("param:1") + ")"
		eq := CallReq{
			Desc:   "bytes.Equal(FullEvaluate(own key, token input), token.Authenticator)=true",
			Callee: nmBytesEq,
			Check: func(t *Term) string {
				a0, a1 := arg(t, 0), arg(t, 1)
				if a0.String() == "param:1.Authenticator" {
					a0, a1 = a1, a0
				}
				return firstNonEmpty(
					want("PRF output operand", a0, "extract<0>("+full+")"),
					want("authenticator operand", a1, "param:1.Authenticator"),
				)
			},
		}
		p.RequireOnSuccess(r, R1, fn, eq)
		ev := CallReq{
			Desc:   "FullEvaluate(own key, token input) err == nil",
			Callee: "(github.com/cloudflare/circl/oprf.VerifiableServer).FullEvaluate",
			Check: func(t *Term) string {
				return firstNonEmpty(want("server", arg(t, 0), server), want("input", arg(t, 1), authInput("param:1")))
			},
		}
		p.RequireOnSuccess(r, R2, fn, ev)
	}
}
