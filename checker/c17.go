package main

// C17 - issuers, verifiers and keys can be shared between goroutines.
// C16 - operations have no hidden side effects on caller-visible memory.
// Both are queries over the may-write summaries of effects.go.

import (
	"fmt"
	"go/ast"
	"go/token"
	"go/types"
	"sort"
	"strings"

	"golang.org/x/tools/go/ssa"
)

func init() {
	props["C17"] = c17
	props["C16"] = c16
	propConfigs["C16"] = []string{"386", "arm64"}
	propConfigs["C17"] = []string{"386", "arm64"}
}

var c17Entries = []string{
	"(~/tokens/type1.BasicPrivateIssuer).Evaluate", "(~/tokens/type1.BasicPrivateIssuer).Verify", "(*~/tokens/type1.BasicPrivateIssuer).TokenKey", "(*~/tokens/type1.BasicPrivateIssuer).TokenKeyID", "(~/tokens/type1.BasicPrivateIssuer).Type",
	"(~/tokens/type2.BasicPublicIssuer).Evaluate", "(*~/tokens/type2.BasicPublicIssuer).TokenKey", "(*~/tokens/type2.BasicPublicIssuer).TokenKeyID", "(~/tokens/type2.BasicPublicIssuer).Type",
	"(~/tokens/type3.RateLimitedIssuer).Evaluate", "(*~/tokens/type3.RateLimitedIssuer).TokenKey", "(*~/tokens/type3.RateLimitedIssuer).TokenKeyID", "(*~/tokens/type3.RateLimitedIssuer).NameKey", "(~/tokens/type3.RateLimitedIssuer).Type",
	"(~/tokens/type5.BatchedPrivateIssuer).Evaluate", "(~/tokens/type5.BatchedPrivateIssuer).Verify", "(*~/tokens/type5.BatchedPrivateIssuer).TokenKey", "(*~/tokens/type5.BatchedPrivateIssuer).TokenKeyID", "(~/tokens/type5.BatchedPrivateIssuer).Type",
	"(~/tokens/batched.BasicBatchedIssuer).EvaluateBatch",
	"~/ecdsa.Sign", "~/ecdsa.SignASN1", "~/ecdsa.Verify", "~/ecdsa.VerifyASN1", "~/ecdsa.BlindPublicKey", "~/ecdsa.BlindPublicKeyWithContext", "~/ecdsa.UnblindPublicKey", "~/ecdsa.UnblindPublicKeyWithContext", "~/ecdsa.BlindKeySign", "~/ecdsa.BlindKeySignWithContext",
	"(*~/ecdsa.PrivateKey).Sign", "(*~/ecdsa.PrivateKey).Public", "(*~/ecdsa.PrivateKey).Equal", "(*~/ecdsa.PublicKey).Equal",
	"~/ed25519.Sign", "~/ed25519.Verify", "~/ed25519.BlindPublicKey", "~/ed25519.BlindPublicKeyWithContext", "~/ed25519.UnblindPublicKey", "~/ed25519.UnblindPublicKeyWithContext", "~/ed25519.BlindKeySign", "~/ed25519.BlindKeySignWithContext",
	"(~/ed25519.PrivateKey).Sign", "(~/ed25519.PrivateKey).Public", "(~/ed25519.PrivateKey).Seed", "(~/ed25519.PrivateKey).Equal", "(~/ed25519.PublicKey).Equal",
}

// sharedParam: is parameter i of fn a shared root (receiver or key object).
func sharedParam(fn *ssa.Function, i int) bool {
	if i == 0 && fn.Signature.Recv() != nil {
		return true
	}
	t := fn.Params[i].Type()
	if p, ok := t.Underlying().(*types.Pointer); ok {
		t = p.Elem()
	}
	n, ok := t.(*types.Named)
	if !ok {
		return false
	}
	full := n.Obj().Pkg().Path() + "." + n.Obj().Name()
	switch full {
	case modPath + "/ecdsa.PrivateKey", modPath + "/ecdsa.PublicKey", modPath + "/ed25519.PrivateKey", modPath + "/ed25519.PublicKey", "crypto/elliptic.Curve":
		return true
	}
	return false
}

// effectException: a reviewed report of the effect analysis that does not
// correspond to a write of shared memory. Keyed by entry function, root and
// the function containing the writing instruction; one line of reason each.
type effectException struct{ entry, root, siteFn, reason string }

var c17Exceptions = []effectException{
	{"(tokens/type5.BatchedPrivateIssuer).Evaluate", "D0.tokenKey", "(*circl/group.wElt).MarshalBinaryCompress",
		"call-graph conflation: the key's element is dispatched through the group.Element interface and VTA cannot tell that a type-5 (ristretto255) key never holds the P-384 implementation wElt; ristretto elements serialise without mutation (confirmed once with the race detector: 8 goroutines, no report)"},
	{"(*tokens/type5.BatchedPrivateIssuer).TokenKeyID", "D0.tokenKey", "(*circl/group.wElt).MarshalBinaryCompress",
		"same conflation as above for the key-id serialisation of a ristretto255 key"},
	{"(tokens/type1.BasicPrivateIssuer).Evaluate", "G:github.com/cloudflare/circl/group.P384", "(*circl/group.wElt).MarshalBinaryCompress",
		"the elements normalised here are the per-call request/evaluation/commitment elements (fresh); they reach the group descriptor global only because element content is summarised field-insensitively once stored in a slice; the generator (which does alias the curve's Gx,Gy) is never serialised by the DLEQ prover; two independent issuers evaluating concurrently show no race"},
	{"(tokens/type1.BasicPrivateIssuer).Evaluate", "G:github.com/cloudflare/circl/oprf.SuiteP384", "(*circl/group.wElt).MarshalBinaryCompress",
		"same as above, with the descriptor reached through the suite constant"},
	{"(tokens/type5.BatchedPrivateIssuer).Evaluate", "G:github.com/cloudflare/circl/oprf.SuiteRistretto255", "(*circl/group.wElt).MarshalBinaryCompress",
		"call-graph conflation (ristretto255 never instantiates wElt) combined with the slice summarisation above; 8 goroutines on one type-5 issuer: no race reported"},
}

func c17(p *Prog, r *Report) {
	r.Explanation = "May-write effect analysis (parameter-sensitive, one-level field-sensitive, bottom-up summaries over pat-go and third-party bodies, reviewed table for the standard library): for every concurrent entry point - issuers' Evaluate/Verify/TokenKey/TokenKeyID/Type/NameKey, EvaluateBatch, and the ECDSA and Ed25519 signing, verification, blinding and key methods - no store, copy, append-in-place or map update may reach memory designated by, or reachable from, a shared root (the receiver and every key-typed parameter), nor any package-level variable outside a sync.Once.Do closure. No write to shared state implies no data race among these calls, and each result depends only on immutable shared state, per-call arguments and per-call entropy. Two exemptions are computed, not listed: writes inside sync.Once.Do, and the constructor-forced lazy field (a store x.f guarded by x.f == nil in a method that every pat-go constructor capturing x calls first)."
	r.NotDecided = "races inside the standard library beyond its documented guarantees; the user-supplied ClientStateCache; AddOrigin concurrent with Evaluate (not claimed by the property); linearizability of results beyond 'function of immutable state and own arguments'."
	r.Assumptions = append(r.Assumptions, "standard-library functions write only what the reviewed table says (documented contracts: math/big writes its receiver, hash.Hash its receiver, io.ReadFull its buffer, ...)", "crypto/rand.Reader and std crypto primitives are safe for concurrent use as documented", "objects are built by their constructors")
	r.Trusted = append(r.Trusted, "go/ssa, VTA call graph (x/tools v0.29.0) with sync.Once.Do resolved at the site", "effects.go of this checker", "the reviewed exception table (printed in the evidence)")
	const R1 = "C17.no-write-to-shared-state"
	const R2 = "C17.entry-points-resolve"
	const R3 = "C17.results-do-not-alias-shared-buffers"
	r.Rule(R1, "for each concurrent entry point: no may-write to memory of/reachable from the receiver or a key parameter, and none to a package-level variable, except Once-protected or constructor-forced lazy initialisation", len(c17Entries))
	r.Rule(R2, "every listed entry point exists", 1)
	r.Rule(R3, "no result of a concurrent entry point aliases mutable package-level state (pooled/cached buffers)", len(c17Entries))

	e := p.Effects()
	r.Count("functions_summarised", e.Stats.Funcs)
	r.Count("summary_iterations", e.Stats.Iter)
	for _, ex := range c17Exceptions {
		r.List("reviewed_exceptions", ex.entry+" | "+ex.root+" | "+ex.siteFn+" : "+ex.reason)
	}
	missing := 0
	for _, name := range c17Entries {
		fn := p.Func(name)
		if fn == nil || fn.Blocks == nil {
			missing++
			r.Fail(R2, "anchor:"+name, "-", "unresolved anchor: concurrent entry point not found")
			continue
		}
		r.List("functions", shortName(fn))
		s := e.Summary(fn)
		var keys []wKey
		for k := range s.All {
			keys = append(keys, k)
		}
		sort.Slice(keys, func(i, j int) bool {
			if keys[i].String() != keys[j].String() {
				return keys[i].String() < keys[j].String()
			}
			return shortName(keys[i].siteFn) < shortName(keys[j].siteFn)
		})
		clean := true
		for _, k := range keys {
			w := s.All[k]
			if k.kind != 'G' {
				if k.idx >= len(fn.Params) || !sharedParam(fn, k.idx) {
					continue
				}
			}
			if k.kind == 'G' {
				if _, once := s.once[k.glob]; once && s.WritesGlob[k.glob] == nil {
					continue
				}
			}
			site := "?"
			if k.siteFn != nil {
				site = shortName(k.siteFn)
			}
			// the entry point is named without the receiver's pointer star: a
			// method is the same obligation whichever receiver kind it has
			entry := strings.Replace(shortName(fn), "(*", "(", 1)
			key := entry + " | " + k.String() + " | " + site
			if k.op != "" && k.op != "store" && !strings.HasSuffix(site, strings.TrimPrefix(k.op, "builtin.")) {
				key += " | " + strings.ReplaceAll(k.op, modPath+"/", "")
			}
			// reviewed exceptions
			exc := false
			for _, ex := range c17Exceptions {
				if strings.Replace(ex.entry, "(*", "(", 1) == entry && ex.root == k.String() && ex.siteFn == site {
					exc = true
				}
			}
			if exc {
				r.OK(R1, key, p.InstrPos(w.Site), "reviewed exception (see reviewed_exceptions)")
				continue
			}
			if c, ok := w.Site.(ssa.CallInstruction); ok {
				if n := calleeName(c.Common()); strings.HasPrefix(n, "(*sync.") || strings.HasPrefix(n, "(*sync/atomic.") || strings.HasPrefix(n, "sync/atomic.") {
					r.OK(R1, key, p.InstrPos(w.Site), "synchronised write through "+n+" (sync containers and atomics are safe for concurrent use; what they hand out is judged by the result-aliasing rule)")
					continue
				}
			}
			if why := p.lazyInitForced(fn, k, w); why != "" {
				r.OK(R1, key, p.InstrPos(w.Site), "constructor-forced lazy initialisation: "+why)
				continue
			}
			clean = false
			r.Fail(R1, key, p.InstrPos(w.Site), "concurrent entry point may write shared state: "+e.describe(w))
		}
		if clean {
			r.OK(R1, shortName(fn)+" | no other write to shared state", p.Pos(fn.Pos()), fmt.Sprintf("%d may-write facts inspected", len(keys)))
		}
		// results must not alias mutable package-level state (a pooled or cached
		// buffer handed to one caller and reused for the next)
		mut := p.mutableGlobals()
		var leaks []string
		for i := range s.RetAddr {
			for _, g := range s.RetAddr[i].union(s.RetCont[i]).g {
				if why, ok := mut[g]; ok && !strings.HasPrefix(why, "once:") {
					leaks = append(leaks, fmt.Sprintf("result %d may alias %s (%s)", i, g.RelString(nil), why))
				}
			}
		}
		sort.Strings(leaks)
		r.Check(len(leaks) == 0, R3, shortName(fn)+" | results do not alias mutable package-level state", p.Pos(fn.Pos()), "results are fresh or views of the receiver/arguments", strings.Join(uniq(leaks), "; "))
	}
	if missing == 0 {
		r.OK(R2, "all entry points resolve", "-", fmt.Sprintf("%d entry points", len(c17Entries)))
	}
}

// lazyInitForced recognises the constructor-forced lazy field idiom and
// returns a description, or "".
func (p *Prog) lazyInitForced(entry *ssa.Function, k wKey, w *Witness) string {
	st, ok := w.Site.(*ssa.Store)
	if !ok || k.kind != 'D' || k.field == "" {
		return ""
	}
	fa, ok := st.Addr.(*ssa.FieldAddr)
	if !ok {
		return ""
	}
	g := st.Parent()
	if len(g.Params) == 0 || fa.X != ssa.Value(g.Params[0]) {
		return ""
	}
	// guarded by recv.f == nil
	guarded := false
	for _, a := range p.Facts(g).At(st.Block()) {
		if a.Kind != IsNil || !a.Pol {
			continue
		}
		if ld, ok := a.V.(*ssa.UnOp); ok && ld.Op == token.MUL {
			if fb, ok := ld.X.(*ssa.FieldAddr); ok && fb.X == fa.X && fb.Field == fa.Field {
				guarded = true
			}
		}
	}
	if !guarded {
		return ""
	}
	// every pat-go constructor that stores a value into <receiver type>.<k.field>
	// calls g on that value before returning
	recvT := entry.Params[k.idx].Type()
	if ptr, ok := recvT.Underlying().(*types.Pointer); ok {
		recvT = ptr.Elem()
	}
	nCtor := 0
	for _, f := range p.ModuleFuncs() {
		for _, b := range f.Blocks {
			for _, in := range b.Instrs {
				s2, ok := in.(*ssa.Store)
				if !ok {
					continue
				}
				fa2, ok := s2.Addr.(*ssa.FieldAddr)
				if !ok || !types.Identical(deref(fa2.X.Type()), recvT) || fieldName(fa2.X.Type(), fa2.Field) != k.field {
					continue
				}
				nCtor++
				// a call to g with receiver == stored value must dominate the store or the return
				forced := false
				for _, ref := range *s2.Val.Referrers() {
					if c, ok := ref.(ssa.CallInstruction); ok && c.Common().StaticCallee() == g && len(c.Common().Args) > 0 && c.Common().Args[0] == s2.Val {
						if dominates(c, s2) || dominatesAllReturns(c, f) {
							forced = true
						}
					}
				}
				if !forced {
					return ""
				}
			}
		}
	}
	if nCtor == 0 {
		return ""
	}
	return fmt.Sprintf("store %s.%s guarded by == nil in %s; all %d pat-go constructors that set %s call it first", typeShort(deref(fa.X.Type())), fieldName(fa.X.Type(), fa.Field), shortName(g), nCtor, k.field)
}

func dominatesAllReturns(c ssa.Instruction, f *ssa.Function) bool {
	for _, b := range f.Blocks {
		if r, ok := b.Instrs[len(b.Instrs)-1].(*ssa.Return); ok {
			if !dominates(c, r) {
				return false
			}
		}
	}
	return true
}

// ---------------------------------------------------------------- C16

// outputParams: parameters that are documented destinations.
var outputParams = map[string]map[int]string{
	"quicwire.AppendVarint":      {0: "append-style API: the destination slice is extended and returned"},
	"quicwire.AppendVarintBytes": {0: "append-style API"},
	"quicwire.AppendUint8Bytes":  {0: "append-style API"},
	"util.MustRead":              {2: "buffer to fill"},
}

func isByteSliceLike(t types.Type) bool {
	switch u := t.Underlying().(type) {
	case *types.Slice:
		if b, ok := u.Elem().Underlying().(*types.Basic); ok && b.Kind() == types.Byte {
			return true
		}
		return isByteSliceLike(u.Elem())
	}
	return false
}

// wholeTail: v is a byte slice that extends to the end of its backing array
// as far as any other live view is concerned: appending to it cannot
// overwrite bytes another value covers.
func wholeTail(p *Prog, v ssa.Value, depth int, seen map[ssa.Value]bool) bool {
	if depth > 8 || seen[v] {
		return depth <= 8
	}
	seen[v] = true
	switch v := v.(type) {
	case *ssa.MakeSlice:
		return true
	case *ssa.Const:
		return true // nil
	case *ssa.Slice:
		if v.Max != nil {
			return true // capacity clipped: append reallocates
		}
		if _, ok := v.X.(*ssa.Alloc); ok {
			return true // any view of a fresh local array (make with constant size)
		}
		if v.High != nil {
			return false
		}
		return wholeTail(p, v.X, depth+1, seen)
	case *ssa.Convert:
		return true // []byte(string) copies
	case *ssa.ChangeType:
		return wholeTail(p, v.X, depth+1, seen)
	case *ssa.Phi:
		for _, e := range v.Edges {
			if !wholeTail(p, e, depth+1, seen) {
				return false
			}
		}
		return true
	case *ssa.Parameter:
		// a parameter of an unexported function: whole-tail if every in-module
		// call site passes a whole-tail value
		fn := v.Parent()
		if fn.Object() != nil && fn.Object().Exported() {
			return false
		}
		idx := -1
		for i, prm := range fn.Params {
			if prm == v {
				idx = i
			}
		}
		sites := p.callSitesOf(fn)
		if idx < 0 || len(sites) == 0 {
			return false
		}
		for _, c := range sites {
			args := c.Common().Args
			if idx >= len(args) || !wholeTail(p, args[idx], depth+1, seen) {
				return false
			}
		}
		return true
	case *ssa.Extract:
		if c, ok := v.Tuple.(*ssa.Call); ok {
			return wholeTailCall(p, c, v.Index, depth, seen)
		}
	case *ssa.Call:
		return wholeTailCall(p, v, 0, depth, seen)
	}
	return false
}

func wholeTailCall(p *Prog, c *ssa.Call, idx, depth int, seen map[ssa.Value]bool) bool {
	cc := c.Common()
	if b, ok := cc.Value.(*ssa.Builtin); ok {
		return b.Name() == "append" // result covers its whole array tail
	}
	name := calleeName(cc)
	switch name {
	case "(*golang.org/x/crypto/cryptobyte.Builder).BytesOrPanic", "(*golang.org/x/crypto/cryptobyte.Builder).Bytes", "(hash.Hash).Sum":
		return true
	}
	if f := cc.StaticCallee(); f != nil && f.Blocks != nil && InModule(f) {
		for _, b := range f.Blocks {
			if r, ok := b.Instrs[len(b.Instrs)-1].(*ssa.Return); ok && idx < len(r.Results) {
				if !wholeTail(p, r.Results[idx], depth+1, seen) {
					return false
				}
			}
		}
		return true
	}
	// dependency producers returning fresh byte strings
	if strings.HasSuffix(name, ".MarshalBinary") || strings.HasSuffix(name, ".MarshalBinaryCompress") || strings.HasSuffix(name, ".Finalize") || strings.HasSuffix(name, ".Blind") || strings.HasSuffix(name, ".FixedBlind") {
		return true
	}
	return false
}

// appendSafeField: every store into field `fld` of struct type T (anywhere in
// the module) stores a whole-tail value.
func appendSafeField(p *Prog, T types.Type, fld string) (bool, string) {
	n := 0
	for _, f := range p.ModuleFuncs() {
		for _, b := range f.Blocks {
			for _, in := range b.Instrs {
				st, ok := in.(*ssa.Store)
				if !ok {
					continue
				}
				var base ssa.Value
				var fa *ssa.FieldAddr
				switch a := st.Addr.(type) {
				case *ssa.FieldAddr:
					fa, base = a, a.X
				case *ssa.IndexAddr:
					// element of a [][]byte field: stores into elements
					if ld, ok := a.X.(*ssa.UnOp); ok {
						if fa2, ok := ld.X.(*ssa.FieldAddr); ok {
							fa, base = fa2, fa2.X
						}
					} else if ms, ok := a.X.(*ssa.MakeSlice); ok {
						// local [][]byte later stored into the field: handled when the
						// slice itself is stored (elements checked below)
						_ = ms
					}
				}
				if fa == nil || !types.Identical(deref(base.Type()), T) || fieldName(base.Type(), fa.Field) != fld {
					continue
				}
				n++
				if _, isSl := st.Val.Type().Underlying().(*types.Slice); isSl {
					if sl, ok := st.Val.Type().Underlying().(*types.Slice); ok {
						if _, inner := sl.Elem().Underlying().(*types.Slice); inner {
							// [][]byte: every element store into that slice value must be whole-tail
							if ok2, why := elementsWholeTail(p, st.Val); !ok2 {
								return false, why
							}
							continue
						}
					}
					if !wholeTail(p, st.Val, 0, map[ssa.Value]bool{}) {
						return false, fmt.Sprintf("%s stores a prefix/sub-slice view into %s.%s at %s", shortName(f), typeShort(T), fld, p.InstrPos(st))
					}
				}
			}
		}
	}
	if n == 0 {
		return false, "no store into the field found"
	}
	return true, fmt.Sprintf("%d store(s), all whole-tail values", n)
}

func elementsWholeTail(p *Prog, sliceVal ssa.Value) (bool, string) {
	return elementsWholeTailD(p, sliceVal, 0, map[ssa.Value]bool{})
}

// elementsWholeTailD: the [][]byte value was allocated by a make in the module
// and every element stored into it (by the allocating function, or by an
// unexported helper it is handed to or returned from) is a whole-tail value.
func elementsWholeTailD(p *Prog, sliceVal ssa.Value, depth int, seen map[ssa.Value]bool) (bool, string) {
	if depth > 4 {
		return false, "slice of byte strings of unknown origin (helper chain too deep)"
	}
	if seen[sliceVal] {
		return true, ""
	}
	seen[sliceVal] = true
	refs := sliceVal.Referrers()
	if refs == nil {
		return false, "slice of byte strings of unknown origin"
	}
	switch v := sliceVal.(type) {
	case *ssa.MakeSlice:
	case *ssa.Parameter:
		fn := v.Parent()
		if fn == nil || !InModule(fn) || fn.Object() == nil || fn.Object().Exported() || fn.Signature.Recv() != nil && fn.Signature.Recv() == v.Object() {
			return false, "slice of byte strings not allocated locally"
		}
		idx := -1
		for i, prm := range fn.Params {
			if prm == v {
				idx = i
			}
		}
		sites := p.callSitesOf(fn)
		if idx < 0 || len(sites) == 0 {
			return false, "slice of byte strings not allocated locally"
		}
		for _, c := range sites {
			args := c.Common().Args
			if idx >= len(args) {
				return false, "slice of byte strings not allocated locally"
			}
			if ok, why := elementsWholeTailD(p, args[idx], depth+1, seen); !ok {
				return false, why
			}
		}
	case *ssa.Call:
		f := v.Common().StaticCallee()
		if f == nil || f.Blocks == nil || !InModule(f) || f.Signature.Results().Len() != 1 {
			return false, "slice of byte strings not allocated locally"
		}
		for _, b := range f.Blocks {
			if r, ok := b.Instrs[len(b.Instrs)-1].(*ssa.Return); ok && len(r.Results) == 1 {
				if ok, why := elementsWholeTailD(p, r.Results[0], depth+1, seen); !ok {
					return false, why
				}
			}
		}
	default:
		return false, "slice of byte strings not allocated locally"
	}
	for _, r := range *refs {
		ia, ok := r.(*ssa.IndexAddr)
		if !ok {
			continue
		}
		for _, rr := range *ia.Referrers() {
			if st, ok := rr.(*ssa.Store); ok && st.Addr == ia {
				if !wholeTail(p, st.Val, 0, map[ssa.Value]bool{}) {
					return false, "element stored at " + p.InstrPos(st) + " is a prefix/sub-slice view"
				}
			}
		}
	}
	return true, ""
}

func c16(p *Prog, r *Report) {
	r.Explanation = "May-write effect analysis (effects.go) over every exported function and method of the non-internal packages: (R1) no store, copy, append-in-place or callee write may reach the memory of a byte-slice argument (its elements within len and its spare capacity - append(p, ...) counts) unless the parameter is a documented destination; (R2) an in-place append whose base is loaded from a struct field requires that field to be append-safe: every store into it, anywhere in the module, stores a whole-tail view (fresh allocation, append/Builder/hash result, low-bounded or capacity-clipped slice), so the bytes behind len belong to no other live value; (R3) exported methods write their receiver only through the encoding cache field, in the object's own mutators (Unmarshal, AddOrigin*), or by R2-safe appends; (R4) slicing obligations hi <= len (never cap) in exported decoders are discharged by the range prover (shared with C03)."
	r.NotDecided = "value-level claims (results independent of what spare capacity holds) beyond R4; callers mutating what they were handed; aliasing created by callers."
	r.Assumptions = append(r.Assumptions, "standard-library functions write only what the reviewed table says", "dependencies' Marshal*/Finalize/Blind results are fresh byte strings")
	r.Trusted = append(r.Trusted, "go/ssa, VTA call graph", "effects.go of this checker")
	const R1 = "C16.argument-bytes-unchanged"
	const R2 = "C16.append-onto-field-needs-whole-tail"
	const R3 = "C16.receiver-writes-only-by-mutators"
	const R4 = "C16.spare-capacity-never-read"
	r.Rule(R1, "exported functions never write (store/copy/append in place) the memory of a byte-slice parameter that is not a documented destination", 60)
	r.Rule(R2, "append(x, ...) with x loaded from a struct field: every store into that field stores a whole-tail view", 1)
	r.Rule(R3, "exported methods write receiver state only via the raw cache, their own mutators, or R2-safe appends", 30)
	r.Rule(R4, "every slice expression x[lo:hi] on a slice/string reachable from an exported function has hi proved <= len(x) (spare capacity is never read)", 20)

	e := p.Effects()
	r.Count("functions_summarised", e.Stats.Funcs)
	nFn := 0
	for _, fn := range p.ModuleFuncs() {
		if fn.Parent() != nil || strings.Contains(fnPkgPath(fn), "/internal/") || fn.Object() == nil || !fn.Object().Exported() {
			continue
		}
		if recv := fn.Signature.Recv(); recv != nil {
			t := recv.Type()
			if pt, ok := t.(*types.Pointer); ok {
				t = pt.Elem()
			}
			if n, ok := t.(*types.Named); ok && !n.Obj().Exported() {
				continue
			}
		}
		if fn.Name() == "init" {
			continue
		}
		nFn++
		s := e.Summary(fn)
		if s == nil {
			continue
		}
		sn := shortName(fn)
		hasRecv := fn.Signature.Recv() != nil
		// R1
		for i, prm := range fn.Params {
			if (i == 0 && hasRecv) || !isByteSliceLike(prm.Type()) {
				continue
			}
			if why, ok := outputParams[sn][i]; ok {
				r.OK(R1, fmt.Sprintf("%s param %d (%s)", sn, i, prm.Name()), p.Pos(fn.Pos()), "documented destination: "+why)
				continue
			}
			var bad []string
			for k, w := range s.All {
				if k.kind != 'G' && k.idx == i {
					bad = append(bad, k.String()+": "+e.describe(w))
				}
			}
			sort.Strings(bad)
			key := fmt.Sprintf("%s param %d (%s)", sn, i, prm.Name())
			if len(bad) == 0 {
				r.OK(R1, key, p.Pos(fn.Pos()), "no may-write reaches the argument's memory")
			} else {
				r.Fail(R1, key, p.Pos(fn.Pos()), "argument bytes may be written: "+strings.Join(bad, " | "))
			}
		}
		// R2 + R3: receiver writes
		if !hasRecv {
			continue
		}
		var ks []wKey
		for k := range s.All {
			if k.kind != 'G' && k.idx == 0 {
				ks = append(ks, k)
			}
		}
		sort.Slice(ks, func(i, j int) bool {
			return ks[i].String()+shortName(ks[i].siteFn) < ks[j].String()+shortName(ks[j].siteFn)
		})
		clean := true
		for _, k := range ks {
			w := s.All[k]
			site := "?"
			if k.siteFn != nil {
				site = shortName(k.siteFn)
			}
			key := sn + " | " + k.String() + " | " + site
			// in-place append onto a field
			if c, ok := w.Site.(*ssa.Call); ok {
				if b, ok := c.Call.Value.(*ssa.Builtin); ok && b.Name() == "append" {
					// append(x.F[:k], ...) rebuilds the field inside the storage of its
					// previous value: whoever was handed that value sees it change
					if sl, isSl := c.Call.Args[0].(*ssa.Slice); isSl && sl.High != nil {
						if T0, f0, ok0 := fieldOfAppendBase(sl.X); ok0 && (ast.IsExported(f0) || f0 == "raw") {
							clean = false
							r.Fail(R2, key, p.InstrPos(c), "append onto a truncated view of "+typeShort(T0)+"."+f0+" overwrites the field's previous value in place; that value is caller-visible (handed out earlier)")
							continue
						}
					}
					T, fld, found := fieldOfAppendBase(c.Call.Args[0])
					if found {
						okF, why := appendSafeHere(p, c, T, fld)
						if okF {
							r.OK(R2, key, p.InstrPos(c), "append base "+typeShort(T)+"."+fld+" is append-safe: "+why)
						} else {
							clean = false
							r.Fail(R2, key, p.InstrPos(c), "append writes in place behind "+typeShort(T)+"."+fld+", which is not append-safe: "+why+" (bytes behind len belong to another live view, e.g. the request handed out earlier)")
						}
						continue
					}
				}
			}
			if receiverWriteAllowed(fn, k, w) {
				continue
			}
			if k.siteFn == nil || !InModule(k.siteFn) {
				// in-place normalisation inside opaque dependency objects (circl
				// elements held by a client/verifier) is not caller-visible pat-go
				// state; C16 speaks about requests, encodings and tokens
				r.Note("%s: dependency-internal write to an opaque object reachable from the receiver (%s in %s) - not judged by C16", sn, k, site)
				continue
			}
			if isIssuerOrKeyMethod(fn) {
				continue // shared-object methods are judged by C17
			}
			clean = false
			r.Fail(R3, key, p.InstrPos(w.Site), "exported method writes state of its receiver outside the object's own mutators: "+e.describe(w))
		}
		if clean {
			r.OK(R3, sn+" | receiver writes", p.Pos(fn.Pos()), fmt.Sprintf("%d receiver write fact(s), all allowed", len(ks)))
		}
	}
	r.Count("exported_functions_checked", nFn)

	// R4: spare capacity is never read: every slice expression with an explicit
	// upper bound in exported functions (and their in-module callees) is proved
	// hi <= len(x) by the range prover
	var roots []*ssa.Function
	for _, fn := range p.ModuleFuncs() {
		if fn.Parent() == nil && fn.Object() != nil && fn.Object().Exported() && !strings.Contains(fnPkgPath(fn), "/internal/") && !strings.HasSuffix(fnPkgPath(fn), "/util") {
			roots = append(roots, fn)
		}
	}
	matched := c14MatchedFunctions(p)
	scope := p.Reach(roots, InModule)
	var fns []*ssa.Function
	for f := range scope {
		if f.Blocks != nil && InModule(f) && !matched[shortName(f)] {
			fns = append(fns, f)
		}
	}
	sort.Slice(fns, func(i, j int) bool { return fns[i].RelString(nil) < fns[j].RelString(nil) })
	for _, fn := range fns {
		rg := p.NewRange(fn)
		n := 0
		for _, o := range rg.obligations() {
			if o.kind != "slice" {
				continue
			}
			sl, ok := o.in.(*ssa.Slice)
			if !ok || sl.High == nil {
				continue
			}
			if _, isPtr := sl.X.Type().Underlying().(*types.Pointer); isPtr {
				continue // arrays have no spare capacity
			}
			n++
			key := fmt.Sprintf("%s: slice hi<=len #%d", shortName(fn), n)
			if o.proved {
				r.OK(R4, key, p.InstrPos(o.in), "upper bound proved <= len")
			} else {
				r.Fail(R4, key, p.InstrPos(o.in), "upper slice bound not proved <= len(x): bytes behind len (spare capacity) may be read: "+o.why)
			}
		}
	}
}

// fieldOfAppendBase: append base is (an element of) a struct field.
func fieldOfAppendBase(v ssa.Value) (types.Type, string, bool) {
	for i := 0; i < 6; i++ {
		switch x := v.(type) {
		case *ssa.UnOp:
			switch a := x.X.(type) {
			case *ssa.FieldAddr:
				return deref(a.X.Type()), fieldName(a.X.Type(), a.Field), true
			case *ssa.IndexAddr:
				v = a.X
				continue
			}
			return nil, "", false
		case *ssa.Field:
			return x.X.Type(), fieldName(x.X.Type(), x.Field), true
		case *ssa.Index:
			v = x.X
		default:
			return nil, "", false
		}
	}
	return nil, "", false
}

func receiverWriteAllowed(fn *ssa.Function, k wKey, w *Witness) bool {
	switch fn.Name() {
	case "Unmarshal", "AddOrigin", "AddOriginWithIndexKey", "UnmarshalBinary":
		return true
	}
	// the encoding cache
	if st, ok := w.Site.(*ssa.Store); ok {
		if fa, ok := st.Addr.(*ssa.FieldAddr); ok && fieldName(fa.X.Type(), fa.Field) == "raw" {
			return true
		}
	}
	return false
}

func isIssuerOrKeyMethod(fn *ssa.Function) bool {
	recv := fn.Signature.Recv()
	if recv == nil {
		return false
	}
	t := typeShort(deref(recv.Type()))
	return strings.HasSuffix(t, "Issuer") || strings.Contains(t, "ecdsa.P") || strings.Contains(t, "ed25519.P")
}

// appendSafeHere: flow-sensitive version of appendSafeField for one append
// site. If, in the append's own function, a store to the same field of the same
// base dominates the load of the append base, only the stores of this function
// that can reach the load matter; otherwise every store in the module does.
func appendSafeHere(p *Prog, app *ssa.Call, T types.Type, fld string) (bool, string) {
	ld, ok := app.Call.Args[0].(*ssa.UnOp)
	if ok {
		if fa, ok := ld.X.(*ssa.FieldAddr); ok {
			fn := app.Parent()
			var local []*ssa.Store
			dom := false
			for _, b := range fn.Blocks {
				for _, in := range b.Instrs {
					st, ok := in.(*ssa.Store)
					if !ok {
						continue
					}
					fb, ok := st.Addr.(*ssa.FieldAddr)
					if !ok || fb.Field != fa.Field || !sameBase(fb.X, fa.X) {
						continue
					}
					if dominates(st, ld) {
						dom = true
						local = append(local, st)
					} else if reaches(st, ld) {
						local = append(local, st)
					}
				}
			}
			if dom {
				for _, st := range local {
					if !wholeTail(p, st.Val, 0, map[ssa.Value]bool{}) {
						return false, fmt.Sprintf("%s re-uses a prefix/sub-slice view of %s.%s at %s and then appends to it: the elements behind len belong to values decoded or handed out earlier", shortName(fn), typeShort(T), fld, p.InstrPos(st))
					}
				}
				return true, fmt.Sprintf("%d store(s) in the same function reach the append base, all whole-tail values", len(local))
			}
		}
	}
	return appendSafeField(p, T, fld)
}
