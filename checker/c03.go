package main

// C03 - no byte string from a peer can crash or exhaust a decoder or protocol step.

import (
	"fmt"
	"go/ast"
	"sort"
	"strings"

	"golang.org/x/tools/go/ssa"
)

func init() {
	props["C03"] = c03
	propConfigs["C03"] = []string{"386", "arm64"}
}

// c03Entries: functions that consume bytes received from a peer. ownParams
// lists parameter indices that are NOT peer controlled (own keys, own state).
var c03Entries = []struct {
	name string
	own  []int
}{
	{"~/tokens.UnmarshalTokenChallenge", nil},
	{"~/tokens/type1.UnmarshalPrivateToken", nil}, {"~/tokens/type2.UnmarshalToken", nil}, {"~/tokens/type3.UnmarshalToken", nil}, {"~/tokens/type5.UnmarshalBatchedPrivateToken", nil},
	{"(*~/tokens/type1.BasicPrivateTokenRequest).Unmarshal", nil}, {"(*~/tokens/type2.BasicPublicTokenRequest).Unmarshal", nil}, {"(*~/tokens/type3.RateLimitedTokenRequest).Unmarshal", nil},
	{"(*~/tokens/type5.BatchedPrivateTokenRequest).Unmarshal", nil}, {"(*~/tokens/type3.InnerTokenRequest).Unmarshal", nil}, {"~/tokens/type3.UnmarshalEncapKey", nil},
	{"(*~/tokens/batched.BatchedTokenRequest).Unmarshal", nil}, {"~/tokens/batched.UnmarshalBatchedTokenResponses", nil}, {"~/util.UnmarshalTokenKey", nil},
	{"~/quicwire.ConsumeVarint", nil}, {"~/quicwire.ConsumeVarintInt64", nil}, {"~/quicwire.ConsumeUint32", nil}, {"~/quicwire.ConsumeUint64", nil}, {"~/quicwire.ConsumeUint8Bytes", nil}, {"~/quicwire.ConsumeVarintBytes", nil},
	{"(~/tokens/type1.BasicPrivateTokenRequestState).FinalizeToken", []int{0}}, {"(~/tokens/type2.BasicPublicTokenRequestState).FinalizeToken", []int{0}},
	{"(~/tokens/type3.RateLimitedTokenRequestState).FinalizeToken", []int{0}}, {"(~/tokens/type5.BatchedPrivateTokenRequestState).FinalizeTokens", []int{0}},
	{"(~/tokens/type1.BasicPrivateIssuer).Evaluate", []int{0}}, {"(~/tokens/type1.BasicPrivateIssuer).Verify", []int{0}},
	{"(~/tokens/type2.BasicPublicIssuer).Evaluate", []int{0}},
	{"(~/tokens/type5.BatchedPrivateIssuer).Evaluate", []int{0}}, {"(~/tokens/type5.BatchedPrivateIssuer).Verify", []int{0}},
	{"(~/tokens/type3.RateLimitedIssuer).Evaluate", []int{0}},
	{"(~/tokens/batched.BasicBatchedIssuer).EvaluateBatch", []int{0}},
	{"(*~/tokens/type3.RateLimitedAttester).VerifyRequest", []int{0}}, {"(*~/tokens/type3.RateLimitedAttester).FinalizeIndex", []int{0}},
	{"~/ecdsa.Verify", []int{0}}, {"~/ecdsa.VerifyASN1", []int{0}},
	{"~/ed25519.Verify", []int{0}},
}

// panicAllowed: explicit panics that are documented preconditions on the
// caller's own key or state, not reachable through peer bytes; keyed by
// function, one reason each.
var c03PanicAllowed = map[string]string{
	"ed25519.Verify": "documented precondition on the caller's own public key length (same as crypto/ed25519)",
	"(*tokens/type1.BasicPrivateIssuer).TokenKeyID":                "serialisation of the issuer's own key failed (own key, not peer bytes)",
	"(*tokens/type5.BatchedPrivateIssuer).TokenKeyID":              "serialisation of the issuer's own key failed",
	"(*tokens/type2.BasicPublicIssuer).TokenKeyID":                 "serialisation of the issuer's own key failed",
	"(*tokens/type3.RateLimitedIssuer).TokenKeyID":                 "serialisation of the issuer's own key failed",
	"quicwire.AppendVarint":                                        "value > 2^62-1: discharged at every call site as a precondition obligation",
	"quicwire.SizeVarint":                                          "value > 2^62-1 (not reached from peer scope with an unbounded value)",
	"quicwire.AppendUint8Bytes":                                    "len > 255: discharged at call sites",
	"(*ed25519/internal/edwards25519.Scalar).SetUniformBytes":      "length precondition: discharged at every call site",
	"(*ed25519/internal/edwards25519.Scalar).SetBytes":             "length precondition: discharged at every call site",
	"(*ed25519/internal/edwards25519.Scalar).SetBytesWithClamping": "length precondition: discharged at every call site",
	"(*ed25519/internal/edwards25519.Scalar).signedRadix16":        "type invariant: a Scalar is always reduced (s.s[31] <= 127); who-may-write checked below",
	"(*ed25519/internal/edwards25519.Scalar).nonAdjacentForm":      "type invariant: a Scalar is always reduced (s.s[31] <= 127)",
	"ed25519/internal/edwards25519.checkInitialized":               "type invariant: points reaching arithmetic are results of a checked SetBytes or of operations on such",
	"(*ed25519/internal/edwards25519/field.Element).SetBytes":      "length precondition (32): callers slice fixed arrays",
}

func c03(p *Prog, r *Report) {
	r.Explanation = "Range proving over SSA (ranges.go): in every pat-go function reachable from a peer-bytes entry point, each slice expression (0 <= lo <= hi <= len, never cap), index (0 <= i < len / array length), make (0 <= n, n bounded by a constant or an input length), non-constant division, slice-to-array conversion and documented panicking precondition of a callee is a linear obligation over symbolic atoms. It is discharged by Fourier-Motzkin entailment from: dominating branch conditions, SSA definitions (slice lengths, conversions that provably fit), loop induction, reviewed post-conditions (checked cryptobyte reads, quicwire.ConsumeVarint, positive configuration getters), success facts of in-module callees translated to the caller, and product/quotient monotonicity. Plus: every cryptobyte read in a decoder is checked, every loop matches a terminating shape, the scope has no recursion, explicit panics are unreachable or documented preconditions on own keys, unchecked type assertions cannot fail by types. Functions of the Ed25519 arithmetic that are syntactically the standard library's (C14) are discharged by that identity."
	r.NotDecided = "panics, non-termination or allocation inside dependencies on well-typed input; nil dereference of caller-supplied nil pointers; stack depth; overflow of machine-word arithmetic on lengths (assumed absent: all operands are bounded by slice lengths)."
	r.Assumptions = append(r.Assumptions, "dependencies do not panic on well-typed arguments except for the listed preconditions", "configuration getters of the dependencies (element/scalar/key sizes) return positive values below 2^16", "lengths are below 2^48", "objects are built by their constructors (documented type invariants of Scalar and Point)", "a request decoder that accepted b holds a value whose encoding is no longer than b (decided by C04's layout agreement; used as len(x.Marshal()) <= len(b) behind x.Unmarshal(b) == true)")
	r.Trusted = append(r.Trusted, "go/ssa dominators, natural loops", "ranges.go (linear forms, Fourier-Motzkin)", "post-condition and precondition tables (printed)", "C14 reference identity for matched arithmetic functions")

	const R1 = "C03.bounds-and-allocation"
	const R2 = "C03.checked-reads"
	const R3 = "C03.loops-terminate"
	const R4 = "C03.no-recursion"
	const R5 = "C03.panics-and-assertions"
	const R6 = "C03.entry-points-resolve"
	const R7 = "C03.ecdsa-core-preconditions"
	r.Rule(R1, "every slice/index/make/division/conversion/precondition obligation in the peer-bytes scope is proved", 150)
	r.Rule(R2, "in decoders, every cryptobyte read whose result is ignored is a violation", 30)
	r.Rule(R3, "every loop in scope matches a terminating shape", 10)
	r.Rule(R4, "no recursion among in-module functions of the scope", 1)
	r.Rule(R5, "explicit panics unreachable or documented own-key preconditions; unchecked type assertions cannot fail", 5)
	r.Rule(R6, "every listed entry point exists", 1)
	const R8 = "C03.constructors-initialise-used-fields"
	r.Rule(R8, "every composite literal that builds a module struct sets each embedded-by-value struct field whose zero value holds nil interfaces, if that field is read anywhere (no zero key reaches a method call on its nil interface field)", 1)
	constructorsInitialiseUsedFields(p, r, R8)
	r.Rule(R7, "ecdsa verification core (modular inverse of s, nil on failure) reachable only behind 0 < r,s < N", 5)

	var entries []*ssa.Function
	missing := 0
	for _, e := range c03Entries {
		fn := p.Func(e.name)
		if fn == nil || fn.Blocks == nil {
			missing++
			r.Fail(R6, "anchor:"+e.name, "-", "unresolved anchor: peer-bytes entry point not found")
			continue
		}
		entries = append(entries, fn)
	}
	if missing == 0 {
		r.OK(R6, "all entry points resolve", "-", fmt.Sprintf("%d entry points", len(entries)))
	}
	scope := p.Reach(entries, InModule)
	var fns []*ssa.Function
	for f := range scope {
		if f.Blocks != nil && InModule(f) {
			fns = append(fns, f)
		}
	}
	sort.Slice(fns, func(i, j int) bool { return fns[i].RelString(nil) < fns[j].RelString(nil) })
	r.Count("functions_in_scope", len(fns))

	const R9 = "C03.nil-results-only-with-errors"
	r.Rule(R9, "a function of the scope that returns a pointer with a verdict returns nil only on failure returns when a caller dereferences the pointer behind the verdict check alone", 3)
	nilResultsOnlyWithErrors(p, r, R9, fns)

	matched := c14MatchedFunctions(p)
	nByKind := map[string]int{}
	for _, fn := range fns {
		sn := shortName(fn)
		r.List("scope", sn)
		if matched[sn] {
			r.OK(R1, sn+": identical to the standard library's function (C14)", p.Pos(fn.Pos()), "obligations discharged by reference identity")
			continue
		}
		rg := p.NewRange(fn)
		obs := rg.obligations()
		ord := map[string]int{}
		for _, o := range obs {
			nByKind[o.kind]++
			ord[o.kind]++
			key := fmt.Sprintf("%s: %s #%d", sn, o.kind, ord[o.kind])
			switch o.kind {
			case "panic":
				root := fn
				for root.Parent() != nil {
					root = root.Parent()
				}
				if why, ok := c03PanicAllowed[shortName(root)]; ok {
					r.OK(R5, key, p.InstrPos(o.in), "documented precondition: "+why)
				} else if rg.s.ff.dead[o.in.Block()] {
					r.OK(R5, key, p.InstrPos(o.in), "unreachable")
				} else {
					r.Fail(R5, key, p.InstrPos(o.in), "explicit panic reachable in the peer-bytes scope and not a documented own-key precondition")
				}
			case "assert":
				r.Fail(R5, key, p.InstrPos(o.in), o.desc)
			default:
				if o.proved {
					r.OK(R1, key, p.InstrPos(o.in), o.desc)
				} else {
					why := o.why
					if why == "" {
						why = o.desc
					}
					r.Fail(R1, key, p.InstrPos(o.in), o.desc+": "+why)
				}
			}
		}
		// loops
		for i, l := range rg.loops {
			ok, why := rg.loopVerdict(l)
			key := fmt.Sprintf("%s: loop #%d", sn, i+1)
			pos := p.InstrPos(l.Header.Instrs[len(l.Header.Instrs)-1])
			if ok {
				r.OK(R3, key, pos, why)
			} else {
				r.Fail(R3, key, pos, why)
			}
		}
		// unchecked reads
		nRead := 0
		for _, b := range fn.Blocks {
			for _, in := range b.Instrs {
				c, ok := in.(*ssa.Call)
				if !ok {
					continue
				}
				n := calleeName(c.Common())
				if !strings.HasPrefix(n, cbString+"Read") && n != cbString+"Skip" && n != cbString+"CopyBytes" {
					continue
				}
				nRead++
				used := false
				for _, ref := range *c.Referrers() {
					switch ref.(type) {
					case *ssa.DebugRef:
					default:
						used = true
					}
				}
				key := fmt.Sprintf("%s: %s #%d", sn, strings.TrimPrefix(n, cbString), nRead)
				if used {
					r.OK(R2, key, p.InstrPos(c), "result is used")
				} else {
					r.Fail(R2, key, p.InstrPos(c), "the result of this read is ignored: on short input the destination keeps its previous (possibly nil) value and later code slices it")
				}
			}
		}
	}
	for k, v := range nByKind {
		r.Count("obligations_"+k, v)
	}
	// the ECDSA verification core divides by s (ModInverse returns nil for a
	// non-invertible value and the core dereferences it): reachable only behind
	// the range checks
	ecdsaVerifyRangeChecks(p, r, R7)
	rec := p.recursionIn(scope)
	r.Check(len(rec) == 0, R4, "no recursion in scope", "-", fmt.Sprintf("%d functions", len(fns)), "recursive functions: "+strings.Join(rec, ", "))
}

// c14MatchedFunctions: short names of fork functions identical to GOROOT's.
func c14MatchedFunctions(p *Prog) map[string]bool {
	out := map[string]bool{}
	gr := goroot()
	for _, pr := range refPairs {
		fork, err := parseDir(p.Repo+"/"+pr.fork, skipArch)
		if err != nil {
			continue
		}
		var ref *srcPkg
		for _, c := range pr.refs {
			if rp, e := parseDir(gr+"/src/"+c, skipArch); e == nil && len(rp.funcs) > 0 {
				ref = rp
				break
			}
		}
		if ref == nil {
			continue
		}
		for n, fd := range fork.funcs {
			rf := ref.funcs[n]
			if rf == nil {
				continue
			}
			if ok, _ := funcsAgree(fd, rf); ok {
				// short SSA name
				name := pr.fork + "." + n
				if strings.Contains(n, ".") {
					parts := strings.SplitN(n, ".", 2)
					star := "*"
					if fd.Recv != nil && len(fd.Recv.List) > 0 {
						if _, isStar := fd.Recv.List[0].Type.(*ast.StarExpr); !isStar {
							star = ""
						}
					}
					name = "(" + star + pr.fork + "." + parts[0] + ")." + parts[1]
				}
				out[name] = true
			}
		}
	}
	return out
}
