package main

// C15 - Ed25519 key blinding yields ordinary, invertible, context-bound Ed25519 keys.

import (
	"fmt"
	"sort"
	"strings"

	"golang.org/x/tools/go/ssa"
)

func init() { props["C15"] = c15 }

const (
	edPkg    = "ed25519/internal/edwards25519"
	tNewSc   = "call<" + edPkg + ".NewScalar>()"
	nmScSet  = "(*" + edPkg + ".Scalar).SetBytes"
	nmPtSet  = "(*" + edPkg + ".Point).SetBytes"
	nmPtMul  = "(*" + edPkg + ".Point).ScalarMult"
	nmPtByte = "(*" + edPkg + ".Point).Bytes"
)

func edBlindScalar(blind, ctx string) string {
	return "call<" + nmScSet + ">(" + tNewSc + ", slice(hash<sha512>(cat(" + blind + ", u8(const:0), " + ctx + ")), const:0, const:32))"
}

func c15(p *Prog, r *Report) {
	r.Explanation = "Symbolic layout/binding analysis of ed25519/ed25519.go: (1) in BlindPublicKeyWithContext, UnblindPublicKeyWithContext and blindKeySign the blinding scalar is Scalar.SetBytes(SHA-512(blind || 0x00 || context)[:32]) (SetBytes is the mod-L reduction) - the same term at all three sites; (2) blind = decode(pk) scaled by r, unblind = decode(pk) scaled by ModInverse(r); blinded signing uses secret scalar clamp(h[:32])*r, public key r*A, nonce prefix h[32:] || b[32:], and the same signInternal as plain signing; (3) the blinding entry points reach no entropy source and touch no mutable package-level state outside sync.Once."
	r.NotDecided = "the algebra (commutativity, invertibility), acceptance by an unmodified verifier, correctness of the big-integer inversion and of the scalar arithmetic (C14)."
	r.Assumptions = append(r.Assumptions, "crypto/sha512 behaves as documented")
	r.Trusted = append(r.Trusted, "go/types, go/ssa", "term evaluator, call graph (VTA with Once.Do resolved at the site)")
	const R1 = "C15.derivation-term"
	const R2 = "C15.blind-unblind-sign-shapes"
	const R3 = "C15.deterministic"
	const R4 = "C15.hash-input-in-fresh-storage"
	r.Rule(R1, "blinding scalar = Scalar.SetBytes(SHA-512(blind||0x00||context)[:32]) at all three sites; wrappers pass a nil context", 6)
	r.Rule(R2, "blind = Bytes(ScalarMult(r, decode(pk))); unblind = Bytes(ScalarMult(ModInverse(r), decode(pk))); blinded signing = signInternal(sig, Bytes(r*A), msg, h[32:]||b[32:], clamp(h[:32])*r)", 3)
	r.Rule(R4, "the hash input blind||0x00||context is built by appending to a fresh buffer, never to an argument's slice", 3)
	r.Rule(R3, "no entropy source reachable from the six blinding entry points; no mutable package-level state touched", 12)

	pt := func(pk, alloc string) string {
		return "extract<0>(call<" + nmPtSet + ">(" + alloc + ", " + pk + "))"
	}
	scaled := func(pk, scalar string) string {
		return "call<" + nmPtByte + ">(obj(" + pt(pk, "alloc<*>()") + ", call<" + nmPtMul + ">(const:self, " + scalar + ", const:self)))"
	}
	if fn := anchor(p, r, R2, "~/ed25519.BlindPublicKeyWithContext"); fn != nil {
		r.List("functions", shortName(fn))
		retValueIs(p, r, R2, fn, "Bytes(r * decode(publicKey))", scaled("param:0", edBlindScalar("param:1", "param:2")))
		p.RequireOnSuccess(r, R1, fn, CallReq{Desc: "Point.SetBytes(publicKey) ok", Callee: nmPtSet, Check: func(t *Term) string { return want("decoded key", arg(t, 1), "param:0") }})
	}
	if fn := anchor(p, r, R2, "~/ed25519.UnblindPublicKeyWithContext"); fn != nil {
		r.List("functions", shortName(fn))
		rr := edBlindScalar("param:1", "param:2")
		inv := "call<(*" + edPkg + ".Scalar).ModInverse>(call<(*" + edPkg + ".Scalar).Set>(" + tNewSc + ", " + rr + "))"
		retValueIs(p, r, R2, fn, "Bytes(r^-1 * decode(publicKey))", scaled("param:0", inv))
		p.RequireOnSuccess(r, R1, fn, CallReq{Desc: "Point.SetBytes(publicKey) ok", Callee: nmPtSet, Check: func(t *Term) string { return want("decoded key", arg(t, 1), "param:0") }})
	}
	if fn := anchor(p, r, R2, "~/ed25519.blindKeySign"); fn != nil {
		r.List("functions", shortName(fn))
		s := p.NewSym(fn)
		sites := sitesIn(fn, func(n string) bool { return n == "ed25519.signInternal" })
		if len(sites) != 1 {
			r.Fail(R2, "blindKeySign calls signInternal once", p.Pos(fn.Pos()), "expected one call")
		} else {
			ct := s.callTerm(sites[0])
			rr := edBlindScalar("param:2", "param:4")
			h := "hash<sha512>(slice(param:1, const:0, const:32))"
			b := "hash<sha512>(cat(param:2, u8(const:0), param:4))"
			k := "call<(*" + edPkg + ".Scalar).SetBytesWithClamping>(" + tNewSc + ", slice(" + h + ", const:0, const:32))"
			why := firstNonEmpty(
				want("signature buffer", arg(ct, 0), "param:0"),
				want("public key", arg(ct, 1), scaled("slice(param:1, const:32, const:nil)", rr)),
				want("message", arg(ct, 2), "param:3"),
				want("nonce prefix", arg(ct, 3), "cat(slice("+h+", const:32, const:nil), slice("+b+", const:32, const:nil))"),
				want("secret scalar", arg(ct, 4), "call<(*"+edPkg+".Scalar).Multiply>("+tNewSc+", "+k+", "+rr+")"),
			)
			r.Check(why == "", R2, "blindKeySign => signInternal(sig, r*A, msg, h[32:]||b[32:], k*r)", p.InstrPos(sites[0]), "bound", why)
			r.Check(strings.Contains(arg(ct, 4).String(), rr) && strings.Contains(arg(ct, 1).String(), rr), R1, "blindKeySign: same blinding scalar for key and secret", p.InstrPos(sites[0]), rr, "the public key and the secret scalar are not scaled by the same SetBytes(SHA-512(blind||0||context)[:32])")
		}
	}
	// R4: blind || 0x00 || context is assembled in storage no argument aliases
	// (append onto a caller's slice would write the separator into the caller's
	// array - possibly into the context itself - before hashing)
	for _, name := range []string{"~/ed25519.BlindPublicKeyWithContext", "~/ed25519.UnblindPublicKeyWithContext", "~/ed25519.blindKeySign"} {
		fn := anchor(p, r, R4, name)
		if fn == nil {
			continue
		}
		n := 0
		for _, ds := range p.deepSites(p.NewSym(fn), func(n string) bool { return n == "crypto/sha512.Sum512" }) {
			c := ds.Site
			args := c.Common().Args
			if len(args) != 1 {
				continue
			}
			n++
			root, why := appendRoot(args[0], 0)
			ok := why == ""
			if root == args[0] {
				// not grown at all: a plain view is hashed, nothing is written
				r.OK(R4, fmt.Sprintf("%s: SHA-512 input #%d is a plain view", shortName(fn), n), p.InstrPos(c), "no append")
				continue
			}
			if ok {
				switch x := root.(type) {
				case *ssa.MakeSlice, *ssa.Convert:
				case *ssa.Const:
					ok = x.Value == nil
				case *ssa.Slice:
					_, isAlloc := x.X.(*ssa.Alloc)
					ok = isAlloc
				default:
					ok = false
				}
				if !ok {
					why = fmt.Sprintf("the buffer is grown from %s (%T), which may share its array with an argument", root.Name(), root)
				}
			}
			r.Check(ok, R4, fmt.Sprintf("%s: SHA-512 input #%d assembled in fresh storage", shortName(fn), n), p.InstrPos(c), "append chain rooted at a fresh buffer", why)
		}
		if n == 0 {
			// streamed into a hash object (h.Write(blind); h.Write([]byte{0}); ...):
			// no buffer is assembled, so no argument's storage can be written
			for _, ds := range p.deepSites(p.NewSym(fn), func(n string) bool { return n == "(hash.Hash).Sum" }) {
				if c, ok := ds.Site.(*ssa.Call); ok {
					if t := ds.S.hashSum(c); strings.Contains(t.String(), "hash<sha512>(") {
						n++
						r.OK(R4, fmt.Sprintf("%s: SHA-512 input #%d is streamed into the hash", shortName(fn), n), p.InstrPos(c), "Write calls only read their arguments")
					}
				}
			}
		}
		if n == 0 {
			r.Fail(R4, shortName(fn)+": SHA-512 input assembled in fresh storage", p.Pos(fn.Pos()), "no SHA-512 call found")
		}
	}
	// plain signing uses the same signInternal
	if fn := anchor(p, r, R2, "~/ed25519.sign"); fn != nil {
		sites := sitesIn(fn, func(n string) bool { return n == "ed25519.signInternal" })
		r.Check(len(sites) == 1, R2, "plain sign uses the same signInternal", p.Pos(fn.Pos()), "one call", "plain signing no longer shares signInternal with blinded signing")
	}
	for _, w := range []struct{ name, pat string }{
		{"~/ed25519.BlindPublicKey", "call<ed25519.BlindPublicKeyWithContext>(param:0, param:1, const:nil)"},
		{"~/ed25519.UnblindPublicKey", "call<ed25519.UnblindPublicKeyWithContext>(param:0, param:1, const:nil)"},
	} {
		if fn := anchor(p, r, R1, w.name); fn != nil {
			retValueIs(p, r, R1, fn, "the context-ful variant with nil context", "extract<0>("+w.pat+")")
		}
	}
	if fn := anchor(p, r, R1, "~/ed25519.BlindKeySign"); fn != nil {
		retValueIs(p, r, R1, fn, "BlindKeySignWithContext(priv, msg, blind, nil)", "call<ed25519.BlindKeySignWithContext>(param:0, param:1, param:2, const:nil)")
	}
	if fn := anchor(p, r, R1, "~/ed25519.BlindKeySignWithContext"); fn != nil {
		s := p.NewSym(fn)
		sites := sitesIn(fn, func(n string) bool { return n == "ed25519.blindKeySign" })
		ok := len(sites) == 1
		why := "expected one call to blindKeySign"
		if ok {
			ct := s.callTerm(sites[0])
			why = firstNonEmpty(want("private key", arg(ct, 1), "param:0"), want("blind", arg(ct, 2), "param:2"), want("message", arg(ct, 3), "param:1"), want("context", arg(ct, 4), "param:3"))
			ok = why == ""
		}
		r.Check(ok, R1, "BlindKeySignWithContext forwards (privateKey, blind, message, context)", p.Pos(fn.Pos()), "arguments forwarded in the right slots", why)
	}

	// R5: keys, blinds and contexts are inputs only - the same key object gives
	// the same blinded signature every time (a key wiped or rewritten by one
	// blinded signing makes the next one a signature under another key)
	const R6 = "C15.fixed-base-tables-are-the-reference's"
	r.Rule(R6, "basepointTable and basepointNafTable agree with GOROOT crypto/internal/edwards25519 (built once and completely before use; a sync.OnceValue spelling with the reference's body is accepted) - shared with C14", 2)
	c14TablesAgree(p, r, R6)
	const R5 = "C15.key-material-is-read-only"
	r.Rule(R5, "the six blinding entry points never write memory of or reachable from their key, blind, message or context arguments (mod/ref summaries; appends behind len are C16's)", 6)
	eff := p.Effects()
	for _, name := range []string{"~/ed25519.BlindPublicKeyWithContext", "~/ed25519.BlindPublicKey", "~/ed25519.UnblindPublicKeyWithContext", "~/ed25519.UnblindPublicKey", "~/ed25519.BlindKeySignWithContext", "~/ed25519.BlindKeySign"} {
		fn := anchor(p, r, R5, name)
		if fn == nil {
			continue
		}
		sm := eff.Summary(fn)
		var bad []string
		for k, w := range sm.All {
			if k.kind == 'G' || k.op == "builtin.append" {
				continue
			}
			bad = append(bad, fmt.Sprintf("argument #%d: %s", k.idx, eff.describe(w)))
		}
		sort.Strings(bad)
		r.Check(len(bad) == 0, R5, shortName(fn)+": arguments are not written", p.Pos(fn.Pos()), "no may-write through any argument", strings.Join(bad, "; "))
	}

	// R3 determinism
	mut := p.mutableGlobals()
	for _, name := range []string{"~/ed25519.BlindPublicKeyWithContext", "~/ed25519.BlindPublicKey", "~/ed25519.UnblindPublicKeyWithContext", "~/ed25519.UnblindPublicKey", "~/ed25519.BlindKeySignWithContext", "~/ed25519.BlindKeySign"} {
		fn := anchor(p, r, R3, name)
		if fn == nil {
			continue
		}
		hits := p.entropyReach(fn)
		r.Check(len(hits) == 0, R3, shortName(fn)+": no entropy source reachable", p.Pos(fn.Pos()), "0 paths to crypto/rand, math/rand, time.Now", strings.Join(hits, " | "))
		var g []string
		for _, x := range p.globalsTouched(fn, mut) {
			if strings.Contains(x, "(once: ") {
				continue // precomputed tables written only inside sync.Once.Do
			}
			g = append(g, x)
		}
		r.Check(len(g) == 0, R3, shortName(fn)+": no mutable package-level state", p.Pos(fn.Pos()), "only sync.Once-protected tables", strings.Join(g, "; "))
	}
}

// entropyReach: shortest call paths from fn to an entropy source.
func (p *Prog) entropyReach(fn *ssa.Function) []string {
	// descend into pat-go and third-party bodies; standard-library functions
	// are leaves (their internal interface dispatch, e.g. io.Reader inside
	// fmt/math/big scanning, would connect everything to everything) and count
	// only if they are themselves entropy APIs
	visited := map[*ssa.Function]bool{}
	parent := p.Reach([]*ssa.Function{fn}, func(g *ssa.Function) bool {
		visited[g] = true
		return true
	})
	_ = visited
	parent = p.reachNoStdBodies(fn)
	var hits []string
	for g := range parent {
		n := g.RelString(nil)
		if isEntropySink(n) {
			hits = append(hits, pathTo(parent, g))
		}
		if g.Blocks == nil {
			continue
		}
		// loads of crypto/rand.Reader
		for _, b := range g.Blocks {
			for _, in := range b.Instrs {
				for _, op := range in.Operands(nil) {
					if op == nil || *op == nil {
						continue
					}
					if gl, ok := (*op).(*ssa.Global); ok && gl.RelString(nil) == "crypto/rand.Reader" && fnPkgPath(g) != "crypto/rand" {
						hits = append(hits, pathTo(parent, g)+" loads crypto/rand.Reader")
					}
				}
			}
		}
	}
	if len(hits) > 5 {
		hits = hits[:5]
	}
	return hits
}

func isEntropySink(n string) bool {
	switch n {
	case "crypto/rand.Read", "crypto/rand.Int", "crypto/rand.Prime", "time.Now", "os.Getpid":
		return true
	}
	return strings.HasPrefix(n, "math/rand.") || strings.HasPrefix(n, "math/rand/v2.") || strings.HasPrefix(n, "(*crypto/rand.")
}

// reachNoStdBodies: forward reachability where std functions are recorded but
// not descended into.
func (p *Prog) reachNoStdBodies(fn *ssa.Function) map[*ssa.Function]*ssa.Function {
	parent := map[*ssa.Function]*ssa.Function{fn: nil}
	work := []*ssa.Function{fn}
	for len(work) > 0 {
		f := work[0]
		work = work[1:]
		if f.Blocks == nil {
			continue
		}
		pk := fnPkgPath(f)
		if f != fn && !strings.Contains(pk, ".") {
			continue // standard library: leaf
		}
		visit := func(g *ssa.Function) {
			if g == nil {
				return
			}
			if _, ok := parent[g]; ok {
				return
			}
			parent[g] = f
			work = append(work, g)
		}
		for _, b := range f.Blocks {
			for _, in := range b.Instrs {
				switch in := in.(type) {
				case ssa.CallInstruction:
					cs, _ := p.Callees(in)
					for _, g := range cs {
						visit(g)
					}
				case *ssa.MakeClosure:
					visit(in.Fn.(*ssa.Function))
				}
			}
		}
	}
	return parent
}

// appendRoot follows a chain of append calls (and phis of the same chain are
// not followed) down to the value first appended to.
func appendRoot(v ssa.Value, depth int) (ssa.Value, string) {
	if depth > 16 {
		return v, "append chain too deep"
	}
	switch x := v.(type) {
	case *ssa.Call:
		if b, ok := x.Call.Value.(*ssa.Builtin); ok && b.Name() == "append" {
			return appendRoot(x.Call.Args[0], depth+1)
		}
	case *ssa.ChangeType:
		return appendRoot(x.X, depth+1)
	}
	return v, ""
}
