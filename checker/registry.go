package main

// Registry key agreement: a table held in a struct field is written and read
// under the same spelling of its key. For every map-typed field of a module
// struct, the chain of functions applied to the key (conversions ignored) is
// computed at each MapUpdate and each Lookup; all sites of one field must
// agree. Decoders whose inverse is proved elsewhere (unpadOriginName, C20)
// are not a respelling and are dropped from the chain. Normalising the key on
// registration but not on lookup (or the reverse) makes a registered entry
// unreachable for some spellings.

import (
	"fmt"
	"go/types"
	"sort"
	"strings"

	"golang.org/x/tools/go/ssa"
)

var registryDecoders = map[string]string{
	"unpadOriginName": "inverse of padOriginName (C20 padding-arithmetic / unpad rules)",
}

func keyChain(v ssa.Value) []string {
	var chain []string
	for depth := 0; depth < 12; depth++ {
		switch x := v.(type) {
		case *ssa.Convert:
			v = x.X
			continue
		case *ssa.ChangeType:
			v = x.X
			continue
		case *ssa.Call:
			g := x.Call.StaticCallee()
			if g == nil || len(x.Call.Args) == 0 {
				return chain
			}
			if _, drop := registryDecoders[g.Name()]; !drop {
				name := g.Name()
				if g.Pkg != nil {
					name = g.Pkg.Pkg.Name() + "." + name
				}
				chain = append(chain, name)
			}
			var next ssa.Value
			for _, a := range x.Call.Args {
				if isByteSliceOrString(a.Type()) {
					next = a
					break
				}
			}
			if next == nil {
				return chain
			}
			v = next
			continue
		}
		return chain
	}
	return chain
}

// mapField: the struct field a map value was loaded from ("" if not a field).
func mapField(v ssa.Value) string {
	ld, ok := v.(*ssa.UnOp)
	if !ok {
		return ""
	}
	fa, ok := ld.X.(*ssa.FieldAddr)
	if !ok {
		if f, ok := v.(*ssa.Field); ok {
			if st, ok := f.X.Type().Underlying().(*types.Struct); ok {
				return f.X.Type().String() + "." + st.Field(f.Field).Name()
			}
		}
		return ""
	}
	pt, ok := fa.X.Type().Underlying().(*types.Pointer)
	if !ok {
		return ""
	}
	return pt.Elem().String() + "." + fieldNameOf(fa)
}

func registryKeysAgree(p *Prog, r *Report, rule string) {
	type site struct {
		pos, kind string
		chain     string
	}
	by := map[string][]site{}
	for _, fn := range p.ModuleFuncs() {
		if fn.Blocks == nil {
			continue
		}
		for _, b := range fn.Blocks {
			for _, in := range b.Instrs {
				switch x := in.(type) {
				case *ssa.MapUpdate:
					if f := mapFieldOf(x.Map); f != "" {
						by[f] = append(by[f], site{p.InstrPos(x), "store", strings.Join(keyChain(x.Key), " <- ")})
					}
				case *ssa.Lookup:
					if _, isMap := x.X.Type().Underlying().(*types.Map); isMap {
						if f := mapFieldOf(x.X); f != "" {
							by[f] = append(by[f], site{p.InstrPos(x), "lookup", strings.Join(keyChain(x.Index), " <- ")})
						}
					}
				}
			}
		}
	}
	var fields []string
	for f := range by {
		fields = append(fields, f)
	}
	sort.Strings(fields)
	for _, f := range fields {
		ss := by[f]
		bad := ""
		for _, s := range ss[1:] {
			if s.chain != ss[0].chain {
				bad = fmt.Sprintf("%s at %s spells the key as [%s] but the %s at %s as [%s]", s.kind, s.pos, s.chain, ss[0].kind, ss[0].pos, ss[0].chain)
			}
		}
		short := f[strings.LastIndex(f, "/")+1:]
		r.Check(bad == "", rule, "table "+short+": stored and looked up under the same spelling of the key", ss[0].pos, fmt.Sprintf("%d sites, key transformation [%s] at each", len(ss), ss[0].chain), bad)
	}
	if len(fields) == 0 {
		r.Fail(rule, "tables held in struct fields", "-", "no map field access found (rule no longer sees the constructs it was written for)")
	}
}

func mapFieldOf(v ssa.Value) string {
	if f := mapField(v); f != "" {
		return f
	}
	// a local copy of the field (phi-free single assignment)
	return ""
}
