package main

// C20 - origin names are recovered exactly; their length leaks only in
// 32-byte buckets.

import (
	"fmt"
	"go/token"
	"go/types"
	"math/big"
	"strings"

	"golang.org/x/tools/go/ssa"
)

func init() { props["C20"] = c20 }

// affine: A*q + B over integers q >= 0 (A == 0: a constant).
type affine struct{ A, B *big.Int }

func affC(v int64) affine { return affine{big.NewInt(0), big.NewInt(v)} }

func (a affine) String() string {
	if a.A == nil || a.B == nil {
		return "?"
	}
	if a.A.Sign() == 0 {
		return a.B.String()
	}
	return a.A.String() + "q+" + a.B.String()
}

// goQuoRem: Go's truncated division on constants.
func goQuoRem(x, m *big.Int) (*big.Int, *big.Int) {
	q, r := new(big.Int).QuoRem(x, m, new(big.Int))
	return q, r
}

// evalAffine evaluates an integer term in which len(param:0) is n.
func evalAffine(t *Term, n affine) (affine, string) {
	switch t.Op {
	case "affine":
		parts := strings.SplitN(t.Name, "/", 2)
		A, ok1 := new(big.Int).SetString(parts[0], 10)
		B, ok2 := new(big.Int).SetString(parts[1], 10)
		if ok1 && ok2 {
			return affine{A, B}, ""
		}
	case "const":
		v, ok := new(big.Int).SetString(t.Name, 10)
		if !ok {
			return affine{}, "non-integer constant " + t.Name
		}
		return affine{big.NewInt(0), v}, ""
	case "len":
		if len(t.Args) == 1 && t.Args[0].String() == "param:0" {
			return n, ""
		}
		return affine{}, "length of something other than the name: " + t.String()
	case "conv":
		// integer width conversions: lengths are far below 2^31 (stated assumption)
		if len(t.Args) == 1 {
			return evalAffine(t.Args[0], n)
		}
	case "bin":
		if len(t.Args) != 2 {
			break
		}
		x, why := evalAffine(t.Args[0], n)
		if why != "" {
			return affine{}, why
		}
		y, why := evalAffine(t.Args[1], n)
		if why != "" {
			return affine{}, why
		}
		switch t.Name {
		case "+":
			return affine{new(big.Int).Add(x.A, y.A), new(big.Int).Add(x.B, y.B)}, ""
		case "-":
			return affine{new(big.Int).Sub(x.A, y.A), new(big.Int).Sub(x.B, y.B)}, ""
		case "*":
			if x.A.Sign() == 0 {
				return affine{new(big.Int).Mul(y.A, x.B), new(big.Int).Mul(y.B, x.B)}, ""
			}
			if y.A.Sign() == 0 {
				return affine{new(big.Int).Mul(x.A, y.B), new(big.Int).Mul(x.B, y.B)}, ""
			}
			return affine{}, "product of two non-constant terms"
		case "/", "%":
			if y.A.Sign() != 0 || y.B.Sign() <= 0 {
				return affine{}, "division by a non-constant or non-positive term"
			}
			m := y.B
			if x.A.Sign() == 0 {
				q, r := goQuoRem(x.B, m)
				if t.Name == "/" {
					return affine{big.NewInt(0), q}, ""
				}
				return affine{big.NewInt(0), r}, ""
			}
			// (A q + B) with m | A, A >= 0, B >= 0: exact for all q >= 0
			if x.A.Sign() < 0 || x.B.Sign() < 0 || new(big.Int).Rem(x.A, m).Sign() != 0 {
				return affine{}, "quotient/remainder of " + x.String() + " by " + m.String() + " is not affine in q"
			}
			q, r := goQuoRem(x.B, m)
			if t.Name == "/" {
				return affine{new(big.Int).Quo(x.A, m), q}, ""
			}
			return affine{big.NewInt(0), r}, ""
		case "&":
			// x & (2^k-1) == x % 2^k for x >= 0
			if y.A.Sign() == 0 && x.A.Sign() >= 0 && x.B.Sign() >= 0 {
				m := new(big.Int).Add(y.B, big.NewInt(1))
				if m.Sign() > 0 && new(big.Int).And(m, y.B).Sign() == 0 && new(big.Int).Rem(x.A, m).Sign() == 0 {
					return affine{big.NewInt(0), new(big.Int).Rem(x.B, m)}, ""
				}
			}
			return affine{}, "mask outside the domain"
		case "&^":
			// x &^ (2^k-1) == x - x % 2^k for x >= 0
			if y.A.Sign() == 0 && x.A.Sign() >= 0 && x.B.Sign() >= 0 {
				m := new(big.Int).Add(y.B, big.NewInt(1))
				if m.Sign() > 0 && new(big.Int).And(m, y.B).Sign() == 0 && new(big.Int).Rem(x.A, m).Sign() == 0 {
					return affine{new(big.Int).Set(x.A), new(big.Int).Sub(x.B, new(big.Int).Rem(x.B, m))}, ""
				}
			}
			return affine{}, "mask outside the domain"
		}
	}
	return affine{}, "term outside the affine domain: " + clip(t.String(), 120)
}

func c20(p *Prog, r *Report) {
	r.Explanation = "Abstract interpretation of the padding arithmetic over residue classes (name length n = 0, or n = 32q+r for each r in 1..32 with q >= 0 symbolic; +, -, constant *, /, % are exact in the affine-in-q domain, with Go's truncated remainder on constants), term evaluation of the padded buffer's content, an inductive scan-loop rule for the unpadder proved with guard facts and the linear range prover, and use/flow rules on SSA: (1) padOriginName returns name || zeros whose total length is 32 for the empty name and 32q+32 for n = 32q+r, i.e. 32*max(1, ceil(n/32)), for every n; (2) unpadOriginName scans backwards by one from the last byte, continues only over zero bytes, returns the prefix ending at the first non-zero byte found and the empty name when none is found - so it strips exactly the trailing zeros, and with (1) it inverts padding on every name not ending in a zero byte; (3) the client's origin name reaches the request only through padOriginName (every other field of the sealed and outer encodings has a width independent of the name), so the request size is a function of the padded length alone; (4) the issuer looks the unpadded name up by exact map key and refuses on a miss, before any signing."
	r.NotDecided = "that HPKE seal/open and the codecs transport the padded name unchanged (C01/C04 layouts; go-hpke contract); behaviour for name lengths at or above 2^31-64 (int overflow)."
	r.Assumptions = append(r.Assumptions, "name lengths are below 2^31-64", "HPKE ciphertext length = plaintext length + a constant (go-hpke/AEAD contract)", "Go map lookup with a string key is exact byte equality")
	r.Trusted = append(r.Trusted, "go/ssa", "term evaluator (terms.go)", "range prover (ranges.go)", "affine residue domain (c20.go)")
	const R1 = "C20.padding-arithmetic"
	const R2 = "C20.unpad-strips-exactly-trailing-zeros"
	const R3 = "C20.name-reaches-request-only-padded"
	const R4 = "C20.exact-lookup"
	r.Rule(R1, "padOriginName = name || zeros with total length 32*max(1, ceil(n/32)) for every length n (n = 0 and each residue class 1..32 with symbolic quotient)", 34)
	r.Rule(R2, "unpadOriginName: backward scan by one, continue only on zero bytes, result is the prefix up to the first non-zero byte from the end, \"\" if none", 4)
	r.Rule(R3, "the origin name parameter is used only as the argument of padOriginName; all other request fields have name-independent widths", 4)
	r.Rule(R4, "issuer: name = unpadOriginName(decrypted padded origin); exact map lookup; refusal on a miss dominates signing", 3)

	pad := anchor(p, r, R1, "~/tokens/type3.padOriginName")
	unpad := anchor(p, r, R2, "~/tokens/type3.unpadOriginName")
	if pad == nil || unpad == nil {
		return
	}

	// ---- R1
	c20Pad(p, r, R1, pad)

	// ---- R2
	c20Unpad(p, r, R2, unpad)

	// ---- R3
	enc := anchor(p, r, R3, "~/tokens/type3.encryptOriginTokenRequest")
	create := anchor(p, r, R3, "(~/tokens/type3.RateLimitedClient).CreateTokenRequest")
	onlyArgOf := func(fn *ssa.Function, prm *ssa.Parameter, callee *ssa.Function, argIdx int) {
		var bad []string
		n := 0
		var visit func(v ssa.Value)
		seen := map[ssa.Value]bool{}
		visit = func(v ssa.Value) {
			if seen[v] {
				return
			}
			seen[v] = true
			for _, u := range *v.Referrers() {
				switch x := u.(type) {
				case *ssa.DebugRef:
				case *ssa.Call:
					if x.Call.StaticCallee() == callee && argIdx < len(x.Call.Args) && x.Call.Args[argIdx] == v {
						n++
						for j, a := range x.Call.Args {
							if j != argIdx && a == v {
								bad = append(bad, "also passed as argument "+fmt.Sprint(j)+" at "+p.InstrPos(x))
							}
						}
						continue
					}
					bad = append(bad, "passed to "+calleeName(x.Common())+" at "+p.InstrPos(x))
				case *ssa.Store:
					// spilled parameter (captured or address-taken): follow the cell's loads
					if x.Val == v {
						if al, ok := x.Addr.(*ssa.Alloc); ok {
							for _, lu := range *al.Referrers() {
								if ld, ok := lu.(*ssa.UnOp); ok && ld.Op == token.MUL {
									visit(ld)
								} else if lu != ssa.Instruction(x) {
									if _, dbg := lu.(*ssa.DebugRef); !dbg {
										bad = append(bad, "its cell is used at "+p.InstrPos(lu))
									}
								}
							}
							continue
						}
					}
					bad = append(bad, "stored at "+p.InstrPos(x))
				default:
					bad = append(bad, fmt.Sprintf("used by %T at %s", u, p.InstrPos(u)))
				}
			}
		}
		visit(prm)
		r.Check(len(bad) == 0 && n > 0, R3, fmt.Sprintf("%s: %s is used only as argument %d of %s", shortName(fn), prm.Name(), argIdx, shortName(callee)), p.Pos(fn.Pos()), fmt.Sprintf("%d use(s)", n), fmt.Sprintf("the origin name also flows elsewhere: %s (%d use(s) as the required argument)", strings.Join(uniq(sorted(bad)), "; "), n))
	}
	if enc != nil && create != nil {
		var nameEnc, nameCreate *ssa.Parameter
		for _, prm := range enc.Params {
			if prm.Type().String() == "string" {
				nameEnc = prm
			}
		}
		for _, prm := range create.Params {
			if prm.Type().String() == "string" {
				nameCreate = prm
			}
		}
		if nameEnc == nil || nameCreate == nil {
			r.Fail(R3, "origin name parameters", p.Pos(enc.Pos()), "the string parameter carrying the origin name was not found")
		} else {
			idx := 0
			for i, prm := range enc.Params {
				if prm == nameEnc {
					idx = i
				}
			}
			onlyArgOf(enc, nameEnc, pad, 0)
			onlyArgOf(create, nameCreate, enc, idx)
		}
		// sealed plaintext: u8 || fixed-width blinded message || lp16(padded origin)
		s := p.NewSym(enc)
		found := false
		for _, c := range sitesIn(enc, func(n string) bool { return strings.HasSuffix(n, ".Seal") }) {
			ct := s.callTerm(c)
			pt := arg(ct, len(ct.Args)-1).String()
			wantPat := "cat(u8(param:1), param:2, lp16(cat(param:4, make(*))))"
			alt := "cat(u8(param:1), param:2, lp16(make(*, copy(param:4))))"
			found = true
			r.Check(glob(wantPat, pt) || glob(alt, pt), R3, "sealed plaintext = u8(key id) || blinded message || lp16(padded origin)", p.InstrPos(c), "the name enters the plaintext only inside the 16-bit length-prefixed padded field", "sealed plaintext is "+clip(pt, 300))
		}
		if !found {
			r.Fail(R3, "sealed plaintext", p.Pos(enc.Pos()), "no Seal call found in encryptOriginTokenRequest")
		}
		// the blinded message has a fixed width for the token type (RSA-2048 modulus): decoder reads 256
		if um := anchor(p, r, R3, "(*~/tokens/type3.InnerTokenRequest).Unmarshal"); um != nil {
			us := p.NewSym(um)
			okW := false
			for _, rp := range us.ff.RetPoints(verdictIndex(um)) {
				if rp.Outcome == Fails {
					continue
				}
				rpc := rp
				seq := readSeqString(p.ReadSequence(us, &rpc))
				if strings.Contains(seq, "bytes(256)") || strings.Contains(seq, "256") {
					okW = true
				}
				r.Note("%s", "InnerTokenRequest.Unmarshal reads "+seq)
			}
			r.Check(okW, R3, "inner request: blinded message has the fixed width 256", p.Pos(um.Pos()), "fixed-width read", "the blinded message is not read with a fixed width")
		}
	}

	// ---- R4
	if ev := anchor(p, r, R4, "(~/tokens/type3.RateLimitedIssuer).Evaluate"); ev != nil {
		s := p.NewSym(ev)
		// comma-ok lookups in Evaluate or in an in-module helper it calls, each
		// evaluated with the helper's parameters bound to Evaluate's arguments
		type lkc struct {
			lk *ssa.Lookup
			s  *Sym
		}
		var lookups []lkc
		var collect func(cs *Sym, f *ssa.Function, depth int)
		collect = func(cs *Sym, f *ssa.Function, depth int) {
			for _, b := range f.Blocks {
				for _, in := range b.Instrs {
					if lk, ok := in.(*ssa.Lookup); ok && lk.CommaOk {
						lookups = append(lookups, lkc{lk, cs})
					}
					if c, ok := in.(*ssa.Call); ok && depth < 3 {
						if g := c.Call.StaticCallee(); g != nil && InModule(g) && g.Blocks != nil && fnPkgPath(g) == fnPkgPath(ev) && !isDecoder(g) {
							ch := cs.child(g)
							cs.bindArgs(ch, g, c.Call.Args, c)
							collect(ch, g, depth+1)
						}
					}
				}
			}
		}
		collect(s, ev, 0)
		okLookup := false
		var theLookup *ssa.Lookup
		var theSym *Sym
		for _, l := range lookups {
			k := l.s.Of(l.lk.Index).String()
			if glob("call<tokens/type3.unpadOriginName>(*paddedOrigin*)", k) || glob("*unpadOriginName*(*paddedOrigin*", k) {
				okLookup = true
				theLookup, theSym = l.lk, l.s
			}
			r.Note("%s", "lookup key "+clip(k, 300))
		}
		r.Check(okLookup, R4, "issuer looks up unpadOriginName(decrypted paddedOrigin) by exact key", p.Pos(ev.Pos()), "comma-ok map lookup keyed by the unpadded name", "no comma-ok map lookup keyed by unpadOriginName(originTokenRequest.paddedOrigin) was found")
		if theLookup != nil {
			// the decrypted request comes from decryptOriginTokenRequest with the request's fields
			k := theSym.Of(theLookup.Index).String()
			// ... directly, or through an in-module helper that reaches it
			fromDecrypt := strings.Contains(k, "decryptOriginTokenRequest")
			if dec := p.Func("~/tokens/type3.decryptOriginTokenRequest"); dec != nil && !fromDecrypt {
				for _, c := range sitesIn(ev, func(n string) bool { return strings.Contains(k, "call<"+n+">(") }) {
					if f := c.Common().StaticCallee(); f != nil && InModule(f) {
						if _, ok := p.Reach([]*ssa.Function{f}, InModule)[dec]; ok {
							fromDecrypt = true
						}
					}
				}
			}
			r.Check(fromDecrypt, R4, "the padded origin is the one decrypted from this request", p.InstrPos(theLookup), "bound to decryptOriginTokenRequest's result", "lookup key "+clip(k, 300)+" does not come from decryptOriginTokenRequest")
			// every signing site is dominated by ok == true
			var okVal ssa.Value
			for _, u := range *theLookup.Referrers() {
				if ex, isEx := u.(*ssa.Extract); isEx && ex.Index == 1 {
					okVal = ex
				}
			}
			n, bad := 0, ""
			for _, c := range sitesIn(ev, func(n string) bool { return strings.HasSuffix(n, ".BlindSign") }) {
				n++
				dom := false
				for _, a := range p.expandFacts(s, s.ff.At(c.Block()), 0) {
					if a.Kind == Truth && a.Pol && a.V == okVal {
						dom = true
					}
				}
				if !dom {
					bad = "BlindSign at " + p.InstrPos(c) + " is reachable when the origin is not registered"
				}
			}
			r.Check(n > 0 && bad == "", R4, "signing only for a registered origin", p.Pos(ev.Pos()), fmt.Sprintf("%d signing site(s) dominated by the lookup hit", n), firstNonEmpty(bad, "no signing site found"))
			// a registered origin is served: no other refusal of Evaluate is decided
			// by the recovered name or by the padded bytes it was recovered from
			// (what is derived from the registry hit - the index key - is not the name)
			ff := p.Facts(ev)
			edgeOK := acceptingEdges(ff, ev)
			nRej, badRej := 0, ""
			for _, b := range ev.Blocks {
				if ff.dead[b] {
					continue
				}
				ifi, ok := b.Instrs[len(b.Instrs)-1].(*ssa.If)
				if !ok || len(b.Succs) != 2 || edgeOK(b, b.Succs[0]) == edgeOK(b, b.Succs[1]) {
					continue
				}
				nRej++
				c := ifi.Cond
				for {
					if u, ok := c.(*ssa.UnOp); ok && u.Op == token.NOT {
						c = u.X
						continue
					}
					break
				}
				if c == okVal {
					continue
				}
				if w := dependsOnOriginName(c, map[ssa.Value]bool{}, 0); w != nil {
					badRej = "the refusal at " + p.InstrPos(ifi) + " is decided by the origin name itself (" + p.InstrPos(w.(ssa.Instruction)) + "), not by the registry lookup"
				}
			}
			registryKeysAgree(p, r, R4)
			r.Check(nRej > 0 && badRej == "", R4, "a name is refused only by the registry lookup", p.Pos(ev.Pos()), fmt.Sprintf("%d rejecting branches, none but the lookup miss depends on the recovered name or its padded form", nRej), firstNonEmpty(badRej, "no rejecting branch found"))
		}
	}
}

// c20Unpad: the inductive backward-scan rule.
func c20Unpad(p *Prog, r *Report, rule string, fn *ssa.Function) {
	// bytes.TrimRight(p, "\x00") strips exactly the trailing zero bytes (documented contract)
	if t := p.NewSym(fn).returnTerm(); t != nil {
		switch t.String() {
		case `conv<string>(call<bytes.TrimRight>(param:0, lit:"\x00"))`, `call<bytes.TrimRight>(param:0, lit:"\x00")`, `call<strings.TrimRight>(conv<string>(param:0), lit:"\x00")`, `call<strings.TrimRight>(param:0, lit:"\x00")`:
			for _, k := range []string{"scan starts at the last byte", "the scan continues only over zero bytes", "results: prefix ending at the non-zero byte found, or \"\" when the scan passed the first byte", "scan indices stay within the input"} {
				r.OK(rule, k, p.Pos(fn.Pos()), "library trim of trailing zero bytes: "+t.String())
			}
			return
		}
	}
	rg := p.NewRange(fn)
	prm := fn.Params[0]
	// the scan variable: a phi j with a back edge j-1
	var j *ssa.Phi
	var initV ssa.Value
	var backPreds []*ssa.BasicBlock
	for _, b := range fn.Blocks {
		for _, in := range b.Instrs {
			ph, ok := in.(*ssa.Phi)
			if !ok {
				break
			}
			jl := rg.atom(ph)
			var inits []ssa.Value
			var backs []*ssa.BasicBlock
			okStep := true
			for i, e := range ph.Edges {
				el, ok := rg.lin(e)
				if ok && el.minus(jl).addConst(1).isConst() && el.minus(jl).addConst(1).k.Sign() == 0 && len(el.minus(jl).c) == 0 {
					backs = append(backs, b.Preds[i])
					continue
				}
				if b.Preds[i].Dominates(b) || !b.Dominates(b.Preds[i]) {
					inits = append(inits, e)
				} else {
					okStep = false
				}
			}
			if okStep && len(backs) > 0 && len(inits) == 1 {
				j, initV, backPreds = ph, inits[0], backs
			}
		}
	}
	if j == nil {
		r.Fail(rule, "unpadOriginName: backward scan variable", p.Pos(fn.Pos()), "no loop variable that starts at the end of the input and steps down by one was found: the function does not scan trailing bytes from the end")
		return
	}
	jl := rg.atom(j)
	plen := rg.lenOf(prm)
	rg.addressSpaceAxiom()
	// the examined index e = j + c: from the loads of p[e] inside the function
	var c *big.Rat
	var loads []*ssa.UnOp
	for _, b := range fn.Blocks {
		for _, in := range b.Instrs {
			ld, ok := in.(*ssa.UnOp)
			if !ok || ld.Op != token.MUL {
				continue
			}
			ia, ok := ld.X.(*ssa.IndexAddr)
			if !ok || ia.X != ssa.Value(prm) {
				continue
			}
			il, ok := rg.lin(ia.Index)
			if !ok {
				continue
			}
			d := il.minus(jl)
			if len(d.c) != 0 {
				r.Fail(rule, "unpadOriginName: bytes are examined at the scan position", p.InstrPos(ld), "a byte is read at "+il.Short()+", which is not the scan variable plus a constant")
				return
			}
			if c == nil {
				c = new(big.Rat).Set(d.k)
			} else if c.Cmp(d.k) != 0 {
				r.Fail(rule, "unpadOriginName: bytes are examined at the scan position", p.InstrPos(ld), "bytes are read at two different offsets from the scan variable")
				return
			}
			loads = append(loads, ld)
		}
	}
	if c == nil {
		r.Fail(rule, "unpadOriginName: bytes are examined at the scan position", p.Pos(fn.Pos()), "no byte of the input is examined")
		return
	}
	pos := newLin().plus(jl)
	pos.k.Add(pos.k, c) // examined position e = j + c
	// (a) start: e == len(p) - 1
	il, ok := rg.lin(initV)
	start := il
	if ok {
		start = il.clone()
		start.k.Add(start.k, c)
	}
	d := start.minus(plen).addConst(1)
	r.Check(ok && len(d.c) == 0 && d.k.Sign() == 0, rule, "scan starts at the last byte", p.Pos(fn.Pos()), "first examined position = len(p)-1", "the first examined position is "+start.Short()+", required len(p)-1")
	// byte-is-zero facts
	isZeroFact := func(facts []Atom, wantZero bool) bool {
		for _, a := range facts {
			if a.Kind != Truth {
				continue
			}
			bo, ok := a.V.(*ssa.BinOp)
			if !ok || (bo.Op != token.EQL && bo.Op != token.NEQ) {
				continue
			}
			var ld ssa.Value
			if isZeroConst(bo.Y) {
				ld = bo.X
			} else if isZeroConst(bo.X) {
				ld = bo.Y
			} else {
				continue
			}
			isLoad := false
			for _, l := range loads {
				if ssa.Value(l) == ld {
					isLoad = true
				}
			}
			if !isLoad {
				continue
			}
			eq := (bo.Op == token.EQL) == a.Pol // fact says byte == 0
			if eq == wantZero {
				return true
			}
		}
		return false
	}
	// (b) every back edge is taken only after seeing a zero byte at e
	okBack := true
	for _, bp := range backPreds {
		if !isZeroFact(rg.s.ff.At(bp), true) {
			okBack = false
		}
	}
	r.Check(okBack, rule, "the scan continues only over zero bytes", p.Pos(j.Pos()), fmt.Sprintf("%d back edge(s), each dominated by p[e] == 0", len(backPreds)), "the scan steps past a byte without having established that it is zero")
	// (c) returns
	nEmpty, nPrefix := 0, 0
	okRet, detail := true, ""
	for _, rp := range rg.s.ff.RetPoints(-1) {
		v := rp.Vals[0]
		blk := rp.Ret.Block()
		facts := rg.factsAt(blk)
		if len(rp.Facts) > 0 {
			facts = nil
			for _, a := range rp.Facts {
				facts = append(facts, rg.cmpFact(a)...)
			}
		}
		if k, isC := v.(*ssa.Const); isC && k.Value != nil && k.Value.ExactString() == `""` {
			nEmpty++
			// only when nothing non-zero was found: e < 0
			if !rg.entails(facts, pos.scale(-1).addConst(-1)) {
				okRet, detail = false, "the empty name is returned at "+p.Pos(rp.Ret.Pos())+" without the scan having passed the first byte"
			}
			continue
		}
		cv, isConv := v.(*ssa.Convert)
		if !isConv {
			okRet, detail = false, "a result at "+p.Pos(rp.Ret.Pos())+" is not a prefix of the input"
			continue
		}
		base, off, ln, okV := rg.viewOf(cv.X)
		want := pos.addConst(1)
		if !okV || base != ssa.Value(prm) {
			nPrefix++
			okRet, detail = false, "a result at "+p.Pos(rp.Ret.Pos())+" is not a view of the input"
			continue
		}
		if !(len(off.c) == 0 && off.k.Sign() == 0) {
			nPrefix++
			okRet, detail = false, "the result does not start at the first byte"
			continue
		}
		// the two ways out of the scan may share one return (for e >= 0 && p[e] == 0 { e-- }):
		// judge each way in separately
		type way struct {
			atoms []Atom
			lins  []Lin
		}
		var ways []way
		if rp.Block == blk && len(blk.Preds) > 1 {
			for _, pr := range blk.Preds {
				if rg.s.ff.dead[pr] || rg.s.ff.deadEdge[[2]*ssa.BasicBlock{pr, blk}] {
					continue
				}
				at := rg.s.ff.AtEdge(pr, blk)
				var ls []Lin
				for _, a := range at {
					ls = append(ls, rg.cmpFact(a)...)
				}
				ways = append(ways, way{at, ls})
			}
		} else {
			ways = []way{{rp.Facts, facts}}
		}
		for _, w := range ways {
			if rg.entails(w.lins, pos.scale(-1).addConst(-1)) {
				// the scan passed the first byte: the prefix returned must be empty
				nEmpty++
				if !rg.entails(w.lins, ln.scale(-1)) {
					okRet, detail = false, "after the scan passed the first byte the result at "+p.Pos(rp.Ret.Pos())+" has length "+ln.Short()+", required 0"
				}
				continue
			}
			nPrefix++
			switch {
			case !(rg.entails(w.lins, ln.minus(want)) && rg.entails(w.lins, want.minus(ln))):
				okRet, detail = false, "the result has length "+ln.Short()+", required "+want.Short()+" (up to and including the non-zero byte found)"
			case !isZeroFact(w.atoms, false):
				okRet, detail = false, "the prefix is returned at "+p.Pos(rp.Ret.Pos())+" without the byte at its end having been found non-zero"
			}
		}
	}
	r.Check(okRet && nEmpty > 0 && nPrefix > 0, rule, "results: prefix ending at the non-zero byte found, or \"\" when the scan passed the first byte", p.Pos(fn.Pos()), fmt.Sprintf("%d empty, %d prefix return(s)", nEmpty, nPrefix), firstNonEmpty(detail, "missing empty or prefix return"))
	// (d) index obligations proved
	nOb, bad := 0, ""
	for _, o := range rg.obligations() {
		if o.kind == "panic" || o.kind == "assert" {
			continue
		}
		nOb++
		if !o.proved {
			bad = o.desc + ": " + o.why + " at " + p.InstrPos(o.in)
		}
	}
	r.Check(bad == "", rule, "scan indices stay within the input", p.Pos(fn.Pos()), fmt.Sprintf("%d bounds obligations proved", nOb), bad)
}

func isZeroConst(v ssa.Value) bool {
	c, ok := v.(*ssa.Const)
	return ok && c.Value != nil && c.Value.ExactString() == "0"
}

// c20Pad: padOriginName = name || zeros with total length 32*max(1, ceil(n/32)).
func c20Pad(p *Prog, r *Report, R1 string, pad *ssa.Function) {
	sym := p.NewSym(pad)
	t := sym.returnTerm()
	if t == nil {
		t = T("unknown", "no single return term")
	}
	r.Note("%s", "padOriginName returns "+t.String())
	// the fresh buffer(s) of the function: their length is evaluated on SSA, so
	// that a size chosen by a branch (if blocks == 0 { blocks = 1 }, max(1, ..))
	// is decided per residue class as well
	var makes []*ssa.MakeSlice
	for _, b := range pad.Blocks {
		for _, in := range b.Instrs {
			if ms, ok := in.(*ssa.MakeSlice); ok {
				makes = append(makes, ms)
			}
		}
	}
	var total func(n affine) (affine, string)
	contentOK := false
	switch {
	case len(makes) == 1 && t.Op == "cat" && len(t.Args) == 2 && t.Args[0].String() == "param:0" && t.Args[1].Op == "make" && len(t.Args[1].Args) == 1:
		contentOK = true // name || zero-filled make
		total = func(n affine) (affine, string) {
			e, why := evalAffineV(sym, makes[0].Len, n, 0)
			if why != "" {
				return affine{}, why
			}
			if e.A.Sign() < 0 || e.B.Sign() < 0 {
				return affine{}, "padding length " + e.String() + " can be negative (make panics)"
			}
			return affine{new(big.Int).Add(n.A, e.A), new(big.Int).Add(n.B, e.B)}, ""
		}
	case len(makes) == 1 && t.Op == "make" && len(t.Args) == 2 && t.Args[1].String() == "copy(param:0)":
		contentOK = true // zero-filled buffer with the name copied to its head; total >= n checked below
		total = func(n affine) (affine, string) {
			l, why := evalAffineV(sym, makes[0].Len, n, 0)
			if why != "" {
				return affine{}, why
			}
			d := affine{new(big.Int).Sub(l.A, n.A), new(big.Int).Sub(l.B, n.B)}
			if d.A.Sign() < 0 || d.B.Sign() < 0 {
				return affine{}, "buffer length " + l.String() + " can be shorter than the name (copy truncates)"
			}
			return l, ""
		}
	}
	r.Check(contentOK, R1, "padOriginName content: the name followed by zero bytes only", p.Pos(pad.Pos()), "name || zero-filled buffer", "returned value "+clip(t.String(), 300)+" is not the name followed by a zero-filled buffer")
	if contentOK {
		// n = 0
		l, why := total(affC(0))
		r.Check(why == "" && l.A.Sign() == 0 && l.B.Cmp(big.NewInt(32)) == 0, R1, "n = 0: padded length 32 (one block for the empty name)", p.Pos(pad.Pos()), "32", "padded length for the empty name is "+l.String()+" "+why+", required 32")
		for res := int64(1); res <= 32; res++ {
			l, why := total(affine{big.NewInt(32), big.NewInt(res)})
			ok := why == "" && l.A.Cmp(big.NewInt(32)) == 0 && l.B.Cmp(big.NewInt(32)) == 0
			got := ""
			if why == "" {
				got = l.String()
			}
			r.Check(ok, R1, fmt.Sprintf("n = 32q+%d: padded length 32q+32", res), p.Pos(pad.Pos()), "32q+32", fmt.Sprintf("padded length for names of length 32q+%d is %s %s, required 32q+32 (the number of 32-byte blocks needed)", res, got, why))
		}
	}
}

// evalAffineV evaluates an integer SSA value of padOriginName in the
// affine-in-q domain (len(name) = n). A phi is resolved by deciding the branch
// facts of its incoming edges in the same domain; it has a value only if
// exactly one edge is feasible, or all feasible edges agree.
// affEnv: values of the parameters of in-module helpers being evaluated
// (pushed around the evaluation of a helper call).
var affEnv = map[ssa.Value]affine{}

func evalAffineV(s *Sym, v ssa.Value, n affine, depth int) (affine, string) {
	if depth > 40 {
		return affine{}, "expression too deep"
	}
	if a, ok := affEnv[v]; ok {
		return a, ""
	}
	bin := func(op string, x, y affine) (affine, string) {
		return evalAffine(T("bin", op, affTerm(x), affTerm(y)), n)
	}
	switch x := v.(type) {
	case *ssa.Const:
		return evalAffine(s.Of(x), n)
	case *ssa.Convert:
		return evalAffineV(s, x.X, n, depth+1)
	case *ssa.ChangeType:
		return evalAffineV(s, x.X, n, depth+1)
	case *ssa.Call:
		if b, ok := x.Call.Value.(*ssa.Builtin); ok {
			switch b.Name() {
			case "len":
				if s.Of(x.Call.Args[0]).String() == "param:0" {
					return n, ""
				}
			case "max", "min":
				var best affine
				for i, a := range x.Call.Args {
					av, why := evalAffineV(s, a, n, depth+1)
					if why != "" {
						return affine{}, why
					}
					if i == 0 {
						best = av
						continue
					}
					c, ok := affCmp(av, best)
					if !ok {
						return affine{}, "max/min of incomparable terms"
					}
					if (b.Name() == "max" && c > 0) || (b.Name() == "min" && c < 0) {
						best = av
					}
				}
				return best, ""
			}
		}
		// an in-module helper computing the size from integer arguments: evaluate
		// its (single) return value with the parameters bound
		if f := x.Call.StaticCallee(); f != nil && InModule(f) && f.Blocks != nil && f.Signature.Results().Len() == 1 && depth < 30 {
			var rets []*ssa.Return
			for _, b := range f.Blocks {
				if rt, ok := b.Instrs[len(b.Instrs)-1].(*ssa.Return); ok {
					rets = append(rets, rt)
				}
			}
			saved := map[ssa.Value]affine{}
			okArgs := true
			for i, prm := range f.Params {
				if i >= len(x.Call.Args) {
					okArgs = false
					break
				}
				av, why := evalAffineV(s, x.Call.Args[i], n, depth+1)
				if why != "" {
					okArgs = false
					break
				}
				if old, had := affEnv[prm]; had {
					saved[prm] = old
				}
				affEnv[prm] = av
			}
			var res *affine
			why := ""
			if okArgs {
				fs := s.prog.NewSym(f)
				for _, rt := range rets {
					// feasible returns only: decide the branch facts at the return
					feasible := true
					for _, fct := range fs.ff.At(rt.Block()) {
						if tv, known := affTruth(fs, fct, n, depth+1); known && !tv {
							feasible = false
						}
					}
					if !feasible {
						continue
					}
					rv, w := evalAffineV(fs, rt.Results[0], n, depth+1)
					if w != "" {
						why = w
						break
					}
					if res == nil {
						r := rv
						res = &r
					} else if res.A.Cmp(rv.A) != 0 || res.B.Cmp(rv.B) != 0 {
						why = "the helper's result depends on a branch that the length does not decide"
						break
					}
				}
			}
			for _, prm := range f.Params {
				delete(affEnv, prm)
				if old, had := saved[prm]; had {
					affEnv[prm] = old
				}
			}
			if okArgs && why == "" && res != nil {
				return *res, ""
			}
			if why != "" {
				return affine{}, why
			}
		}
		return affine{}, "call outside the affine domain: " + clip(s.Of(x).String(), 80)
	case *ssa.BinOp:
		a, why := evalAffineV(s, x.X, n, depth+1)
		if why != "" {
			return affine{}, why
		}
		b, why := evalAffineV(s, x.Y, n, depth+1)
		if why != "" {
			return affine{}, why
		}
		switch x.Op {
		case token.ADD:
			return bin("+", a, b)
		case token.SUB:
			return bin("-", a, b)
		case token.MUL:
			return bin("*", a, b)
		case token.QUO:
			return bin("/", a, b)
		case token.REM:
			return bin("%", a, b)
		case token.AND:
			return bin("&", a, b)
		case token.AND_NOT:
			return bin("&^", a, b)
		case token.SHL, token.SHR:
			if b.A.Sign() == 0 && b.B.Sign() >= 0 && b.B.Cmp(big.NewInt(31)) < 0 {
				pw := affine{big.NewInt(0), new(big.Int).Lsh(big.NewInt(1), uint(b.B.Int64()))}
				if x.Op == token.SHL {
					return bin("*", a, pw)
				}
				return bin("/", a, pw)
			}
		}
		return affine{}, "operator " + x.Op.String() + " outside the affine domain"
	case *ssa.Phi:
		var res *affine
		blk := x.Block()
		for i, e := range x.Edges {
			feasible := true
			for _, f := range s.ff.AtEdge(blk.Preds[i], blk) {
				tv, known := affTruth(s, f, n, depth+1)
				if known && !tv {
					feasible = false
				}
			}
			if !feasible {
				continue
			}
			ev, why := evalAffineV(s, e, n, depth+1)
			if why != "" {
				return affine{}, why
			}
			if res == nil {
				r := ev
				res = &r
			} else if res.A.Cmp(ev.A) != 0 || res.B.Cmp(ev.B) != 0 {
				return affine{}, "the size depends on a branch that the length does not decide"
			}
		}
		if res == nil {
			return affine{}, "no feasible definition of the size"
		}
		return *res, ""
	}
	return affine{}, fmt.Sprintf("%T outside the affine domain", v)
}

func affTerm(a affine) *Term {
	if a.A.Sign() == 0 {
		return T("const", a.B.String())
	}
	return T("affine", a.A.String()+"/"+a.B.String())
}

// affCmp compares A1 q + B1 with A2 q + B2 for all q >= 0: -1, 0, 1, or
// undecided.
func affCmp(x, y affine) (int, bool) {
	dA, dB := new(big.Int).Sub(x.A, y.A), new(big.Int).Sub(x.B, y.B)
	switch {
	case dA.Sign() == 0:
		return dB.Sign(), true
	case dA.Sign() > 0 && dB.Sign() > 0:
		return 1, true
	case dA.Sign() < 0 && dB.Sign() < 0:
		return -1, true
	case dA.Sign() > 0 && dB.Sign() == 0, dA.Sign() < 0 && dB.Sign() == 0:
		return 0, false // equal at q = 0 only
	}
	return 0, false
}

// affTruth decides a branch fact (a comparison of two affine values) for all
// q >= 0; known=false when it is not decided.
func affTruth(s *Sym, f Atom, n affine, depth int) (truth, known bool) {
	if f.Kind != Truth {
		return false, false
	}
	bo, ok := f.V.(*ssa.BinOp)
	if !ok {
		return false, false
	}
	a, w1 := evalAffineV(s, bo.X, n, depth+1)
	b, w2 := evalAffineV(s, bo.Y, n, depth+1)
	if w1 != "" || w2 != "" {
		return false, false
	}
	dA, dB := new(big.Int).Sub(a.A, b.A), new(big.Int).Sub(a.B, b.B)
	// sign of d(q) = dA q + dB over q >= 0
	alwaysPos := dA.Sign() >= 0 && dB.Sign() > 0
	alwaysNeg := dA.Sign() <= 0 && dB.Sign() < 0
	alwaysZero := dA.Sign() == 0 && dB.Sign() == 0
	nonNeg := dA.Sign() >= 0 && dB.Sign() >= 0
	nonPos := dA.Sign() <= 0 && dB.Sign() <= 0
	var v, k bool
	switch bo.Op {
	case token.EQL:
		if alwaysZero {
			v, k = true, true
		} else if alwaysPos || alwaysNeg {
			v, k = false, true
		}
	case token.NEQ:
		if alwaysZero {
			v, k = false, true
		} else if alwaysPos || alwaysNeg {
			v, k = true, true
		}
	case token.LSS:
		if alwaysNeg {
			v, k = true, true
		} else if nonNeg {
			v, k = false, true
		}
	case token.LEQ:
		if nonPos {
			v, k = true, true
		} else if alwaysPos {
			v, k = false, true
		}
	case token.GTR:
		if alwaysPos {
			v, k = true, true
		} else if nonPos {
			v, k = false, true
		}
	case token.GEQ:
		if nonNeg {
			v, k = true, true
		} else if alwaysNeg {
			v, k = false, true
		}
	}
	if !k {
		return false, false
	}
	if !f.Pol {
		v = !v
	}
	return v, true
}

// dependsOnOriginName: the operand closure of v (not crossing a map lookup)
// contains the recovered origin name (a call of unpadOriginName) or a read of
// an InnerTokenRequest's paddedOrigin field; returns that value.
func dependsOnOriginName(v ssa.Value, seen map[ssa.Value]bool, depth int) ssa.Value {
	if v == nil || seen[v] || depth > 40 {
		return nil
	}
	seen[v] = true
	switch x := v.(type) {
	case *ssa.Lookup:
		if _, isMap := x.X.Type().Underlying().(*types.Map); isMap {
			return nil
		}
	case *ssa.Call:
		if g := x.Call.StaticCallee(); g != nil && g.Name() == "unpadOriginName" {
			return x
		}
		// a module helper that performs the table lookup is the lookup
		if g := x.Call.StaticCallee(); g != nil && g.Blocks != nil && InModule(g) {
			for _, b := range g.Blocks {
				for _, in := range b.Instrs {
					if lk, ok := in.(*ssa.Lookup); ok {
						if _, isMap := lk.X.Type().Underlying().(*types.Map); isMap {
							return nil
						}
					}
				}
			}
		}
	case *ssa.Field:
		if st, ok := x.X.Type().Underlying().(*types.Struct); ok && st.Field(x.Field).Name() == "paddedOrigin" {
			return x
		}
	case *ssa.FieldAddr:
		if fieldNameOf(x) == "paddedOrigin" {
			return x
		}
	}
	in, ok := v.(ssa.Instruction)
	if !ok {
		return nil
	}
	for _, op := range in.Operands(nil) {
		if op == nil || *op == nil {
			continue
		}
		if w := dependsOnOriginName(*op, seen, depth+1); w != nil {
			return w
		}
	}
	return nil
}
