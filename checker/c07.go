package main

// C07 - the rate-limited issuer signs only authentic, untampered requests.

import (
	"fmt"
	"go/token"
	"strings"

	"golang.org/x/tools/go/ssa"
)

const (
	nmIssEval    = "(~/tokens/type3.RateLimitedIssuer).Evaluate"
	nmReqUnm     = "(*tokens/type3.RateLimitedTokenRequest).Unmarshal"
	nmDecrypt    = "tokens/type3.decryptOriginTokenRequest"
	nmSetupBaseR = "github.com/cisco/go-hpke.SetupBaseR"
	nmCtxOpen    = "(*github.com/cisco/go-hpke.ReceiverContext).Open"
	nmBlindSign  = "(github.com/cloudflare/circl/blindsign/blindrsa.Signer).BlindSign"
	nmAEADSeal   = "(crypto/cipher.AEAD).Seal"
)

// aadTerm: the associated data both client and issuer must use, for name key
// term nk (an EncapKey/PrivateEncapKey value) and request key term rk.
func aadTerm(nk, rk, keyIDHash string) string {
	return "cat(u8(" + nk + ".id), u16(call<(github.com/cisco/go-hpke.KEMScheme).ID>(" + nk + ".suite.KEM)), u16(call<(github.com/cisco/go-hpke.KDFScheme).ID>(" + nk + ".suite.KDF)), u16(call<(github.com/cisco/go-hpke.AEADScheme).ID>(" + nk + ".suite.AEAD)), u16(const:3), " + rk + ", " + keyIDHash + ")"
}

// encapKeyEncoding: EncapKey.Marshal() layout for key term nk.
func encapKeyEncoding(nk string) string {
	return "cat(u8(" + nk + ".id), u16(call<(github.com/cisco/go-hpke.KEMScheme).ID>(" + nk + ".suite.KEM)), call<(github.com/cisco/go-hpke.KEMScheme).SerializePublicKey>(" + nk + ".suite.KEM, " + nk + ".publicKey), u16(call<(github.com/cisco/go-hpke.KDFScheme).ID>(" + nk + ".suite.KDF)), u16(call<(github.com/cisco/go-hpke.AEADScheme).ID>(" + nk + ".suite.AEAD)))"
}

func init() { props["C07"] = c07 }

func c07(p *Prog, r *Report) {
	r.Explanation = "Guard dominance on SSA with symbolic argument bindings: every non-failing return of RateLimitedIssuer.Evaluate is dominated, by success edges, of (1) a complete checked parse of the encoded request, (2) HPKE SetupBaseR/Open under the issuer's own name key with the prescribed associated data (request key bound), (3) a successful lookup of the unpadded origin among registered origins, (4) ecdsa.Verify of the request's own signature under its own request key over all other fields; the signing and sealing calls are themselves behind those edges. Followed through in-module callees with parameter substitution."
	r.NotDecided = "rejection of every single-bit change (AEAD / ECDSA soundness), HPKE correctness; that BlindSign's own length check rejects a malformed inner request."
	r.Assumptions = append(r.Assumptions, "go-hpke, circl blindrsa, crypto/elliptic behave as documented", "the decoded request object is not modified after Unmarshal (checked: Unmarshal is the only non-read-only call receiving it)")
	r.Trusted = append(r.Trusted, "go/types, go/ssa dominators", "term evaluator and reader-sequence extractor of this checker")

	const R1 = "C07.complete-parse-dominates-response"
	const R1b = "C07.decoder-reads-checked-and-complete"
	const R2 = "C07.hpke-open-with-bound-aad"
	const R3 = "C07.registered-origin-lookup"
	const R4 = "C07.signature-dominates-response"
	const R5 = "C07.outputs-behind-checks"
	r.Rule(R1, "every success return of Evaluate is dominated by RateLimitedTokenRequest.Unmarshal(encodedRequest)=true on the request object all later checks read", 1)
	r.Rule(R1b, "on every success return of the request decoder and of the inner (decrypted) request decoder, every cryptobyte read is checked, the signature is read (outer), and the final Empty() holds (no trailing data)", 2)
	r.Rule(R2, "every success return is dominated by SetupBaseR(nameKey.suite, nameKey.privateKey, enc, \"TokenRequest\")=ok and Open(aad, ct)=ok with aad = key id||kem||kdf||aead||type||request key||SHA-256(name key encoding)", 2)
	r.Rule(R3, "every success return is dominated by ok=true of originIndexKeys[unpadOriginName(inner.paddedOrigin)] on the decrypted inner request", 1)
	r.Rule(R4, "every success return is dominated by ecdsa.Verify(decode(req.RequestKey), SHA-384(type||RequestKey||NameKeyID||len16 EncryptedTokenRequest), halves of req.Signature)=true", 1)
	r.Rule(R5, "BlindSign and AEAD Seal call sites are dominated by checks 1-4 (nothing is signed or encrypted before the request is authenticated)", 8)

	fn := anchor(p, r, R1, nmIssEval)
	if fn == nil {
		return
	}
	r.List("functions", shortName(fn))

	// R1: find the request object from the Unmarshal call
	var reqObj string
	parseReq := CallReq{
		Desc:   "request.Unmarshal(encodedRequest)=true",
		Callee: nmReqUnm,
		Check: func(t *Term) string {
			if why := want("decoded bytes", arg(t, 1), "param:1"); why != "" {
				return why
			}
			reqObj = "out<0>(" + t.String() + ")"
			return ""
		},
	}
	if !p.RequireOnSuccess(r, R1, fn, parseReq) || reqObj == "" {
		return
	}
	// request object stability: the only non-read-only call receiving it is Unmarshal
	if u := sitesIn(fn, func(n string) bool { return n == nmReqUnm }); len(u) == 1 {
		if al, ok := rootAlloc(u[0].Common().Args[0]); ok {
			defs, _ := defsOf(al)
			r.Check(len(defs) == 1, R1, "request object written only by Unmarshal", p.InstrPos(u[0]),
				"the decoded request is not stored to or passed to a mutating call after Unmarshal",
				fmt.Sprintf("%d instructions may modify the request object; the terms naming its fields are not stable", len(defs)))
		}
	}

	// R1b: decoder completeness
	dfn := anchor(p, r, R1b, "(*~/tokens/type3.RateLimitedTokenRequest).Unmarshal")
	if dfn != nil {
		r.List("functions", shortName(dfn))
		ds := p.NewSym(dfn)
		rps := ds.ff.RetPoints(verdictIndex(dfn))
		nS := 0
		for i := range rps {
			rp := &rps[i]
			if rp.Outcome == Fails {
				continue
			}
			nS++
			items := p.ReadSequence(ds, rp)
			var probs []string
			sawSig, last := false, ""
			mainReader := ""
			if len(items) > 0 {
				mainReader = items[0].Reader
			}
			for _, it := range items {
				if !it.Checked {
					probs = append(probs, "unchecked read "+it.String()+" at "+p.InstrPos(it.Call))
				} else if !it.Result && it.Op != "empty" {
					probs = append(probs, "read "+it.String()+" failed on an accepting path")
				}
				if it.Op == "bytes" && strings.HasSuffix(it.Dst, ".Signature") {
					sawSig = true
				}
				if it.Reader == mainReader {
					last = it.Op
					if it.Op == "empty" && !it.Result {
						last = "empty=false"
					}
				}
			}
			if !sawSig {
				probs = append(probs, "the signature is not read on this path")
			}
			if last != "empty" {
				probs = append(probs, "the path does not end with a checked Empty() (trailing data accepted)")
			}
			key := "RateLimitedTokenRequest.Unmarshal success path"
			if len(probs) > 0 {
				r.Fail(R1b, key, p.Pos(rp.Ret.Pos()), strings.Join(probs, "; ")+" [reads: "+readSeqString(items)+"]")
			} else {
				r.OK(R1b, key, p.Pos(rp.Ret.Pos()), "reads: "+readSeqString(items))
			}
		}
		if nS == 0 {
			r.Fail(R1b, "RateLimitedTokenRequest.Unmarshal success path", p.Pos(dfn.Pos()), "decoder has no success return")
		}
	}
	// the decrypted inner request is part of the request: it too must parse
	// completely (no bytes after the padded origin)
	if ifn := anchor(p, r, R1b, "(*~/tokens/type3.InnerTokenRequest).Unmarshal"); ifn != nil {
		r.List("functions", shortName(ifn))
		is := p.NewSym(ifn)
		irps := is.ff.RetPoints(verdictIndex(ifn))
		nS := 0
		for i := range irps {
			rp := &irps[i]
			if rp.Outcome == Fails {
				continue
			}
			nS++
			items := p.ReadSequence(is, rp)
			var probs []string
			last, mainReader := "", ""
			if len(items) > 0 {
				mainReader = items[0].Reader
			}
			for _, it := range items {
				if !it.Checked {
					probs = append(probs, "unchecked read "+it.String()+" at "+p.InstrPos(it.Call))
				} else if !it.Result && it.Op != "empty" {
					probs = append(probs, "read "+it.String()+" failed on an accepting path")
				}
				if it.Reader == mainReader {
					last = it.Op
					if it.Op == "empty" && !it.Result {
						last = "empty=false"
					}
				}
			}
			if last != "empty" {
				probs = append(probs, "the path does not end with a checked Empty(): bytes after the padded origin are accepted, so the issuer answers a request whose inner part does not parse completely")
			}
			key := "InnerTokenRequest.Unmarshal success path"
			if len(probs) > 0 {
				r.Fail(R1b, key, p.Pos(rp.Ret.Pos()), strings.Join(probs, "; ")+" [reads: "+readSeqString(items)+"]")
			} else {
				r.OK(R1b, key, p.Pos(rp.Ret.Pos()), "reads: "+readSeqString(items))
			}
		}
		if nS == 0 {
			r.Fail(R1b, "InnerTokenRequest.Unmarshal success path", p.Pos(ifn.Pos()), "decoder has no success return")
		}
	}

	// a decrypted inner request that its decoder refused is not handed to the
	// issuer as if it had parsed: on a return of decryptOriginTokenRequest that
	// is not a failure and lies behind Unmarshal(...) == false, the request
	// returned is not the (partially filled) object the decoder worked on
	if dfn2 := anchor(p, r, R1b, "~/"+nmDecrypt); dfn2 != nil {
		ds := p.NewSym(dfn2)
		nChecked := 0
		bad := ""
		for _, rp := range ds.ff.RetPoints(verdictIndex(dfn2)) {
			if rp.Outcome == Fails || len(rp.Vals) == 0 {
				continue
			}
			for _, f := range rp.Facts {
				c, ok := f.V.(*ssa.Call)
				if !ok || f.Kind != Truth || f.Pol || calleeName(c.Common()) != "(*tokens/type3.InnerTokenRequest).Unmarshal" || len(c.Call.Args) == 0 {
					continue
				}
				nChecked++
				obj := c.Call.Args[0]
				v := rp.Vals[0]
				if ld, ok := v.(*ssa.UnOp); ok && ld.Op == token.MUL {
					v = ld.X
				}
				if v == obj {
					bad = p.Pos(rp.Ret.Pos())
				}
			}
		}
		r.Check(bad == "", R1b, "decryptOriginTokenRequest does not hand on an inner request its decoder refused", p.Pos(dfn2.Pos()),
			fmt.Sprintf("%d non-failure return(s) behind Unmarshal == false return a value other than the decoder's object", nChecked),
			"the return at "+bad+" lies behind InnerTokenRequest.Unmarshal(...) == false, is not classified as a failure, and returns the very object the decoder filled before refusing: the issuer goes on with fields of a request that does not parse completely")
	}

	nk := "param:0.nameKey"
	// R2
	encTerm := "slice(" + reqObj + ".EncryptedTokenRequest, const:0, call<(github.com/cisco/go-hpke.KEMScheme).PublicKeySize>(" + nk + ".suite.KEM))"
	ctTerm := "slice(" + reqObj + ".EncryptedTokenRequest, call<(github.com/cisco/go-hpke.KEMScheme).PublicKeySize>(" + nk + ".suite.KEM), const:nil)"
	setupReq := CallReq{
		Desc:   "hpke.SetupBaseR(own suite, own private key, enc, \"TokenRequest\")=ok",
		Callee: nmSetupBaseR,
		Check: func(t *Term) string {
			return firstNonEmpty(
				want("suite", arg(t, 0), nk+".suite"),
				want("private key", arg(t, 1), nk+".privateKey"),
				want("encapsulated key", arg(t, 2), encTerm),
				want("info", arg(t, 3), `lit:"TokenRequest"`),
			)
		},
	}
	setupTerm := "call<" + nmSetupBaseR + ">(" + nk + ".suite, " + nk + ".privateKey, " + encTerm + `, lit:"TokenRequest")`
	openReq := CallReq{
		Desc:   "context.Open(aad, ct)=ok with the request key bound in aad",
		Callee: nmCtxOpen,
		Check: func(t *Term) string {
			return firstNonEmpty(
				want("HPKE context", arg(t, 0), "extract<0>("+setupTerm+")"),
				want("associated data", arg(t, 1), aadTerm(nk, reqObj+".RequestKey", "hash<sha256>("+encapKeyEncoding(nk)+")")),
				want("ciphertext", arg(t, 2), ctTerm),
			)
		},
	}
	p.RequireOnSuccess(r, R2, fn, setupReq)
	p.RequireOnSuccess(r, R2, fn, openReq)

	// R3: origin lookup
	openTerm := "call<" + nmCtxOpen + ">(extract<0>(" + setupTerm + "), " + aadTerm(nk, reqObj+".RequestKey", "hash<sha256>("+encapKeyEncoding(nk)+")") + ", " + ctTerm + ")"
	innerPadded := "extract<0>(call<" + nmDecrypt + ">(" + nk + ", " + reqObj + ".RequestKey, " + reqObj + ".EncryptedTokenRequest)).paddedOrigin"
	_ = openTerm
	s := p.NewSym(fn)
	rps := s.ff.RetPoints(verdictIndex(fn))
	lookupPat := "lookup(param:0.*, call<tokens/type3.unpadOriginName>(" + innerPadded + "))" // the registry: a map reached from the issuer, whatever the field path
	var bad []string
	nS := 0
	var lookupTerm string
	for i := range rps {
		rp := &rps[i]
		if rp.Outcome == Fails {
			continue
		}
		nS++
		found := false
		var near []string
		for _, a := range p.expandFacts(s, rp.Facts, 0) {
			if a.Kind != Truth || !a.Pol {
				continue
			}
			ex, ok := a.V.(*ssa.Extract)
			if !ok || ex.Index != 1 {
				continue
			}
			lk, ok := ex.Tuple.(*ssa.Lookup)
			if !ok || !lk.CommaOk {
				continue
			}
			lt := a.S.Of(lk).String()
			if glob(lookupPat, lt) {
				found = true
				lookupTerm = lt
			} else {
				near = append(near, "lookup "+clip(lt, 300)+" is not the required "+clip(lookupPat, 300))
			}
		}
		if !found {
			bad = append(bad, fmt.Sprintf("success return at %s is reachable without a successful registered-origin lookup %s", p.Pos(rp.Ret.Pos()), strings.Join(near, "; ")))
		}
	}
	r.Check(len(bad) == 0 && nS > 0, R3, shortName(fn)+" => originIndexKeys[unpad(inner.paddedOrigin)] ok", p.Pos(fn.Pos()),
		fmt.Sprintf("%d success return(s) dominated by ok=true of %s", nS, clip(lookupPat, 200)), strings.Join(bad, " | "))

	// R3b: the name looked up is the name the client padded - an unpadding that
	// cuts at anything but the trailing zeros maps an unregistered name onto a
	// registered one (the rule of C20, evaluated on the issuer side)
	const R3b = "C07.origin-name-recovered-exactly"
	r.Rule(R3b, "unpadOriginName strips exactly the trailing zero bytes (backward scan / TrimRight), so the origin looked up is the origin named by the request - shared with C20", 1)
	if unpad := anchor(p, r, R3b, "~/tokens/type3.unpadOriginName"); unpad != nil {
		c20Unpad(p, r, R3b, unpad)
	}

	// R4
	curve := "param:0.curve"
	sigReq := reqSignature("ecdsa.Verify(request key, SHA-384(request contents), r, s)=true", curve, reqObj)
	p.RequireOnSuccess(r, R4, fn, sigReq)

	// R5: output producers behind all checks
	outs := sitesIn(fn, func(n string) bool { return n == nmBlindSign || n == nmAEADSeal })
	if len(outs) < 2 {
		r.Fail(R5, "output sites", p.Pos(fn.Pos()), fmt.Sprintf("expected a BlindSign and a Seal call in Evaluate, found %d", len(outs)))
	}
	for i, site := range outs {
		d := fmt.Sprintf("%s#%d", calleeName(site.Common()), i)
		for _, q := range []CallReq{parseReq, setupReq, openReq, sigReq} {
			p.RequireBeforeSite(r, R5, fn, site, d, q)
		}
	}
	_ = lookupTerm
}

// rootAlloc follows spill loads to the allocation a pointer value denotes.
func rootAlloc(v ssa.Value) (*ssa.Alloc, bool) {
	for i := 0; i < 4; i++ {
		switch x := v.(type) {
		case *ssa.Alloc:
			return x, true
		case *ssa.UnOp:
			cell, ok := x.X.(*ssa.Alloc)
			if !ok {
				return nil, false
			}
			var val ssa.Value
			n := 0
			for _, r := range *cell.Referrers() {
				if st, ok := r.(*ssa.Store); ok && st.Addr == cell {
					n++
					val = st.Val
				}
			}
			if n != 1 {
				return nil, false
			}
			v = val
		default:
			return nil, false
		}
	}
	return nil, false
}
