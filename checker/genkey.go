package main

// ed25519.GenerateKey decided on its terms when it is not the reference text:
// the private key is NewKeyFromSeed(32 bytes filled by io.ReadFull from the
// caller's reader, crypto/rand.Reader when that is nil), the public key is a
// copy of its second half, success is dominated by the read having succeeded,
// and a failed read returns no key.

import (
	"fmt"
	"go/token"
	"strings"

	"golang.org/x/tools/go/ssa"
)

func generateKeySemantic(p *Prog, fn *ssa.Function) (bool, string) {
	if fn == nil || len(fn.Params) != 1 {
		return false, "no SSA for GenerateKey(rand)"
	}
	s := p.NewSym(fn)
	// the reader: the parameter, or crypto/rand.Reader when it is nil
	var rf *ssa.Call
	for _, c := range sitesIn(fn, func(n string) bool { return n == "io.ReadFull" }) {
		if cc, ok := c.(*ssa.Call); ok {
			if rf != nil {
				return false, "more than one io.ReadFull"
			}
			rf = cc
		}
	}
	if rf == nil {
		return false, "no io.ReadFull"
	}
	okReader := false
	switch r := rf.Call.Args[0].(type) {
	case *ssa.Parameter:
		okReader = r == fn.Params[0]
	case *ssa.Phi:
		okReader = true
		for _, e := range r.Edges {
			switch x := e.(type) {
			case *ssa.Parameter:
				if x != fn.Params[0] {
					okReader = false
				}
			case *ssa.UnOp:
				g, isG := x.X.(*ssa.Global)
				if x.Op != token.MUL || !isG || g.Pkg == nil || g.Pkg.Pkg.Path() != "crypto/rand" || g.Name() != "Reader" {
					okReader = false
				}
			default:
				okReader = false
			}
		}
	}
	if !okReader {
		return false, "the seed is not read from the caller's reader (or crypto/rand.Reader when nil)"
	}
	rt := s.Of(rf.Call.Args[0]).String()
	seed := "make(const:32, fill<io.ReadFull>(" + rt + ", const:dst))"
	priv := "call<ed25519.NewKeyFromSeed>(" + seed + ")"
	pub := "slice(" + priv + ", const:32, const:nil)"
	nS := 0
	for _, rp := range s.ff.RetPoints(verdictIndex(fn)) {
		if len(rp.Vals) != 3 {
			return false, "result arity"
		}
		a, b := s.Of(rp.Vals[0]).String(), s.Of(rp.Vals[1]).String()
		if rp.Outcome == Fails {
			if a != "const:nil" || b != "const:nil" {
				return false, "a failing return hands out key material at " + p.Pos(rp.Ret.Pos())
			}
			continue
		}
		nS++
		if pre := "call<bytes.Clone>("; strings.HasPrefix(a, pre) && strings.HasSuffix(a, ")") {
			a = a[len(pre) : len(a)-1] // a copy made with bytes.Clone
		}
		if b != priv {
			return false, "private key is " + clip(b, 200) + ", required NewKeyFromSeed(32 bytes read from the reader)"
		}
		if a != pub {
			return false, "public key is " + clip(a, 200) + ", required a copy of privateKey[32:]"
		}
		res := &satResult{}
		if !p.satisfied(s, rp.Facts, CallReq{Desc: "io.ReadFull ok", Callee: "io.ReadFull"}, 0, res) {
			return false, "a success return is reachable without io.ReadFull having succeeded"
		}
	}
	if nS == 0 {
		return false, "no success return"
	}
	return true, fmt.Sprintf("%d success return(s): NewKeyFromSeed(io.ReadFull(reader, 32 bytes)), public key = copy of its second half; failures return no key", nS)
}
