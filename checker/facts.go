package main

// E2: guard facts from dominating branch edges, dead edges from
// constant-result callees, success-return classification.

import (
	"go/constant"
	"go/token"
	"go/types"

	"golang.org/x/tools/go/ssa"
)

type AtomKind int

const (
	Truth AtomKind = iota // V (bool) == Pol
	IsNil                 // (V == nil) == Pol
)

// Atom is one normalised branch fact.
type Atom struct {
	Kind AtomKind
	V    ssa.Value
	Pol  bool
	If   *ssa.If // the branch that produced it (nil for synthesized facts)
}

// normCond turns an If condition with the polarity of the taken edge into an atom.
func normCond(v ssa.Value, pol bool) Atom {
	for {
		if u, ok := v.(*ssa.UnOp); ok && u.Op == token.NOT {
			v = u.X
			pol = !pol
			continue
		}
		break
	}
	if b, ok := v.(*ssa.BinOp); ok && (b.Op == token.EQL || b.Op == token.NEQ) {
		x, y := b.X, b.Y
		if isNilConst(x) {
			x, y = y, x
		}
		if isNilConst(y) {
			p := pol
			if b.Op == token.NEQ {
				p = !p
			}
			return Atom{Kind: IsNil, V: resolveCell(x), Pol: p}
		}
	}
	return Atom{Kind: Truth, V: resolveCell(v), Pol: pol}
}

// resolveCell: v is a load of a function-private cell (a local that go/ssa
// did not lift to a register - named results and spilled results of functions
// with defers - touched only by plain stores and loads): when exactly one
// store dominates the load and no other store can reach it, the load IS the
// stored value. Applied repeatedly; anything else is returned unchanged.
func resolveCell(v ssa.Value) ssa.Value {
	for depth := 0; depth < 8; depth++ {
		ld, ok := v.(*ssa.UnOp)
		if !ok || ld.Op != token.MUL {
			return v
		}
		cell, ok := ld.X.(*ssa.Alloc)
		if !ok || cell.Heap {
			return v
		}
		var stores []ssa.Instruction
		for _, r := range *cell.Referrers() {
			switch x := r.(type) {
			case *ssa.Store:
				if x.Addr != ssa.Value(cell) {
					return v
				}
				stores = append(stores, x)
			case *ssa.UnOp, *ssa.DebugRef:
			default:
				return v
			}
		}
		var best *ssa.Store
		for _, st := range stores {
			if dominates(st, ld) {
				if best == nil || dominates(best, st) {
					best = st.(*ssa.Store)
				}
			}
		}
		if best == nil {
			// never stored before this load: still the zero value
			for _, st := range stores {
				if reaches(st, ld) {
					return v
				}
			}
			switch deref(cell.Type()).Underlying().(type) {
			case *types.Pointer, *types.Interface, *types.Slice, *types.Map, *types.Chan, *types.Signature:
				return ssa.NewConst(nil, deref(cell.Type()))
			}
			return v
		}
		for _, st := range stores {
			if st == ssa.Instruction(best) || dominates(st, best) {
				continue
			}
			if reaches(st, ld) {
				return v // another store may intervene
			}
		}
		// a store that dominates `best` but can also be re-executed between best
		// and the load (loops) is excluded by the reach test of the others; best
		// itself re-reaching the load still yields best's value
		v = best.Val
	}
	return v
}

func isNilConst(v ssa.Value) bool {
	c, ok := v.(*ssa.Const)
	return ok && c.Value == nil && !isBasicNonNil(c.Type())
}

func isBasicNonNil(t types.Type) bool {
	// a zero-valued Const of basic/struct type also has Value==nil in go/ssa;
	// only pointer-like kinds are "nil".
	switch t.Underlying().(type) {
	case *types.Pointer, *types.Interface, *types.Slice, *types.Map, *types.Chan, *types.Signature:
		return false
	}
	if b, ok := t.Underlying().(*types.Basic); ok && b.Kind() == types.UntypedNil {
		return false
	}
	return true
}

// FuncFacts caches per-function analyses.
type FuncFacts struct {
	fn       *ssa.Function
	prog     *Prog
	dead     map[*ssa.BasicBlock]bool
	deadEdge map[[2]*ssa.BasicBlock]bool
	facts    map[*ssa.BasicBlock][]Atom
}

var factsCache = map[*ssa.Function]*FuncFacts{}

func (p *Prog) Facts(fn *ssa.Function) *FuncFacts {
	if ff, ok := factsCache[fn]; ok {
		return ff
	}
	ff := &FuncFacts{fn: fn, prog: p, facts: map[*ssa.BasicBlock][]Atom{}}
	factsCache[fn] = ff
	ff.computeDead()
	return ff
}

// constResult reports whether result idx of fn is the same constant on every
// return (used for errors that are always nil).
func (p *Prog) alwaysNilResult(fn *ssa.Function, idx int) bool {
	if fn == nil || fn.Blocks == nil {
		return false
	}
	n := 0
	for _, b := range fn.Blocks {
		for _, in := range b.Instrs {
			if r, ok := in.(*ssa.Return); ok {
				if idx >= len(r.Results) || !isNilConst(r.Results[idx]) {
					return false
				}
				n++
			}
		}
	}
	return n > 0
}

// knownNonNil: value is certainly a non-nil error/pointer.
func (p *Prog) knownNonNil(v ssa.Value, depth int) bool {
	if depth > 6 {
		return false
	}
	switch v := v.(type) {
	case *ssa.MakeInterface:
		return true
	case *ssa.Alloc, *ssa.MakeSlice, *ssa.MakeMap, *ssa.MakeClosure, *ssa.FieldAddr, *ssa.IndexAddr:
		return true
	case *ssa.Call:
		if f := v.Call.StaticCallee(); f != nil {
			switch f.RelString(nil) {
			case "fmt.Errorf", "errors.New":
				return true
			}
		}
	case *ssa.UnOp:
		if v.Op == token.MUL {
			if g, ok := v.X.(*ssa.Global); ok {
				return p.globalNonNilError(g)
			}
		}
	case *ssa.Phi:
		for _, e := range v.Edges {
			if !p.knownNonNil(e, depth+1) {
				return false
			}
		}
		return true
	}
	return false
}

// globalNonNilError: package-level error variable initialised once (in init)
// by errors.New/fmt.Errorf and never reassigned.
func (p *Prog) globalNonNilError(g *ssa.Global) bool {
	stores := 0
	ok := true
	for fn := range p.Funcs {
		if fn.Pkg != g.Pkg || fn.Blocks == nil {
			continue
		}
		for _, b := range fn.Blocks {
			for _, in := range b.Instrs {
				st, isSt := in.(*ssa.Store)
				if !isSt || st.Addr != g {
					continue
				}
				stores++
				if fn.Name() != "init" || !p.knownNonNil(st.Val, 0) {
					ok = false
				}
			}
		}
	}
	return ok && stores == 1
}

func (ff *FuncFacts) computeDead() {
	fn := ff.fn
	ff.dead = map[*ssa.BasicBlock]bool{}
	ff.deadEdge = map[[2]*ssa.BasicBlock]bool{}
	if fn.Blocks == nil {
		return
	}
	for _, b := range fn.Blocks {
		ifi, ok := b.Instrs[len(b.Instrs)-1].(*ssa.If)
		if !ok {
			continue
		}
		a := normCond(ifi.Cond, true)
		if a.Kind != IsNil {
			continue
		}
		// a says: on the true edge, (V==nil)==a.Pol.
		var constNil, constNonNil bool
		if ex, ok := a.V.(*ssa.Extract); ok {
			if c, ok := ex.Tuple.(*ssa.Call); ok {
				if f := c.Call.StaticCallee(); f != nil && ff.prog.alwaysNilResult(f, ex.Index) {
					constNil = true
				}
			}
		} else if c, ok := a.V.(*ssa.Call); ok {
			if f := c.Call.StaticCallee(); f != nil && ff.prog.alwaysNilResult(f, 0) {
				constNil = true
			}
		}
		if ff.prog.knownNonNil(a.V, 0) {
			constNonNil = true
		}
		if constNil {
			// edge where V != nil is dead
			if a.Pol { // true edge: V==nil ; false edge dead
				ff.deadEdge[[2]*ssa.BasicBlock{b, b.Succs[1]}] = true
			} else {
				ff.deadEdge[[2]*ssa.BasicBlock{b, b.Succs[0]}] = true
			}
		}
		if constNonNil {
			if a.Pol {
				ff.deadEdge[[2]*ssa.BasicBlock{b, b.Succs[0]}] = true
			} else {
				ff.deadEdge[[2]*ssa.BasicBlock{b, b.Succs[1]}] = true
			}
		}
	}
	// reachability without dead edges
	live := map[*ssa.BasicBlock]bool{fn.Blocks[0]: true}
	work := []*ssa.BasicBlock{fn.Blocks[0]}
	for len(work) > 0 {
		b := work[len(work)-1]
		work = work[:len(work)-1]
		for _, s := range b.Succs {
			if ff.deadEdge[[2]*ssa.BasicBlock{b, s}] || live[s] {
				continue
			}
			live[s] = true
			work = append(work, s)
		}
	}
	for _, b := range fn.Blocks {
		if !live[b] {
			ff.dead[b] = true
		}
	}
	if fn.Recover != nil && mayRecover(fn) {
		delete(ff.dead, fn.Recover)
	}
}

// mayRecover: some deferred call of fn can call recover(), so fn's recover
// block (which returns the named results / zero values after a recovered
// panic) is reachable. A deferred builtin (clear, close, ...) or a deferred
// function whose body, and the in-module functions it calls directly, never
// call recover() cannot resume the function after a panic.
func mayRecover(fn *ssa.Function) bool {
	var callsRecover func(f *ssa.Function, depth int) bool
	callsRecover = func(f *ssa.Function, _ int) bool {
		if f == nil || f.Blocks == nil {
			return false
		}
		for _, b := range f.Blocks {
			for _, in := range b.Instrs {
				ci, ok := in.(ssa.CallInstruction)
				if !ok {
					continue
				}
				cc := ci.Common()
				if bi, ok := cc.Value.(*ssa.Builtin); ok {
					if bi.Name() == "recover" {
						return true
					}
					continue
				}
				// recover() only has effect when called directly by the deferred function
			}
		}
		return false
	}
	for _, b := range fn.Blocks {
		for _, in := range b.Instrs {
			d, ok := in.(*ssa.Defer)
			if !ok {
				continue
			}
			if _, isB := d.Call.Value.(*ssa.Builtin); isB {
				continue
			}
			var callee *ssa.Function
			switch v := d.Call.Value.(type) {
			case *ssa.Function:
				callee = v
			case *ssa.MakeClosure:
				callee, _ = v.Fn.(*ssa.Function)
			}
			if callee == nil {
				if sc := d.Call.StaticCallee(); sc != nil {
					callee = sc
				}
			}
			if callee == nil || callee.Blocks == nil {
				return true // unknown deferred callee
			}
			if callsRecover(callee, 0) {
				return true
			}
		}
	}
	return false
}

// livePreds returns predecessors over live edges.
func (ff *FuncFacts) livePreds(b *ssa.BasicBlock) []*ssa.BasicBlock {
	var out []*ssa.BasicBlock
	for _, p := range b.Preds {
		if ff.dead[p] || ff.deadEdge[[2]*ssa.BasicBlock{p, b}] {
			continue
		}
		out = append(out, p)
	}
	return out
}

// At returns the atoms that hold on entry to block b: for each dominator
// chain step D -> S where S (a dominator of b, or b itself) has exactly one
// live predecessor D ending in an If, the condition with the edge's polarity.
func (ff *FuncFacts) At(b *ssa.BasicBlock) []Atom {
	if f, ok := ff.facts[b]; ok {
		return f
	}
	var out []Atom
	for s := b; s != nil; s = s.Idom() {
		preds := ff.livePreds(s)
		if len(preds) != 1 {
			continue
		}
		d := preds[0]
		ifi, ok := d.Instrs[len(d.Instrs)-1].(*ssa.If)
		if !ok || d.Succs[0] == d.Succs[1] {
			continue
		}
		a := normCond(ifi.Cond, d.Succs[0] == s)
		a.If = ifi
		out = append(out, a)
	}
	ff.facts[b] = out
	return out
}

// AtEdge returns the atoms holding when control leaves `from` towards `to`.
func (ff *FuncFacts) AtEdge(from, to *ssa.BasicBlock) []Atom {
	out := append([]Atom(nil), ff.At(from)...)
	if ifi, ok := from.Instrs[len(from.Instrs)-1].(*ssa.If); ok && from.Succs[0] != from.Succs[1] {
		a := normCond(ifi.Cond, from.Succs[0] == to)
		a.If = ifi
		out = append(out, a)
	}
	return out
}

// AtInstr: facts at an instruction = facts of its block.
func (ff *FuncFacts) AtInstr(in ssa.Instruction) []Atom { return ff.At(in.Block()) }

// RetPoint is one way of leaving a function: a Return, split per incoming
// edge when a result is a Phi defined in the returning block.
type RetPoint struct {
	Ret     *ssa.Return
	Block   *ssa.BasicBlock // block whose facts apply
	Vals    []ssa.Value
	Facts   []Atom
	Outcome Outcome
}

type Outcome int

const (
	Fails    Outcome = iota // certainly a failure return
	Succeeds                // certainly a success return
	Maybe                   // success iff Extra holds; treated as success by rules
)

// RetPoints enumerates live return points of fn and classifies each by the
// result at index idx (an error: nil = success; a bool: true = success).
// idx < 0 means "every return is a success" (functions without verdict).
func (ff *FuncFacts) RetPoints(idx int) []RetPoint {
	var out []RetPoint
	for _, b := range ff.fn.Blocks {
		if ff.dead[b] {
			continue
		}
		ret, ok := b.Instrs[len(b.Instrs)-1].(*ssa.Return)
		if !ok {
			continue
		}
		// split on phis in this block
		hasPhi := false
		for _, r := range ret.Results {
			if ph, ok := r.(*ssa.Phi); ok && ph.Block() == b {
				hasPhi = true
			}
		}
		if hasPhi {
			for i, p := range b.Preds {
				if ff.dead[p] || ff.deadEdge[[2]*ssa.BasicBlock{p, b}] {
					continue
				}
				vals := make([]ssa.Value, len(ret.Results))
				for j, r := range ret.Results {
					if ph, ok := r.(*ssa.Phi); ok && ph.Block() == b {
						vals[j] = ph.Edges[i]
					} else {
						vals[j] = r
					}
				}
				rp := RetPoint{Ret: ret, Block: p, Vals: vals, Facts: ff.AtEdge(p, b)}
				out = append(out, rp)
			}
		} else {
			out = append(out, RetPoint{Ret: ret, Block: b, Vals: ret.Results, Facts: ff.At(b)})
		}
	}
	for i := range out {
		rp := &out[i]
		for j, v := range rp.Vals {
			if u := unspillResult(v, rp.Ret); u != nil {
				if &rp.Vals[0] == &rp.Ret.Results[0] {
					rp.Vals = append([]ssa.Value(nil), rp.Vals...)
				}
				rp.Vals[j] = u
			}
		}
		if idx < 0 || idx >= len(rp.Vals) {
			rp.Outcome = Succeeds
			continue
		}
		rp.Outcome = ff.classify(rp, rp.Vals[idx])
	}
	return out
}

// unspillResult: in a function with defers go/ssa stores each result into a
// local cell before `rundefers` and returns the reloaded cells. When the cell
// is private to the function (only stores and loads, never captured by a
// deferred closure) the value returned is the value stored in the same block.
func unspillResult(v ssa.Value, ret *ssa.Return) ssa.Value {
	if u := resolveCell(v); u != v {
		return u
	}
	return nil
}

func (ff *FuncFacts) classify(rp *RetPoint, v ssa.Value) Outcome {
	isBool := false
	if b, ok := v.Type().Underlying().(*types.Basic); ok && b.Info()&types.IsBoolean != 0 {
		isBool = true
	}
	if c, ok := v.(*ssa.Const); ok {
		if isBool {
			if constant.BoolVal(c.Value) {
				return Succeeds
			}
			return Fails
		}
		if c.Value == nil {
			return Succeeds
		}
		return Fails
	}
	if isBool {
		a := normCond(v, true)
		for _, f := range rp.Facts {
			if f.Kind == a.Kind && f.V == a.V {
				if f.Pol == a.Pol {
					return Succeeds
				}
				return Fails
			}
		}
		rp.Facts = append(rp.Facts, a)
		return Maybe
	}
	// error-like
	for _, f := range rp.Facts {
		if f.Kind == IsNil && f.V == v {
			if f.Pol {
				return Succeeds
			}
			return Fails
		}
	}
	if ff.prog.knownNonNil(v, 0) {
		return Fails
	}
	// constant-nil callee result
	if ex, ok := v.(*ssa.Extract); ok {
		if c, ok := ex.Tuple.(*ssa.Call); ok {
			if f := c.Call.StaticCallee(); f != nil && ff.prog.alwaysNilResult(f, ex.Index) {
				return Succeeds
			}
		}
	}
	rp.Facts = append(rp.Facts, Atom{Kind: IsNil, V: v, Pol: true})
	return Maybe
}

// CallSucceeded: does atom a state that call c (value c or one of its
// Extracts) succeeded: bool result true, or error result nil.
func callOfAtom(a Atom) (call *ssa.Call, ok bool, success bool) {
	v := a.V
	idx := -1
	if ex, isEx := v.(*ssa.Extract); isEx {
		v = ex.Tuple
		idx = ex.Index
	}
	c, isCall := v.(*ssa.Call)
	if !isCall {
		// whole-value comparisons reported as integers:
		// subtle.ConstantTimeCompare(a, b) == 1, bytes.Compare(a, b) == 0
		if bo, isBo := v.(*ssa.BinOp); isBo && a.Kind == Truth && (bo.Op == token.EQL || bo.Op == token.NEQ) {
			for _, pr := range [][2]ssa.Value{{bo.X, bo.Y}, {bo.Y, bo.X}} {
				cc, isC := pr[0].(*ssa.Call)
				k, isK := pr[1].(*ssa.Const)
				if !isC || !isK || k.Value == nil || cc.Call.StaticCallee() == nil {
					continue
				}
				wantK := int64(-1)
				switch cc.Call.StaticCallee().RelString(nil) {
				case "crypto/subtle.ConstantTimeCompare":
					wantK = 1
				case "bytes.Compare":
					wantK = 0
				}
				if wantK < 0 || k.Int64() != wantK {
					continue
				}
				return cc, true, (bo.Op == token.EQL) == a.Pol
			}
		}
		return nil, false, false
	}
	sig := c.Call.Signature()
	var rt types.Type
	if idx < 0 {
		if sig.Results().Len() != 1 {
			return nil, false, false
		}
		rt = sig.Results().At(0).Type()
	} else {
		rt = sig.Results().At(idx).Type()
	}
	switch a.Kind {
	case Truth:
		if b, isB := rt.Underlying().(*types.Basic); isB && b.Info()&types.IsBoolean != 0 {
			return c, true, a.Pol
		}
	case IsNil:
		if isErrorType(rt) {
			return c, true, a.Pol
		}
	}
	return nil, false, false
}

func isErrorType(t types.Type) bool {
	return types.Identical(t, types.Universe.Lookup("error").Type())
}

// verdictIndex returns the index of the result that carries fn's verdict:
// the last result if it is an error, else a sole/last bool; -1 if none.
func verdictIndex(fn *ssa.Function) int {
	res := fn.Signature.Results()
	if res.Len() == 0 {
		return -1
	}
	last := res.At(res.Len() - 1).Type()
	if isErrorType(last) {
		return res.Len() - 1
	}
	if b, ok := last.Underlying().(*types.Basic); ok && b.Info()&types.IsBoolean != 0 {
		return res.Len() - 1
	}
	return -1
}

// dominates reports whether instruction a dominates instruction b.
func dominates(a, b ssa.Instruction) bool {
	ba, bb := a.Block(), b.Block()
	if ba == bb {
		for _, in := range ba.Instrs {
			if in == a {
				return true
			}
			if in == b {
				return false
			}
		}
		return false
	}
	return ba.Dominates(bb)
}
