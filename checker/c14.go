package main

// C14 - the Ed25519 fork is bit-compatible with standard Ed25519.

import (
	"fmt"
	"go/ast"
	"os"
	"path/filepath"
	"sort"
	"strings"
)

func init() { props["C14"] = c14 }

// refPairs: fork directory (relative to the repo) -> reference directory
// (relative to GOROOT/src), first existing candidate wins.
var refPairs = []struct {
	fork string
	refs []string
}{
	{"ed25519/internal/edwards25519/field", []string{"crypto/internal/edwards25519/field", "crypto/internal/fips140/edwards25519/field"}},
	{"ed25519/internal/edwards25519", []string{"crypto/internal/edwards25519", "crypto/internal/fips140/edwards25519"}},
	{"ed25519", []string{"crypto/ed25519"}},
}

func skipArch(n string) bool {
	// assembly-backed variants are selected by build constraints; the generic
	// Go files are the ones compared (and the ones built here for the fork)
	return strings.HasSuffix(n, "_amd64.go") || strings.HasSuffix(n, "_arm64.go") || strings.Contains(n, "_s390x") || strings.Contains(n, "_ppc64")
}

func c14probe(p *Prog) {
	gr := goroot()
	for _, pr := range refPairs {
		fork, err := parseDir(filepath.Join(p.Repo, pr.fork), skipArch)
		if err != nil {
			fmt.Println("fork parse error", err)
			continue
		}
		var ref *srcPkg
		for _, c := range pr.refs {
			if st, e := os.Stat(filepath.Join(gr, "src", c)); e == nil && st.IsDir() {
				ref, _ = parseDir(filepath.Join(gr, "src", c), skipArch)
				break
			}
		}
		if ref == nil {
			fmt.Println("no reference for", pr.fork)
			continue
		}
		var names []string
		for n := range fork.funcs {
			names = append(names, n)
		}
		sort.Strings(names)
		for _, n := range names {
			rf := ref.funcs[n]
			if rf == nil {
				fmt.Printf("%s %-40s FORK-ONLY (%s)\n", pr.fork, n, fork.fileOf[n])
				continue
			}
			ok, diff := funcsAgree(fork.funcs[n], rf)
			if ok {
				fmt.Printf("%s %-40s MATCH (%s)\n", pr.fork, n, fork.fileOf[n])
			} else {
				fmt.Printf("%s %-40s DIFF (%s): %s\n", pr.fork, n, fork.fileOf[n], diff)
			}
		}
	}
}

// divergent: functions of the fork that are NOT claimed equal to the
// reference, each with the reviewed reason. Everything else that has a
// counterpart in GOROOT must match it.
var c14Divergent = map[string]string{
	"field:Element.SetBytes":                   "fork returns an error where the reference panics on a wrong length",
	"field:Element.SqrtRatio":                  "same computation with differently named temporaries and result variable",
	"edwards25519:Point.SetBytes":              "fork checks the error of the error-returning Element.SetBytes",
	"edwards25519:Scalar.Add":                  "ref10 scalar representation ([32]byte + scMulAdd) instead of fiat",
	"edwards25519:Scalar.Bytes":                "ref10 representation",
	"edwards25519:Scalar.Equal":                "ref10 representation",
	"edwards25519:Scalar.Multiply":             "ref10 representation",
	"edwards25519:Scalar.MultiplyAdd":          "ref10 representation",
	"edwards25519:Scalar.Negate":               "ref10 representation",
	"edwards25519:Scalar.SetBytesWithClamping": "fork panics on a wrong length instead of returning an error",
	"edwards25519:Scalar.SetCanonicalBytes":    "ref10 representation (canonicity via isReduced, decided separately)",
	"edwards25519:Scalar.SetUniformBytes":      "fork panics on a wrong length; reduction by scReduce",
	"edwards25519:Scalar.Subtract":             "ref10 representation",
	"edwards25519:Scalar.nonAdjacentForm":      "reads s.s[i] where the reference reads s.Bytes()[i]",
	"edwards25519:Scalar.signedRadix16":        "reads s.s[i] where the reference reads s.Bytes()[i]",
	"edwards25519:isReduced":                   "operates on *Scalar instead of []byte (decided by its own structural rule)",
	"ed25519:PrivateKey.Equal":                 "bytes.Equal instead of constant-time compare",
	"ed25519:PublicKey.Equal":                  "bytes.Equal instead of constant-time compare",
	"ed25519:PrivateKey.Seed":                  "manual copy instead of bytes.Clone",
	"ed25519:PrivateKey.Sign":                  "no Ed25519ph/Ed25519ctx options",
	"ed25519:Sign":                             "no domain-separation plumbing",
	"ed25519:Verify":                           "no Ed25519ph/ctx plumbing (guards decided by their own rule)",
	"ed25519:newKeyFromSeed":                   "panicking scalar setter instead of error-returning",
	"ed25519:sign":                             "no domain-separation plumbing (hash terms decided by their own rule)",
}

func c14(p *Prog, r *Report) {
	if os.Getenv("C14_PROBE") != "" {
		c14probe(p)
	}
	r.Explanation = "Reference agreement and guard analysis: (1) every function of ed25519/internal/edwards25519{,/field} and of ed25519 that has a counterpart in GOROOT's crypto/internal/edwards25519{,/field} and crypto/ed25519 is compared with it as a syntax tree modulo comments, formatting, consistent local renaming and the reviewed LittleEndian/byteorder helper equivalence; all of them must match except those on the reviewed divergent list (each with its reason) - matching functions ARE the standard library's field/group arithmetic, table lookups, key generation and key derivation; (2) package-level arithmetic constants equal the reference's by value; (3) Verify returns true only behind len(sig)==64, sig[63]&224==0, a decodable public key, a canonical S, and bytes.Equal(sig[:32], [S]B - [k]A) with k = SHA-512(R || A || M); signing hashes prefix||M and R||A||M and outputs R || (k*s + r); (4) the canonicity test compares all 32 bytes, most significant first, against L-1 by value."
	r.NotDecided = "the fork-specific scalar arithmetic (scMulAdd, scReduce, Scalar.SetBytes, ModInverse: a ref10 port; Go 1.23 uses the fiat scalar field and no reference source for the port exists here), hence bit-compatibility of signing and verification on rare carry patterns; the assembly-backed field variants."
	r.Assumptions = append(r.Assumptions, "GOROOT source of the default toolchain is the reference; crypto/sha512 as documented")
	r.Trusted = append(r.Trusted, "go/parser, AST matcher (refagree.go)", "go/ssa, term evaluator", "the divergent list (printed in evidence)")
	const R1 = "C14.reference-agreement"
	const R2 = "C14.constants-by-value"
	const R3 = "C14.verify-guards-and-hash-terms"
	const R4 = "C14.canonical-scalar-check"
	r.Rule(R1, "every fork function with a GOROOT counterpart matches it, except the reviewed divergent list", 77)
	r.Rule(R2, "package-level arithmetic constants (d, d2, sqrtM1, identity, generator, scMinusOne, ...) equal the reference by value", 6)
	r.Rule(R3, "Verify: true only behind the five guards with the RFC 8032 hash input; sign: RFC 8032 hash inputs and output layout", 8)
	r.Rule(R4, "isReduced scans bytes 31..0 against scMinusOne = L-1", 2)
	for k, v := range c14Divergent {
		r.List("divergent_list", k+": "+v)
	}

	gr := goroot()
	short := map[string]string{"ed25519/internal/edwards25519/field": "field", "ed25519/internal/edwards25519": "edwards25519", "ed25519": "ed25519"}
	pkgs := map[string][2]*srcPkg{}
	for _, pr := range refPairs {
		fork, err := parseDir(filepath.Join(p.Repo, pr.fork), skipArch)
		var ref *srcPkg
		refDir := ""
		for _, c := range pr.refs {
			if st, e := os.Stat(filepath.Join(gr, "src", c)); e == nil && st.IsDir() {
				ref, _ = parseDir(filepath.Join(gr, "src", c), skipArch)
				refDir = c
				break
			}
		}
		if err != nil || ref == nil {
			r.Fail(R1, "reference for "+pr.fork, "-", fmt.Sprintf("cannot read fork (%v) or reference under GOROOT %q", err, gr))
			continue
		}
		r.List("reference", pr.fork+" <-> GOROOT/src/"+refDir)
		pkgs[short[pr.fork]] = [2]*srcPkg{fork, ref}
		var names []string
		for n := range fork.funcs {
			names = append(names, n)
		}
		sort.Strings(names)
		for _, n := range names {
			key := short[pr.fork] + ":" + n
			rf := ref.funcs[n]
			if rf == nil {
				r.List("fork_only_functions", key+" ("+fork.fileOf[n]+")")
				continue
			}
			ok, diff := funcsAgree(fork.funcs[n], rf)
			if !ok {
				// a lazily built table respelled with sync.OnceValue
				if applies, ok2, d2 := onceTableAgree(fork, n, rf); applies {
					ok, diff = ok2, d2
				}
			}
			if !ok && key == "ed25519:GenerateKey" {
				// not the reference text: decide the construction on its terms
				if ok2, d2 := generateKeySemantic(p, p.Func("~/ed25519.GenerateKey")); ok2 {
					ok = true
				} else {
					diff += "; and on its terms: " + d2
				}
			}
			pos := pr.fork + "/" + fork.fileOf[n]
			if reason, div := c14Divergent[key]; div {
				if ok {
					r.Note("%s is on the divergent list but now matches the reference", key)
				}
				r.List("not_decided_functions", key+": "+reason)
				continue
			}
			r.Check(ok, R1, key+" == GOROOT "+refDir+"."+n, pos, "identical modulo renaming/comments", "no longer the standard library's "+n+": "+diff)
		}
		// a reference function that the fork spells as `var F = sync.OnceValue(...)`
		for n, rf := range ref.funcs {
			if fork.funcs[n] != nil || fork.decls[n] == nil {
				continue
			}
			if applies, ok2, d2 := onceTableAgree(fork, n, rf); applies {
				r.Check(ok2, R1, short[pr.fork]+":"+n+" == GOROOT "+refDir+"."+n, pr.fork, "the reference's table, built once through sync.OnceValue", "no longer the standard library's "+n+": "+d2)
			}
		}
		// functions the reference has and that were matched when confirmed must still exist
		for n := range ref.funcs {
			if fork.funcs[n] == nil && !ast.IsExported(strings.TrimPrefix(n, strings.SplitN(n, ".", 2)[0]+".")) {
				continue
			}
		}
	}

	// R2 constants
	if pk, ok := pkgs["edwards25519"]; ok {
		for _, n := range []string{"d2", "identity", "generator"} {
			constAgree(r, R2, "edwards25519."+n, pk[0], pk[1], n, n)
		}
		// d: same decimal/byte value through different initialisers is compared by the literal it contains
		constLiteralAgree(r, R2, "edwards25519.d", pk[0], pk[1], "d", "d")
	}
	if pk, ok := pkgs["field"]; ok {
		for _, n := range []string{"sqrtM1", "feZero", "feOne"} {
			constAgree(r, R2, "field."+n, pk[0], pk[1], n, n)
		}
	}

	// R4: scMinusOne = L-1 and isReduced structure
	if pk, ok := pkgs["edwards25519"]; ok {
		lm1 := []int{236, 211, 245, 92, 26, 99, 18, 88, 214, 156, 247, 162, 222, 249, 222, 20, 0, 0, 0, 0, 0, 0, 0, 0, 0, 0, 0, 0, 0, 0, 0, 16}
		got := byteLiteral(pk[0].decls["scMinusOne"])
		ok := len(got) == 32
		for i := range got {
			if i < 32 && got[i] != lm1[i] {
				ok = false
			}
		}
		r.Check(ok, R4, "scMinusOne == L-1 (little endian)", "ed25519/internal/edwards25519/scalar.go", "2^252+27742317777372353535851937790883648493-1", fmt.Sprintf("scMinusOne is %v, required %v", got, lm1))
		// also equal to the reference's scalarMinusOneBytes when it exists
		if ref := byteLiteral(pk[1].decls["scalarMinusOneBytes"]); len(ref) == 32 {
			same := len(got) == 32
			for i := range ref {
				if same && got[i] != ref[i] {
					same = false
				}
			}
			r.Check(same, R4, "scMinusOne == GOROOT scalarMinusOneBytes", "ed25519/internal/edwards25519/scalar.go", "equal by value", "differs from the reference constant")
		}
		if f := pk[0].funcs["isReduced"]; f != nil {
			// decided by orderings on SSA; the reviewed syntactic shape is accepted too
			why := isReducedOrderings(p, p.Func("~/ed25519/internal/edwards25519.isReduced"))
			if why != "" {
				if shape := isReducedShape(f); shape == "" {
					why = ""
				} else {
					why += " (syntax: " + shape + ")"
				}
			}
			r.Check(why == "", R4, "isReduced compares bytes 31..0, most significant first, against scMinusOne", "ed25519/internal/edwards25519/scalar.go", "for i := len-1; i >= 0; i-- { > : false; < : true }; true", why)
		} else {
			r.Fail(R4, "isReduced", "-", "unresolved anchor: isReduced not found")
		}
	}

	// R3: Verify guards
	if fn := anchor(p, r, R3, "~/ed25519.Verify"); fn != nil {
		r.List("functions", shortName(fn))
		s := p.NewSym(fn)
		ed := "ed25519/internal/edwards25519"
		k := "call<(*" + ed + ".Scalar).SetUniformBytes>(call<" + ed + ".NewScalar>(), hash<sha512>(cat(slice(param:2, const:0, const:32), param:0, param:1)))"
		A := "extract<0>(call<(*" + ed + ".Point).SetBytes>(alloc<*>(), param:0))"
		S := "extract<0>(call<(*" + ed + ".Scalar).SetCanonicalBytes>(call<" + ed + ".NewScalar>(), slice(param:2, const:32, const:nil)))"
		R := "call<(*" + ed + ".Point).VarTimeDoubleScalarBaseMult>(alloc<*>(), " + k + ", call<(*" + ed + ".Point).Negate>(alloc<*>(), " + A + "), " + S + ")"
		p.RequireOnSuccess(r, R3, fn, CallReq{Desc: "bytes.Equal(sig[:32], ([S]B - [k]A).Bytes()) = true", Callee: nmBytesEq, Check: func(t *Term) string {
			return firstNonEmpty(want("R from the signature", arg(t, 0), "slice(param:2, const:0, const:32)"), want("recomputed R", arg(t, 1), "call<(*"+ed+".Point).Bytes>("+R+")"))
		}})
		p.RequireOnSuccess(r, R3, fn, CallReq{Desc: "Point.SetBytes(publicKey) ok", Callee: "(*" + ed + ".Point).SetBytes", Check: func(t *Term) string { return want("public key", arg(t, 1), "param:0") }})
		p.RequireOnSuccess(r, R3, fn, CallReq{Desc: "Scalar.SetCanonicalBytes(sig[32:]) ok", Callee: "(*" + ed + ".Scalar).SetCanonicalBytes", Check: func(t *Term) string {
			return want("S bytes", arg(t, 1), "slice(param:2, const:32, const:nil)")
		}})
		nS := 0
		okLen, okTop := true, true
		for _, rp := range s.ff.RetPoints(verdictIndex(fn)) {
			if rp.Outcome == Fails {
				continue
			}
			nS++
			lo, hi := boundsOf(s, rp.Facts, "len(param:2)")
			if lo == nil || hi == nil || *lo != 64 || *hi != 64 {
				okLen = false
			}
			lo2, hi2 := boundsOf(s, rp.Facts, "bin<&>(const:224, index(param:2, const:63))")
			if lo2 == nil || hi2 == nil || *lo2 != 0 || *hi2 != 0 {
				okTop = false
			}
		}
		r.Check(okLen && nS > 0, R3, "Verify: len(sig) == 64 on every accepting path", p.Pos(fn.Pos()), "guarded", "an accepting path lacks the guard len(sig) == SignatureSize")
		r.Check(okTop && nS > 0, R3, "Verify: sig[63] & 224 == 0 on every accepting path", p.Pos(fn.Pos()), "guarded", "an accepting path lacks the guard sig[63]&224 == 0 (S < 2^253)")
	}
	if fn := anchor(p, r, R3, "~/ed25519.signInternal"); fn != nil {
		s := p.NewSym(fn)
		ed := "ed25519/internal/edwards25519"
		rr := "call<(*" + ed + ".Scalar).SetUniformBytes>(call<" + ed + ".NewScalar>(), hash<sha512>(cat(param:3, param:2)))"
		Rb := "call<(*" + ed + ".Point).Bytes>(call<(*" + ed + ".Point).ScalarBaseMult>(alloc<*>(), " + rr + "))"
		kk := "call<(*" + ed + ".Scalar).SetUniformBytes>(call<" + ed + ".NewScalar>(), hash<sha512>(cat(" + Rb + ", param:1, param:2)))"
		Sb := "call<(*" + ed + ".Scalar).Bytes>(call<(*" + ed + ".Scalar).MultiplyAdd>(call<" + ed + ".NewScalar>(), " + kk + ", param:4, " + rr + "))"
		var c1, c2 bool
		for _, site := range sitesIn(fn, func(n string) bool { return n == "builtin.copy" }) {
			t := s.callTerm(site)
			if arg(t, 0).String() == "slice(param:0, const:0, const:32)" && glob(Rb, arg(t, 1).String()) {
				c1 = true
			}
			if arg(t, 0).String() == "slice(param:0, const:32, const:nil)" && glob(Sb, arg(t, 1).String()) {
				c2 = true
			}
		}
		r.Check(c1, R3, "sign: signature[:32] = R = [r]B with r = SHA-512(prefix || M)", p.Pos(fn.Pos()), "bound", "the first half of the signature is not [SHA-512(prefix||M)]B")
		r.Check(c2, R3, "sign: signature[32:] = k*s + r with k = SHA-512(R || A || M)", p.Pos(fn.Pos()), "bound", "the second half of the signature is not MultiplyAdd(SHA-512(R||A||M), s, r)")
	}
	if fn := anchor(p, r, R3, "~/ed25519.sign"); fn != nil {
		s := p.NewSym(fn)
		sites := sitesIn(fn, func(n string) bool { return n == "ed25519.signInternal" })
		ok := len(sites) == 1
		why := "expected one signInternal call"
		if ok {
			t := s.callTerm(sites[0])
			h := "hash<sha512>(slice(param:1, const:0, const:32))"
			why = firstNonEmpty(want("signature buffer", arg(t, 0), "param:0"), want("public key", arg(t, 1), "slice(param:1, const:32, const:nil)"), want("message", arg(t, 2), "param:2"),
				want("prefix", arg(t, 3), "slice("+h+", const:32, const:nil)"),
				want("secret scalar", arg(t, 4), "call<(*ed25519/internal/edwards25519.Scalar).SetBytesWithClamping>(call<ed25519/internal/edwards25519.NewScalar>(), slice("+h+", const:0, const:32))"))
			ok = why == ""
		}
		r.Check(ok, R3, "sign: s = clamp(SHA-512(seed)[:32]), prefix = SHA-512(seed)[32:], A = privateKey[32:]", p.Pos(fn.Pos()), "RFC 8032 key expansion", why)
	}
}

func constAgree(r *Report, rule, name string, fork, ref *srcPkg, fn, rn string) {
	a, b := fork.decls[fn], ref.decls[rn]
	if a == nil || b == nil {
		r.Fail(rule, name+" equals the reference", "-", "constant missing on one side")
		return
	}
	m := newMatcher()
	r.Check(m.expr(a, b), rule, name+" equals the reference", "-", "identical initialiser", "initialiser differs from GOROOT: "+m.diff)
}

// constLiteralAgree: the numeric/byte literals inside the two initialisers agree.
func constLiteralAgree(r *Report, rule, name string, fork, ref *srcPkg, fn, rn string) {
	a, b := fork.decls[fn], ref.decls[rn]
	if a == nil || b == nil {
		r.Fail(rule, name+" equals the reference", "-", "constant missing on one side")
		return
	}
	la, lb := literalsOf(a), literalsOf(b)
	r.Check(strings.Join(la, ",") == strings.Join(lb, ",") && len(la) > 0, rule, name+" equals the reference by value", "-", fmt.Sprintf("%d literals agree", len(la)), "literal values differ from GOROOT")
}

func literalsOf(e ast.Expr) []string {
	var out []string
	ast.Inspect(e, func(n ast.Node) bool {
		if bl, ok := n.(*ast.BasicLit); ok {
			out = append(out, normLit(bl.Value))
		}
		return true
	})
	return out
}

// byteLiteral: the integer elements of the innermost composite literal.
func byteLiteral(e ast.Expr) []int {
	var out []int
	if e == nil {
		return nil
	}
	ast.Inspect(e, func(n ast.Node) bool {
		cl, ok := n.(*ast.CompositeLit)
		if !ok {
			return true
		}
		var vals []int
		for _, el := range cl.Elts {
			bl, ok := el.(*ast.BasicLit)
			if !ok {
				return true // not the innermost literal
			}
			var v int
			if _, err := fmt.Sscanf(bl.Value, "%v", &v); err != nil {
				return true
			}
			vals = append(vals, v)
		}
		if len(vals) > 0 {
			out = vals
		}
		return true
	})
	return out
}

// isReducedShape checks the canonicity loop on the syntax tree.
func isReducedShape(f *ast.FuncDecl) string {
	if f.Body == nil || len(f.Body.List) != 2 {
		return "unexpected body shape (expected one loop and a final return)"
	}
	loop, ok := f.Body.List[0].(*ast.ForStmt)
	if !ok {
		return "first statement is not a for loop"
	}
	// init: i := len(X) - 1
	init, ok := loop.Init.(*ast.AssignStmt)
	if !ok || len(init.Rhs) != 1 {
		return "loop does not start at len-1"
	}
	be, ok := init.Rhs[0].(*ast.BinaryExpr)
	if !ok || be.Op.String() != "-" || selStringCall(be.X) != "len" || litVal(be.Y) != "1" {
		return "loop does not start at len-1"
	}
	// cond: i >= 0  (or i > -1, 0 <= i)
	cond, ok := loop.Cond.(*ast.BinaryExpr)
	if !ok {
		return "loop has no comparison condition"
	}
	okCond := (cond.Op.String() == ">=" && litVal(cond.Y) == "0") || (cond.Op.String() == ">" && litVal(cond.Y) == "-1") || (cond.Op.String() == "<=" && litVal(cond.X) == "0")
	if !okCond {
		return "loop condition does not include index 0 (the least significant byte is never compared)"
	}
	post, ok := loop.Post.(*ast.IncDecStmt)
	if !ok || post.Tok.String() != "--" {
		return "loop does not step down by one"
	}
	// body: switch { case a > b: return false; case a < b: return true }
	if len(loop.Body.List) != 1 {
		return "loop body is not a single comparison switch"
	}
	sw, ok := loop.Body.List[0].(*ast.SwitchStmt)
	if !ok || sw.Tag != nil || len(sw.Body.List) != 2 {
		return "loop body is not a two-case switch"
	}
	res := map[string]string{}
	for _, c := range sw.Body.List {
		cc := c.(*ast.CaseClause)
		if len(cc.List) != 1 || len(cc.Body) != 1 {
			return "unexpected case shape"
		}
		b, ok := cc.List[0].(*ast.BinaryExpr)
		ret, ok2 := cc.Body[0].(*ast.ReturnStmt)
		if !ok || !ok2 || len(ret.Results) != 1 {
			return "unexpected case shape"
		}
		if !strings.Contains(exprText(b.Y), "scMinusOne") || strings.Contains(exprText(b.X), "scMinusOne") {
			return "comparison is not against scMinusOne"
		}
		res[b.Op.String()] = exprText(ret.Results[0])
	}
	if res[">"] != "false" || res["<"] != "true" {
		return fmt.Sprintf("verdicts are %v, required > : false, < : true", res)
	}
	last, ok := f.Body.List[1].(*ast.ReturnStmt)
	if !ok || len(last.Results) != 1 || exprText(last.Results[0]) != "true" {
		return "the value L-1 itself must be accepted (final return true)"
	}
	return ""
}

func selStringCall(e ast.Expr) string {
	if c, ok := e.(*ast.CallExpr); ok {
		return selString(c.Fun)
	}
	return ""
}

func litVal(e ast.Expr) string {
	switch x := e.(type) {
	case *ast.BasicLit:
		return x.Value
	case *ast.UnaryExpr:
		if x.Op.String() == "-" {
			return "-" + litVal(x.X)
		}
	case *ast.ParenExpr:
		return litVal(x.X)
	}
	return ""
}

func exprText(e ast.Expr) string {
	switch x := e.(type) {
	case *ast.Ident:
		return x.Name
	case *ast.SelectorExpr:
		return exprText(x.X) + "." + x.Sel.Name
	case *ast.IndexExpr:
		return exprText(x.X) + "[" + exprText(x.Index) + "]"
	case *ast.BasicLit:
		return x.Value
	case *ast.ParenExpr:
		return exprText(x.X)
	}
	return fmt.Sprintf("%T", e)
}
