package main

// Input bits a byte decoder ignores.
//
// droppedInputBits evaluates, in the bit-provenance domain of c19.go, every
// value a function stores, returns, branches on or hands to a call, with the
// bytes of one byte-array / byte-slice parameter as named inputs (bit 8k+j is
// bit j of byte k); small helpers that load words from a sub-slice
// (load4u32(x[28:])) are inlined. An input bit that appears in none of those
// values influences nothing the function does: two inputs differing only in
// such bits are indistinguishable to it. The analysis claims nothing (ok =
// false) as soon as the parameter is used in a way it does not model (a
// non-constant index, the whole slice handed to an opaque call, ...).

import (
	"go/token"
	"go/types"
	"sort"

	"golang.org/x/tools/go/ssa"
)

type byteRefEnv struct {
	base map[ssa.Value]int // address/slice values -> byte offset within the input
}

func (e *byteRefEnv) offsetOf(v ssa.Value) (int, bool) {
	if o, ok := e.base[v]; ok {
		return o, true
	}
	switch x := v.(type) {
	case *ssa.Slice:
		o, ok := e.offsetOf(x.X)
		if !ok {
			return 0, false
		}
		lo := 0
		if x.Low != nil {
			k, ok := constIntOf(x.Low)
			if !ok {
				return 0, false
			}
			lo = int(k)
		}
		return o + lo, true
	case *ssa.IndexAddr:
		o, ok := e.offsetOf(x.X)
		if !ok {
			return 0, false
		}
		k, ok := constIntOf(x.Index)
		if !ok {
			return 0, false
		}
		return o + int(k), true
	case *ssa.ChangeType:
		return e.offsetOf(x.X)
	}
	return 0, false
}

func isByteContainer(t types.Type) (n int64, ok bool) {
	switch u := t.Underlying().(type) {
	case *types.Pointer:
		if a, isArr := u.Elem().Underlying().(*types.Array); isArr {
			if b, isB := a.Elem().Underlying().(*types.Basic); isB && b.Kind() == types.Byte {
				return a.Len(), true
			}
		}
	case *types.Slice:
		if b, isB := u.Elem().Underlying().(*types.Basic); isB && b.Kind() == types.Byte {
			return -1, true
		}
	}
	return 0, false
}

// droppedInputBits: see the file comment. n is the size of the input in bytes
// when the parameter is a pointer to an array (else the highest byte read + 1).
func droppedInputBits(f *ssa.Function) (dropped []int, prm *ssa.Parameter, ok bool) {
	if f == nil || f.Blocks == nil {
		return nil, nil, false
	}
	var size int64
	for _, q := range f.Params {
		if n, isB := isByteContainer(q.Type()); isB {
			if prm != nil {
				return nil, nil, false // two byte inputs: not modelled
			}
			prm, size = q, n
		}
	}
	if prm == nil {
		return nil, nil, false
	}
	live := map[int]bool{}
	maxByte := -1
	unmodelled := false
	var evalIn func(fn *ssa.Function, env *byteRefEnv, depth int) *bitEval
	mkEval := func(fn *ssa.Function, env *byteRefEnv, depth int) *bitEval {
		be := &bitEval{env: map[ssa.Value]bits{}, memo: map[ssa.Value]bits{}}
		be.load = func(addr ssa.Value) (bits, bool) {
			k, ok := env.offsetOf(addr)
			if !ok {
				return bits{}, false
			}
			if k > maxByte {
				maxByte = k
			}
			var b bits
			for j := 0; j < 8; j++ {
				b[j] = 2 + 8*k + j
			}
			return b, true
		}
		be.call = func(c *ssa.Call) (bits, bool) {
			g := c.Call.StaticCallee()
			if g == nil || g.Blocks == nil || depth >= 3 || g.Signature.Results().Len() != 1 {
				return bits{}, false
			}
			// a helper reading words from a byte view of the input
			cenv := &byteRefEnv{base: map[ssa.Value]int{}}
			bound := false
			for i, a := range c.Call.Args {
				if o, ok := env.offsetOf(a); ok && i < len(g.Params) {
					cenv.base[g.Params[i]] = o
					bound = true
				} else if _, isB := isByteContainer(a.Type()); isB {
					return bits{}, false
				}
			}
			if !bound {
				return bits{}, false
			}
			var ret *ssa.Return
			for _, b := range g.Blocks {
				if r, ok := b.Instrs[len(b.Instrs)-1].(*ssa.Return); ok {
					if ret != nil {
						return bits{}, false
					}
					ret = r
				}
			}
			if ret == nil || len(g.Blocks) != 1 {
				return bits{}, false
			}
			ce := evalIn(g, cenv, depth+1)
			out := ce.of(ret.Results[0])
			if ce.err != "" {
				return bits{}, false
			}
			return out, true
		}
		return be
	}
	evalIn = mkEval
	env := &byteRefEnv{base: map[ssa.Value]int{prm: 0}}
	be := mkEval(f, env, 0)
	use := func(v ssa.Value) {
		if v == nil {
			return
		}
		if _, isInt := v.Type().Underlying().(*types.Basic); !isInt {
			// a view of the input handed on as a whole: every bit may matter
			if _, ok := env.offsetOf(v); ok {
				unmodelled = true
			}
			return
		}
		if !dependsOnInput(v, env, map[ssa.Value]bool{}) {
			return
		}
		be.err = ""
		b := be.of(v)
		if be.err != "" {
			unmodelled = true
			return
		}
		for _, x := range b {
			if x >= 2 {
				live[x-2] = true
			} else if x < 0 {
				unmodelled = true
			}
		}
	}
	for _, b := range f.Blocks {
		for _, in := range b.Instrs {
			switch x := in.(type) {
			case *ssa.Store:
				use(x.Val)
			case *ssa.Return:
				for _, v := range x.Results {
					use(v)
				}
			case *ssa.If:
				use(x.Cond)
			case ssa.CallInstruction:
				cc := x.Common()
				if c, isCall := x.(*ssa.Call); isCall {
					if _, ok := be.call(c); ok {
						continue // inlined where its value is used
					}
				}
				for _, a := range cc.Args {
					use(a)
				}
			}
		}
	}
	if unmodelled {
		return nil, prm, false
	}
	n := int(size)
	if size < 0 {
		n = maxByte + 1
	}
	for k := 0; k < n; k++ {
		for j := 0; j < 8; j++ {
			if !live[8*k+j] {
				dropped = append(dropped, 8*k+j)
			}
		}
	}
	sort.Ints(dropped)
	return dropped, prm, n > 0
}

func dependsOnInput(v ssa.Value, env *byteRefEnv, seen map[ssa.Value]bool) bool {
	if v == nil || seen[v] {
		return false
	}
	seen[v] = true
	if _, ok := env.offsetOf(v); ok {
		return true
	}
	if u, ok := v.(*ssa.UnOp); ok && u.Op == token.MUL {
		if _, ok := env.offsetOf(u.X); ok {
			return true
		}
	}
	in, ok := v.(ssa.Instruction)
	if !ok {
		return false
	}
	for _, op := range in.Operands(nil) {
		if op != nil && *op != nil && dependsOnInput(*op, env, seen) {
			return true
		}
	}
	return false
}

// wholeValueCompareIn: f compares two byte strings / byte arrays as whole
// values (the re-encode-and-compare idiom of canonical decoders).
func wholeValueCompareIn(f *ssa.Function) bool {
	for _, b := range f.Blocks {
		for _, in := range b.Instrs {
			switch x := in.(type) {
			case *ssa.Call:
				switch calleeName(x.Common()) {
				case "bytes.Equal", "crypto/subtle.ConstantTimeCompare", "bytes.Compare", "crypto/hmac.Equal":
					return true
				}
			case *ssa.BinOp:
				if x.Op == token.EQL || x.Op == token.NEQ {
					if a, ok := x.X.Type().Underlying().(*types.Array); ok {
						if bb, ok := a.Elem().Underlying().(*types.Basic); ok && bb.Kind() == types.Byte {
							return true
						}
					}
				}
			}
		}
	}
	return false
}

// bitDroppingDecoder explores the dependency functions statically reachable
// from decoder (depth-limited) and reports the first one that ignores bits of
// its byte input while no function on the way compares whole values.
func (p *Prog) bitDroppingDecoder(decoder *ssa.Function) (culprit *ssa.Function, dropped []int, explored int) {
	type item struct {
		f       *ssa.Function
		depth   int
		guarded bool
	}
	seen := map[*ssa.Function]bool{}
	work := []item{{decoder, 0, false}}
	for len(work) > 0 {
		it := work[0]
		work = work[1:]
		if it.f == nil || it.f.Blocks == nil || seen[it.f] {
			continue
		}
		seen[it.f] = true
		pk := fnPkgPath(it.f)
		if !stringsContainsDot(pk) {
			continue // standard library: assumed faithful
		}
		explored++
		guarded := it.guarded || wholeValueCompareIn(it.f)
		if !guarded {
			if d, _, ok := droppedInputBits(it.f); ok && len(d) > 0 {
				return it.f, d, explored
			}
		}
		if it.depth >= 5 {
			continue
		}
		for _, b := range it.f.Blocks {
			for _, in := range b.Instrs {
				if ci, ok := in.(ssa.CallInstruction); ok {
					if g := ci.Common().StaticCallee(); g != nil {
						work = append(work, item{g, it.depth + 1, guarded})
					}
				}
			}
		}
	}
	return nil, nil, explored
}

func stringsContainsDot(s string) bool {
	for i := 0; i < len(s); i++ {
		if s[i] == '.' {
			return true
		}
	}
	return false
}

// groupScalarDecoder: the UnmarshalBinary method of the scalar type that the
// circl group stored in package-level variable `global` (e.g.
// "github.com/cloudflare/circl/group.Ristretto255") hands out from NewScalar.
func (p *Prog) groupScalarDecoder(global string) (*ssa.Function, string) {
	i := lastIndexByte(global, '.')
	if i < 0 {
		return nil, "malformed global name"
	}
	pkgPath, name := global[:i], global[i+1:]
	var pkg *ssa.Package
	for _, q := range p.SSA.AllPackages() {
		if q.Pkg.Path() == pkgPath {
			pkg = q
		}
	}
	if pkg == nil {
		return nil, "package " + pkgPath + " not loaded"
	}
	g, _ := pkg.Members[name].(*ssa.Global)
	if g == nil {
		return nil, "no package-level variable " + global
	}
	init := pkg.Func("init")
	var dyn types.Type
	if init != nil {
		for _, b := range init.Blocks {
			for _, in := range b.Instrs {
				if st, ok := in.(*ssa.Store); ok && st.Addr == ssa.Value(g) {
					if mi, ok := st.Val.(*ssa.MakeInterface); ok {
						dyn = mi.X.Type()
					}
				}
			}
		}
	}
	if dyn == nil {
		return nil, "the dynamic type of " + global + " is not a composite literal stored at initialisation"
	}
	sel := p.SSA.MethodSets.MethodSet(dyn).Lookup(nil, "NewScalar")
	if sel == nil {
		sel = p.SSA.MethodSets.MethodSet(dyn).Lookup(pkg.Pkg, "NewScalar")
	}
	if sel == nil {
		return nil, "no NewScalar method on " + dyn.String()
	}
	ns := p.SSA.MethodValue(sel)
	if ns == nil || ns.Blocks == nil {
		return nil, "NewScalar has no body"
	}
	var st types.Type
	for _, b := range ns.Blocks {
		for _, in := range b.Instrs {
			if mi, ok := in.(*ssa.MakeInterface); ok {
				st = mi.X.Type()
			}
		}
	}
	if st == nil {
		return nil, "NewScalar does not return a concrete scalar"
	}
	us := p.SSA.MethodSets.MethodSet(st).Lookup(nil, "UnmarshalBinary")
	if us == nil {
		return nil, "no UnmarshalBinary on " + st.String()
	}
	f := p.SSA.MethodValue(us)
	if f == nil {
		return nil, "UnmarshalBinary has no body"
	}
	return f, ""
}

func lastIndexByte(s string, c byte) int {
	for i := len(s) - 1; i >= 0; i-- {
		if s[i] == c {
			return i
		}
	}
	return -1
}
