package main

// Batched DLEQ proofs: do the batching weights bind the whole batch?
//
// A batched proof convinces the verifier of ONE random linear combination
// sum d_i*(D_i - k*C_i) = 0. It is sound only if an issuer cannot choose the
// D_i after learning the d_i - which holds when every d_i depends on the whole
// batch. When d_i is derived from (i, C_i, D_i) and batch-independent values
// only, a malicious issuer can pick, for every slot separately, from many
// candidate D_i with known error terms, and solve sum d_i*delta_i = 0 as a
// generalized-birthday (k-list) problem: for batches of thousands of elements
// in 2^31..2^33 hash evaluations. The verifier then accepts elements none of
// which is k*C_i.
//
// weightsIndependentPerElement decides the structural half on the dependency's
// own code: in the function that computes the composites it takes an
// OVER-approximate, flow-insensitive backward slice (through locals, buffers
// written by calls, hash objects written by calls) of the input of the
// per-element HashToScalar call and looks for any use of an element list other
// than the current element. If even the over-approximation finds none, the
// weights are independent per element.

import (
	"go/token"
	"go/types"
	"strings"

	"golang.org/x/tools/go/ssa"
)

func weightsIndependentPerElement(p *Prog, f *ssa.Function) (independent bool, detail string) {
	if f == nil || f.Blocks == nil {
		return false, "no body"
	}
	// element-list parameters: slices of an interface/element type
	lists := map[ssa.Value]bool{}
	for _, q := range f.Params {
		if sl, ok := q.Type().Underlying().(*types.Slice); ok {
			if _, isByte := sl.Elem().Underlying().(*types.Basic); !isByte {
				lists[q] = true
			}
		}
	}
	if len(lists) == 0 {
		return false, "no element-list parameter"
	}
	// the per-element hash: a HashToScalar call inside a loop
	var site *ssa.Call
	var loop *Loop
	loops := naturalLoops(f)
	for _, b := range f.Blocks {
		for _, in := range b.Instrs {
			c, ok := in.(*ssa.Call)
			if !ok {
				continue
			}
			name := ""
			if c.Call.IsInvoke() {
				name = c.Call.Method.Name()
			} else if g := c.Call.StaticCallee(); g != nil {
				name = g.Name()
			}
			if name != "HashToScalar" {
				continue
			}
			if l := innermostLoop(loops, b); l != nil {
				site, loop = c, l
			}
		}
	}
	if site == nil {
		return false, "no per-element HashToScalar call inside a loop"
	}
	// object -> instructions that may write it (calls receiving it, stores into it)
	writers := map[ssa.Value][]ssa.Instruction{}
	objOf := func(v ssa.Value) ssa.Value { return rootObj(v) }
	for _, b := range f.Blocks {
		for _, in := range b.Instrs {
			switch x := in.(type) {
			case *ssa.Store:
				o := objOf(x.Addr)
				writers[o] = append(writers[o], x)
			case ssa.CallInstruction:
				cc := x.Common()
				var objs []ssa.Value
				if cc.IsInvoke() {
					objs = append(objs, cc.Value)
				}
				for _, a := range cc.Args {
					switch a.Type().Underlying().(type) {
					case *types.Pointer, *types.Interface, *types.Slice, *types.Map:
						objs = append(objs, objOf(a))
					}
				}
				for _, o := range objs {
					writers[o] = append(writers[o], x)
				}
			}
		}
	}
	seen := map[ssa.Value]bool{}
	other := ""
	own := 0
	var walk func(v ssa.Value)
	walk = func(v ssa.Value) {
		if v == nil || seen[v] || other != "" {
			return
		}
		seen[v] = true
		switch x := v.(type) {
		case *ssa.Const, *ssa.Global, *ssa.Function, *ssa.Builtin, *ssa.FreeVar:
			return
		case *ssa.Parameter:
			if lists[x] {
				other = "the element list " + x.Name() + " as a whole"
			}
			return
		case *ssa.IndexAddr:
			if lists[x.X] {
				if idxIn, ok := x.Index.(ssa.Instruction); ok && loop.Blocks[idxIn.Block()] {
					own++
					walk(x.Index)
					return
				}
				other = "element " + x.X.Name() + "[..] outside the per-element loop at " + p.InstrPos(x)
				return
			}
		case *ssa.Index:
			if lists[x.X] {
				other = "element list " + x.X.Name() + " indexed at " + p.InstrPos(x)
				return
			}
		case *ssa.Range:
			// ranging over the list yields indices (and values via Next)
			if lists[x.X] {
				return
			}
		case *ssa.Call:
			if b, ok := x.Call.Value.(*ssa.Builtin); ok && (b.Name() == "len" || b.Name() == "cap") {
				return // the number of elements is not their content
			}
		}
		// memory: everything that may have been written into the object read here
		o := objOf(v)
		for _, w := range writers[o] {
			switch y := w.(type) {
			case *ssa.Store:
				walk(y.Val)
			case ssa.CallInstruction:
				cc := y.Common()
				if cc.IsInvoke() {
					walk(cc.Value)
				}
				for _, a := range cc.Args {
					walk(a)
				}
			}
		}
		if in, ok := v.(ssa.Instruction); ok {
			for _, op := range in.Operands(nil) {
				if op != nil && *op != nil {
					walk(*op)
				}
			}
		}
	}
	if len(site.Call.Args) == 0 {
		return false, "HashToScalar without input"
	}
	walk(site.Call.Args[0])
	if other != "" {
		return false, "the weight's hash input may depend on " + other
	}
	if own == 0 {
		return false, "the weight's hash input does not mention the current element (rule does not see the construct)"
	}
	return true, "the input of HashToScalar at " + p.InstrPos(site) + " depends on the element lists only through the current element (" + itoa(own) + " uses) - the seed and every other ingredient are independent of the batch"
}

func itoa(n int) string {
	if n == 0 {
		return "0"
	}
	s := ""
	for n > 0 {
		s = string(rune('0'+n%10)) + s
		n /= 10
	}
	return s
}

// boundedByConst: every accepting return of fn is dominated by a comparison
// bounding `len(x)` for some slice x by a constant <= max (a batch-size cap).
func batchBounded(p *Prog, fn *ssa.Function, max int64) bool {
	s := p.NewSym(fn)
	n := 0
	for _, rp := range s.ff.RetPoints(verdictIndex(fn)) {
		if rp.Outcome == Fails {
			continue
		}
		n++
		ok := false
		for _, a := range p.expandFacts(s, rp.Facts, 0) {
			bo, isBo := a.Atom.V.(*ssa.BinOp)
			if a.Atom.Kind != Truth || !isBo {
				continue
			}
			k, isK := constIntOf(bo.Y)
			if !isK || !strings.HasPrefix(a.S.Of(bo.X).String(), "len(") {
				continue
			}
			switch {
			case bo.Op == token.LEQ && a.Atom.Pol && k <= max, bo.Op == token.LSS && a.Atom.Pol && k <= max+1,
				bo.Op == token.GTR && !a.Atom.Pol && k <= max, bo.Op == token.GEQ && !a.Atom.Pol && k <= max+1,
				bo.Op == token.EQL && a.Atom.Pol && k <= max:
				ok = true
			}
		}
		if !ok {
			return false
		}
	}
	return n > 0
}
