package main

// A lazily built table spelled with sync.OnceValue instead of the reference's
// struct{table; initOnce sync.Once}: the reference function
//
//	func F() *T { X.initOnce.Do(func() { BODY }); return &X.table }
//
// agrees with a fork that has `var V = sync.OnceValue(func() *T { table := new(T)
// ; BODY' ; return table })` (F returning V(), or F itself being that variable)
// when BODY' is BODY, statement by statement, with X.table read as the local.

import (
	"go/ast"
	"go/parser"
	"go/printer"
	"go/token"
	"os"
	"path/filepath"
	"strings"
)

// onceTableAgree: applies=false when the reference function does not have the
// once-table shape or the fork is not spelled with sync.OnceValue.
func onceTableAgree(fork *srcPkg, n string, rf *ast.FuncDecl) (applies, ok bool, diff string) {
	if rf == nil || rf.Body == nil || len(rf.Body.List) != 2 {
		return false, false, ""
	}
	es, isEs := rf.Body.List[0].(*ast.ExprStmt)
	ret, isRet := rf.Body.List[1].(*ast.ReturnStmt)
	if !isEs || !isRet || len(ret.Results) != 1 {
		return false, false, ""
	}
	call, isCall := es.X.(*ast.CallExpr)
	if !isCall || len(call.Args) != 1 {
		return false, false, ""
	}
	fun := selString(call.Fun) // X.initOnce.Do
	if !strings.HasSuffix(fun, ".Do") || strings.Count(fun, ".") != 2 {
		return false, false, ""
	}
	x := strings.SplitN(fun, ".", 2)[0]
	refLit, isLit := call.Args[0].(*ast.FuncLit)
	ue, isUe := ret.Results[0].(*ast.UnaryExpr)
	if !isLit || !isUe || ue.Op != token.AND || selString(ue.X) != x+".table" {
		return false, false, ""
	}
	// the fork's OnceValue literal
	var init ast.Expr
	if ff := fork.funcs[n]; ff != nil {
		if ff.Body == nil || len(ff.Body.List) != 1 {
			return false, false, ""
		}
		r2, isR := ff.Body.List[0].(*ast.ReturnStmt)
		if !isR || len(r2.Results) != 1 {
			return false, false, ""
		}
		c2, isC := r2.Results[0].(*ast.CallExpr)
		if !isC || len(c2.Args) != 0 {
			return false, false, ""
		}
		id, isId := c2.Fun.(*ast.Ident)
		if !isId {
			return false, false, ""
		}
		init = fork.decls[id.Name]
	} else {
		init = fork.decls[n]
	}
	ov, isOv := init.(*ast.CallExpr)
	if !isOv || selString(ov.Fun) != "sync.OnceValue" || len(ov.Args) != 1 {
		return false, false, ""
	}
	fl, isFl := ov.Args[0].(*ast.FuncLit)
	if !isFl || len(fl.Body.List) < 2 {
		return false, false, ""
	}
	// from here on the shape applies: any disagreement is a verdict
	first, last := fl.Body.List[0], fl.Body.List[len(fl.Body.List)-1]
	tname := ""
	byValue := false
	switch d := first.(type) {
	case *ast.AssignStmt: // table := new(T) | &T{}
		if len(d.Lhs) == 1 && len(d.Rhs) == 1 && d.Tok == token.DEFINE {
			if id, ok := d.Lhs[0].(*ast.Ident); ok {
				switch r := d.Rhs[0].(type) {
				case *ast.CallExpr:
					if selString(r.Fun) == "new" && len(r.Args) == 1 {
						tname = id.Name
					}
				case *ast.UnaryExpr:
					if cl, ok := r.X.(*ast.CompositeLit); ok && r.Op == token.AND && len(cl.Elts) == 0 {
						tname = id.Name
					}
				}
			}
		}
	case *ast.DeclStmt: // var table T
		if gd, ok := d.Decl.(*ast.GenDecl); ok && gd.Tok == token.VAR && len(gd.Specs) == 1 {
			if vs, ok := gd.Specs[0].(*ast.ValueSpec); ok && len(vs.Names) == 1 && len(vs.Values) == 0 {
				tname = vs.Names[0].Name
				byValue = true
			}
		}
	}
	if tname == "" {
		return true, false, "the OnceValue function does not start by allocating a fresh table"
	}
	lr, isLr := last.(*ast.ReturnStmt)
	if !isLr || len(lr.Results) != 1 {
		return true, false, "the OnceValue function does not end by returning the table"
	}
	if byValue {
		u, ok := lr.Results[0].(*ast.UnaryExpr)
		if !ok || u.Op != token.AND || selString(u.X) != tname {
			return true, false, "the OnceValue function does not return the table it filled"
		}
	} else if selString(lr.Results[0]) != tname {
		return true, false, "the OnceValue function does not return the table it filled"
	}
	// reference BODY with X.table read as a local
	var sb strings.Builder
	sb.WriteString("package p\nfunc _() ")
	if err := printer.Fprint(&sb, token.NewFileSet(), refLit.Body); err != nil {
		return true, false, "cannot print the reference body"
	}
	src := strings.ReplaceAll(sb.String(), x+".table", "reftable__")
	f, err := parser.ParseFile(token.NewFileSet(), "ref.go", src, 0)
	if err != nil || len(f.Decls) != 1 {
		return true, false, "cannot re-parse the reference body"
	}
	refStmts := f.Decls[0].(*ast.FuncDecl).Body.List
	mid := append([]ast.Stmt(nil), fl.Body.List[1:len(fl.Body.List)-1]...)
	// `for i := range table` over the fresh [N]T table is `for i := 0; i < N; i++`
	if n := arrayLenOfFresh(first); n != nil {
		for k, st := range mid {
			rs, ok := st.(*ast.RangeStmt)
			if !ok || rs.Value != nil || rs.Tok != token.DEFINE {
				continue
			}
			x, ok1 := rs.X.(*ast.Ident)
			key, ok2 := rs.Key.(*ast.Ident)
			if !ok1 || !ok2 || x.Name != tname {
				continue
			}
			mid[k] = &ast.ForStmt{
				Init: &ast.AssignStmt{Lhs: []ast.Expr{ast.NewIdent(key.Name)}, Tok: token.DEFINE, Rhs: []ast.Expr{&ast.BasicLit{Kind: token.INT, Value: "0"}}},
				Cond: &ast.BinaryExpr{X: ast.NewIdent(key.Name), Op: token.LSS, Y: n},
				Post: &ast.IncDecStmt{X: ast.NewIdent(key.Name), Tok: token.INC},
				Body: rs.Body,
			}
		}
	}
	if len(mid) != len(refStmts) {
		return true, false, "the table is not built by the reference's statements (statement count differs)"
	}
	m := newMatcher()
	for i := range mid {
		c := m.clone()
		if !c.stmt(mid[i], refStmts[i]) {
			return true, false, "the table is not built by the reference's statements (statement " + string(rune('1'+i)) + " differs)"
		}
		m = c
	}
	if m.r2l["reftable__"] != "" && m.r2l["reftable__"] != tname {
		return true, false, "the statements fill something other than the table returned"
	}
	return true, true, ""
}

// c14TablesAgree: the fixed-base tables of the Ed25519 fork (basepointTable,
// basepointNafTable) are built as the standard library builds them - once,
// completely, before anyone reads them. Shared by C15 (blinded keys and
// signatures are fixed-base multiples).
func c14TablesAgree(p *Prog, r *Report, rule string) {
	gr := goroot()
	pr := refPairs[1]
	fork, err := parseDir(filepath.Join(p.Repo, pr.fork), skipArch)
	var ref *srcPkg
	for _, c := range pr.refs {
		if st, e := os.Stat(filepath.Join(gr, "src", c)); e == nil && st.IsDir() {
			ref, _ = parseDir(filepath.Join(gr, "src", c), skipArch)
			break
		}
	}
	if err != nil || ref == nil {
		r.Fail(rule, "reference for "+pr.fork, "-", "cannot read fork or reference")
		return
	}
	for _, n := range []string{"basepointTable", "basepointNafTable"} {
		rf := ref.funcs[n]
		if rf == nil {
			r.Fail(rule, n+" has a reference", "-", "reference function not found under GOROOT")
			continue
		}
		ok, diff := false, "function not found in the fork"
		if ff := fork.funcs[n]; ff != nil {
			ok, diff = funcsAgree(ff, rf)
		}
		if !ok {
			if applies, ok2, d2 := onceTableAgree(fork, n, rf); applies {
				ok, diff = ok2, d2
			}
		}
		r.Check(ok, rule, "edwards25519."+n+" is built as in the standard library (once, completely, before use)", pr.fork, "agrees with the reference", "the fixed-base table is no longer the standard library's: "+diff)
	}
}

// arrayLenOfFresh: the length literal N of the table allocated by the first
// statement (`table := new([N]T)`, `table := &[N]T{}`, `var table [N]T`).
func arrayLenOfFresh(first ast.Stmt) *ast.BasicLit {
	var t ast.Expr
	switch d := first.(type) {
	case *ast.AssignStmt:
		if len(d.Rhs) != 1 {
			return nil
		}
		switch r := d.Rhs[0].(type) {
		case *ast.CallExpr:
			if len(r.Args) == 1 {
				t = r.Args[0]
			}
		case *ast.UnaryExpr:
			if cl, ok := r.X.(*ast.CompositeLit); ok {
				t = cl.Type
			}
		}
	case *ast.DeclStmt:
		if gd, ok := d.Decl.(*ast.GenDecl); ok && len(gd.Specs) == 1 {
			if vs, ok := gd.Specs[0].(*ast.ValueSpec); ok {
				t = vs.Type
			}
		}
	}
	at, ok := t.(*ast.ArrayType)
	if !ok {
		return nil
	}
	bl, ok := at.Len.(*ast.BasicLit)
	if !ok || bl.Kind != token.INT {
		return nil
	}
	return bl
}
