package main

// C12 - ECDSA key blinding is consistent, invertible, commutative and context-bound.

import (
	"fmt"
	"go/constant"
	"go/token"
	"go/types"
	"sort"
	"strconv"
	"strings"

	"golang.org/x/tools/go/ssa"
)

func init() { props["C12"] = c12 }

func c12(p *Prog, r *Report) {
	r.Explanation = "Symbolic layout and binding analysis of ecdsa/ecdsa.go: (1) the blinding scalar is HashToField(XMD(hash per curve, DST \"ECDSA Key Blind\"), D-bytes || 0x00 || context) reduced mod the curve order, with the curve switch mapping each supported curve name to its hash and expansion length and rejecting other curves; (2) blinding, unblinding and blind signing all obtain the scalar from that one derivation with their own (curve, blind key, context) passed through unchanged, and the context-less wrappers pass nil; (3) blind = ScalarMult(pk, k), unblind = ScalarMult(pk, k^-1 mod N) with the same N, blind signing key = D*k mod N paired with the blinded public key of the same arguments and handed to the ordinary Sign."
	r.NotDecided = "the algebraic laws themselves (consistency, invertibility, commutativity), rejection under the unblinded key, agreement of the field element with an independent hash-to-field implementation (in particular the expansion length used for P-224), standard-library interoperability (C13)."
	r.Assumptions = append(r.Assumptions, "circl expander/HashToField and crypto/elliptic behave as documented")
	r.Trusted = append(r.Trusted, "go/types, go/ssa", "term evaluator of this checker")
	const R1 = "C12.derivation-layout"
	const R2 = "C12.single-derivation"
	const R3 = "C12.blind-unblind-sign-shapes"
	const R4 = "C12.reference-agreement"
	r.Rule(R1, "hashBlind: expander XMD(h, \"ECDSA Key Blind\"); message = D bytes || 0x00 || context; reduced mod c.Params().N; curve switch P-224/256/384/521 -> SHA-256/256/384/512 with L >= field size (48/72/98 for the RFC 9380 curves), other curves rejected; returns the element just computed; no mutable global state", 6)
	r.Rule(R2, "Blind/Unblind/BlindKeySign take the scalar from hashBlind(curve, blind key, context) with their own arguments; context-less wrappers pass nil", 7)
	r.Rule(R4, "hashToInt identical to GOROOT crypto/ecdsa (or proved on every path to compute the same truncation and shift); reference verify/sign core statements embed in order in verifyGeneric/signGeneric (signatures under blinded keys verify with the standard library only if the digest conversion and equations are the standard ones)", 3)
	r.Rule(R3, "blind = ScalarMult(pk,k); unblind = ScalarMult(pk, ModInverse(k,N)); signing key = Mul(D,k) mod N with the blinded public key from the same arguments, then Sign", 3)

	hb := anchor(p, r, R1, "~/ecdsa.hashBlind")
	if hb != nil {
		r.List("functions", shortName(hb))
		s := p.NewSym(hb)
		exp := sitesIn(hb, func(n string) bool { return n == "github.com/cloudflare/circl/expander.NewExpanderMD" })
		htf := sitesIn(hb, func(n string) bool { return n == "github.com/cloudflare/circl/group.HashToField" })
		if len(exp) != 1 || len(htf) != 1 {
			r.Fail(R1, "hashBlind uses NewExpanderMD and HashToField once", p.Pos(hb.Pos()), fmt.Sprintf("found %d / %d calls", len(exp), len(htf)))
		} else {
			et, ht := s.callTerm(exp[0]), s.callTerm(htf[0])
			r.Check(arg(et, 1).String() == `lit:"ECDSA Key Blind"`, R1, "DST = \"ECDSA Key Blind\"", p.InstrPos(exp[0]), "domain separation tag bound", "DST is "+arg(et, 1).String())
			msg := "cat(call<(*math/big.Int).Bytes>(param:1.D), u8(const:0), param:2)"
			why := firstNonEmpty(
				want("message", arg(ht, 1), msg),
				want("modulus", arg(ht, 3), "call<(crypto/elliptic.Curve).Params>(param:0).N"),
			)
			if why == "" && arg(ht, 2).Src != ssa.Value(exp[0].(*ssa.Call)) && !strings.Contains(arg(ht, 2).String(), "NewExpanderMD") {
				why = "HashToField does not use the XMD expander built above"
			}
			r.Check(why == "", R1, "message = D || 0x00 || context, reduced mod N, expanded with XMD", p.InstrPos(htf[0]), msg, why)
			// curve switch: phi of hash and L
			hashArg, lArg := exp[0].Common().Args[0], htf[0].Common().Args[4]
			table := curveTable(s, hashArg, lArg)
			var rows []string
			for k, v := range table {
				rows = append(rows, fmt.Sprintf("%s->(hash %d, L %d)", k, v[0], v[1]))
			}
			sort.Strings(rows)
			wantHash := map[string]int64{`"P-224"`: 5, `"P-256"`: 5, `"P-384"`: 6, `"P-521"`: 7}
			wantL := map[string]int64{`"P-256"`: 48, `"P-384"`: 72, `"P-521"`: 98}
			minL := map[string]int64{`"P-224"`: 28, `"P-256"`: 32, `"P-384"`: 48, `"P-521"`: 66}
			var probs []string
			for name, h := range wantHash {
				v, ok := table[name]
				if !ok {
					probs = append(probs, "curve "+name+" has no entry")
					continue
				}
				if v[0] != h {
					probs = append(probs, fmt.Sprintf("curve %s uses crypto.Hash(%d), required %d", name, v[0], h))
				}
				if l, ok := wantL[name]; ok && v[1] != l {
					probs = append(probs, fmt.Sprintf("curve %s expands to L=%d bytes, RFC 9380 requires %d", name, v[1], l))
				}
				if v[1] < minL[name] {
					probs = append(probs, fmt.Sprintf("curve %s expands to L=%d bytes, less than the field size %d", name, v[1], minL[name]))
				}
			}
			if len(table) != 4 {
				probs = append(probs, fmt.Sprintf("%d curves supported, expected 4", len(table)))
			}
			tupleOf := func(v ssa.Value) ssa.Value {
				if x, _, ok := structFieldOf(v); ok {
					v = x
				}
				if e, ok := v.(*ssa.Extract); ok {
					return e.Tuple
				}
				return nil
			}
			switch src := tupleOf(hashArg).(type) {
			case *ssa.Call:
				if !s.factsHaveCallSuccess(exp[0].Block(), src) {
					probs = append(probs, "the selected parameters are used without the selector having accepted the curve")
				}
			case *ssa.Lookup:
				okHit := false
				for _, a := range s.ff.At(exp[0].Block()) {
					if a.Kind == Truth && a.Pol {
						if ex, ok := a.V.(*ssa.Extract); ok && ex.Tuple == ssa.Value(src) && ex.Index == 1 {
							okHit = true
						}
					}
				}
				if !okHit {
					probs = append(probs, "the table entry is used without the lookup having found the curve")
				}
				if ld, ok := src.X.(*ssa.UnOp); ok {
					if g, ok := ld.X.(*ssa.Global); ok {
						if why, mut := p.mutableGlobals()[g]; mut {
							probs = append(probs, "the parameter table is mutable package-level state: "+why)
						}
					}
				}
			}
			r.Check(len(probs) == 0, R1, "curve -> (hash, L) table", p.Pos(hb.Pos()), strings.Join(rows, " "), strings.Join(probs, "; ")+" ["+strings.Join(rows, " ")+"]")
			// unknown curves rejected: some failing return exists whose facts are all name != const
			rej := false
			for _, rp := range s.ff.RetPoints(verdictIndex(hb)) {
				if rp.Outcome == Fails {
					rej = true
				}
			}
			r.Check(rej, R1, "unsupported curves are rejected with an error", p.Pos(hb.Pos()), "an error return exists", "hashBlind has no error return: an unknown curve silently gets some hash")
		}
	}

	// the scalar returned is the field element HashToField produced, and the
	// derivation depends on no mutable package-level state
	if hb != nil {
		htf := sitesIn(hb, func(n string) bool { return n == "github.com/cloudflare/circl/group.HashToField" })
		okRet, nS := true, 0
		if len(htf) == 1 {
			var arr ssa.Value
			if sl, ok := htf[0].Common().Args[0].(*ssa.Slice); ok {
				arr = sl.X
			}
			ff := p.Facts(hb)
			for _, rp := range ff.RetPoints(verdictIndex(hb)) {
				if rp.Outcome == Fails {
					continue
				}
				nS++
				c, ok := rp.Vals[0].(*ssa.Call)
				if !ok || calleeName(c.Common()) != "(*math/big.Int).Set" {
					okRet = false
					continue
				}
				ia, ok := c.Call.Args[1].(*ssa.IndexAddr)
				if !ok || arr == nil || ia.X != arr || !dominates(htf[0], c) {
					okRet = false
				}
			}
		} else {
			okRet = false
		}
		r.Check(okRet && nS > 0, R1, "hashBlind returns the field element HashToField produced", p.Pos(hb.Pos()), "return new(big.Int).Set(&u[0]) with u filled by HashToField", "a success return of hashBlind does not yield the element just computed by HashToField (cached, substituted or stale value)")
		mut := p.globalsTouched(hb, p.mutableGlobals())
		r.Check(len(mut) == 0, R1, "blinding-factor derivation uses no mutable package-level state", p.Pos(hb.Pos()), "no mutable global referenced", "the derivation touches mutable package-level state: "+strings.Join(mut, "; "))
	}

	// standard-library interoperability of the digest conversion (shared with C13)
	ecdsaReferenceAgreement(p, r, R4)

	// R2 + R3
	K := func(c, bk, ctx string) string {
		return "extract<0>(call<ecdsa.hashBlind>(" + c + ", " + bk + ", " + ctx + "))"
	}
	pubOut := func(c, scalarBytes string) string {
		sm := "call<(crypto/elliptic.Curve).ScalarMult>(" + c + ", param:1.X, param:1.Y, " + scalarBytes + ")"
		return "ref(struct<ecdsa.PublicKey>(kv<Curve>(" + c + "), kv<X>(extract<0>(" + sm + ")), kv<Y>(extract<1>(" + sm + "))))"
	}
	if fn := anchor(p, r, R2, "~/ecdsa.BlindPublicKeyWithContext"); fn != nil {
		k := K("param:0", "param:2", "param:3")
		p.RequireOnSuccess(r, R2, fn, CallReq{Desc: "hashBlind(c, bk, context) ok", Callee: "ecdsa.hashBlind", Check: func(t *Term) string { return want("derivation", t, "call<ecdsa.hashBlind>(param:0, param:2, param:3)") }})
		retValueIs(p, r, R3, fn, "ScalarMult(pk, k)", pubOut("param:0", "call<(*math/big.Int).Bytes>("+k+")"))
	}
	if fn := anchor(p, r, R2, "~/ecdsa.UnblindPublicKeyWithContext"); fn != nil {
		k := K("param:0", "param:2", "param:3")
		p.RequireOnSuccess(r, R2, fn, CallReq{Desc: "hashBlind(c, bk, context) ok", Callee: "ecdsa.hashBlind", Check: func(t *Term) string { return want("derivation", t, "call<ecdsa.hashBlind>(param:0, param:2, param:3)") }})
		inv := "call<(*math/big.Int).ModInverse>(*, " + k + ", call<(crypto/elliptic.Curve).Params>(param:0).N)"
		retValueIs(p, r, R3, fn, "ScalarMult(pk, k^-1 mod N)", pubOut("param:0", "call<(*math/big.Int).Bytes>("+inv+")"))
	}
	if fn := anchor(p, r, R2, "~/ecdsa.BlindKeySignWithContext"); fn != nil {
		c := "param:1.PublicKey.Curve"
		k := K(c, "param:2", "param:4")
		p.RequireOnSuccess(r, R2, fn, CallReq{Desc: "hashBlind(skS.Curve, skB, context) ok", Callee: "ecdsa.hashBlind", Check: func(t *Term) string { return want("derivation", t, "call<ecdsa.hashBlind>("+c+", param:2, param:4)") }})
		N := "call<(crypto/elliptic.Curve).Params>(" + c + ").N"
		db := "obj(call<(*math/big.Int).Mul>(*, param:1.D, " + k + "), call<(*math/big.Int).Mod>(const:self, const:self, " + N + "))"
		// the blinded public key: BlindPublicKeyWithContext(own public key, skB,
		// context), or the same point computed in place with the scalar derived above
		pk := "load(extract<0>(call<ecdsa.BlindPublicKeyWithContext>(" + c + ", fieldaddr<PublicKey>(param:1), param:2, param:4)))"
		sm := "call<(crypto/elliptic.Curve).ScalarMult>(" + c + ", param:1.PublicKey.X, param:1.PublicKey.Y, call<(*math/big.Int).Bytes>(" + k + "))"
		inPlace := "struct<ecdsa.PublicKey>(kv<Curve>(" + c + "), kv<X>(extract<0>(" + sm + ")), kv<Y>(extract<1>(" + sm + ")))"
		mk := func(pk string) string {
			return "extract<0>(call<ecdsa.Sign>(param:0, ref(struct<ecdsa.PrivateKey>(kv<D>(" + db + "), kv<PublicKey>(" + pk + "))), param:3))"
		}
		got := ""
		if t := p.NewSym(fn).returnTerm(); t != nil && t.Op == "tuple" && len(t.Args) > 0 {
			got = t.Args[0].String()
		}
		switch {
		case glob(mk(inPlace), got) || glob(mk("load(ref("+inPlace+"))"), got):
			r.OK(R3, shortName(fn)+" returns Sign(rand, {Blind(pk), D*k mod N}, hash)", p.Pos(fn.Pos()), "blinded public key computed in place: ScalarMult(own public key, k) with the k that scales D")
			r.OK(R2, shortName(fn)+" => blinded public key from the same derivation", p.Pos(fn.Pos()), "single hashBlind(skS.Curve, skB, context)")
		default:
			retValueIs(p, r, R3, fn, "Sign(rand, {Blind(pk), D*k mod N}, hash)", mk(pk))
			p.RequireOnSuccess(r, R2, fn, CallReq{Desc: "BlindPublicKeyWithContext(curve, own public key, skB, context) ok", Callee: "ecdsa.BlindPublicKeyWithContext", Check: func(t *Term) string {
				return want("blinded public key", t, "call<ecdsa.BlindPublicKeyWithContext>("+c+", fieldaddr<PublicKey>(param:1), param:2, param:4)")
			}})
		}
	}
	for _, w := range []struct{ name, callee, pat string }{
		{"~/ecdsa.BlindPublicKey", "ecdsa.BlindPublicKeyWithContext", "call<ecdsa.BlindPublicKeyWithContext>(param:0, param:1, param:2, const:nil)"},
		{"~/ecdsa.UnblindPublicKey", "ecdsa.UnblindPublicKeyWithContext", "call<ecdsa.UnblindPublicKeyWithContext>(param:0, param:1, param:2, const:nil)"},
		{"~/ecdsa.BlindKeySign", "ecdsa.BlindKeySignWithContext", "call<ecdsa.BlindKeySignWithContext>(param:0, param:1, param:2, param:3, const:nil)"},
	} {
		if fn := anchor(p, r, R2, w.name); fn != nil {
			retValueIs(p, r, R2, fn, "the context-ful variant with a nil context", "extract<0>("+w.pat+")")
		}
	}
}

// curveTable maps curve-name constants to the (hash, L) constants selected
// for them: the values of the two phis on the edges guarded by
// name == <const>.
func curveTable(s *Sym, hashV, lV ssa.Value) map[string][2]int64 {
	out := map[string][2]int64{}
	// the table as data: a struct per curve, selected by a function
	// (suite, ok) := f(name) or looked up in a package-level map literal that
	// nothing writes after initialisation; hash and L are two fields of it
	if hx, hField, ok := structFieldOf(hashV); ok {
		if lx, lField, ok := structFieldOf(lV); ok && lx == hx {
			if ex, ok := hx.(*ssa.Extract); ok && ex.Index == 0 {
				st, _ := hx.Type().Underlying().(*types.Struct)
				if st == nil {
					return out
				}
				hName, lName := st.Field(hField).Name(), st.Field(lField).Name()
				entry := func(name string, t *Term) {
					if t.Op != "struct" {
						out["<non-literal entry>"] = [2]int64{-1, -1}
						return
					}
					h, l := structField(t, hName), structField(t, lName)
					if h == nil || l == nil || h.Op != "const" || l.Op != "const" {
						out["<non-constant entry>"] = [2]int64{-1, -1}
						return
					}
					hv, e1 := strconv.ParseInt(h.Name, 10, 64)
					lv, e2 := strconv.ParseInt(l.Name, 10, 64)
					if e1 != nil || e2 != nil {
						out["<non-constant entry>"] = [2]int64{-1, -1}
						return
					}
					out[name] = [2]int64{hv, lv}
				}
				switch src := ex.Tuple.(type) {
				case *ssa.Call:
					if f := src.Call.StaticCallee(); f != nil && InModule(f) && f.Blocks != nil {
						ch := s.child(f)
						s.bindArgs(ch, f, src.Call.Args, src)
						for _, rp := range ch.ff.RetPoints(verdictIndex(f)) {
							if rp.Outcome == Fails || len(rp.Vals) < 1 {
								continue
							}
							for _, a := range rp.Facts {
								if a.Kind != Truth || !a.Pol {
									continue
								}
								bo, ok := a.V.(*ssa.BinOp)
								if !ok || bo.Op != token.EQL {
									continue
								}
								if k, ok := bo.Y.(*ssa.Const); ok && k.Value != nil && k.Value.Kind() == constant.String {
									entry(k.Value.ExactString(), ch.objAt(rp.Vals[0], rp.Ret))
									break
								}
							}
						}
					}
				case *ssa.Lookup:
					if ld, ok := src.X.(*ssa.UnOp); ok && src.CommaOk {
						if g, ok := ld.X.(*ssa.Global); ok && InModulePkg(g) {
							if initFn := g.Pkg.Func("init"); initFn != nil {
								is := s.prog.NewSym(initFn)
								var m ssa.Value
								stores := 0
								for _, b := range initFn.Blocks {
									for _, in := range b.Instrs {
										if st, ok := in.(*ssa.Store); ok && st.Addr == ssa.Value(g) {
											m = st.Val
											stores++
										}
									}
								}
								if stores == 1 && m != nil {
									for _, b := range initFn.Blocks {
										for _, in := range b.Instrs {
											if mu, ok := in.(*ssa.MapUpdate); ok && mu.Map == m {
												if k, ok := mu.Key.(*ssa.Const); ok && k.Value != nil && k.Value.Kind() == constant.String {
													entry(k.Value.ExactString(), is.objAt(mu.Value, mu))
												} else {
													out["<non-constant key>"] = [2]int64{-1, -1}
												}
											}
										}
									}
								}
							}
						}
					}
				}
				return out
			}
		}
	}
	// the table moved into a selector function: (hash, L, ok) := f(name)
	if he, ok := hashV.(*ssa.Extract); ok {
		if le, ok := lV.(*ssa.Extract); ok && le.Tuple == he.Tuple {
			if c, ok := he.Tuple.(*ssa.Call); ok {
				if f := c.Call.StaticCallee(); f != nil && InModule(f) && f.Blocks != nil {
					ch := s.child(f)
					s.bindArgs(ch, f, c.Call.Args, c)
					for _, rp := range ch.ff.RetPoints(verdictIndex(f)) {
						if rp.Outcome == Fails || he.Index >= len(rp.Vals) || le.Index >= len(rp.Vals) {
							continue
						}
						hc, ok1 := rp.Vals[he.Index].(*ssa.Const)
						lc, ok2 := rp.Vals[le.Index].(*ssa.Const)
						if !ok1 || !ok2 || hc.Value == nil || lc.Value == nil {
							out["<non-constant entry>"] = [2]int64{-1, -1}
							continue
						}
						for _, a := range rp.Facts {
							if a.Kind != Truth || !a.Pol {
								continue
							}
							bo, ok := a.V.(*ssa.BinOp)
							if !ok || bo.Op != token.EQL {
								continue
							}
							k, ok := bo.Y.(*ssa.Const)
							if !ok || k.Value == nil || k.Value.Kind() != constant.String {
								continue
							}
							out[k.Value.ExactString()] = [2]int64{hc.Int64(), lc.Int64()}
							break
						}
					}
					return out
				}
			}
		}
	}
	hp, ok1 := hashV.(*ssa.Phi)
	lp, ok2 := lV.(*ssa.Phi)
	if !ok1 || !ok2 || hp.Block() != lp.Block() {
		return out
	}
	b := hp.Block()
	for i, pred := range b.Preds {
		hc, ok1 := hp.Edges[i].(*ssa.Const)
		lc, ok2 := lp.Edges[i].(*ssa.Const)
		if !ok1 || !ok2 || hc.Value == nil || lc.Value == nil {
			continue
		}
		// nearest equality fact on the way into this edge
		for _, a := range s.ff.AtEdge(pred, b) {
			if a.Kind != Truth || !a.Pol {
				continue
			}
			bo, ok := a.V.(*ssa.BinOp)
			if !ok || bo.Op != token.EQL {
				continue
			}
			c, ok := bo.Y.(*ssa.Const)
			if !ok || c.Value == nil || c.Value.Kind() != constant.String {
				continue
			}
			out[c.Value.ExactString()] = [2]int64{hc.Int64(), lc.Int64()}
			break
		}
	}
	return out
}

// structFieldOf: v is field i of a struct value x - either x.f on the value
// itself, or a load of &local.f where the local holds x (stored exactly once).
func structFieldOf(v ssa.Value) (x ssa.Value, field int, ok bool) {
	switch f := v.(type) {
	case *ssa.Field:
		return f.X, f.Field, true
	case *ssa.UnOp:
		if f.Op != token.MUL {
			return nil, 0, false
		}
		fa, isFA := f.X.(*ssa.FieldAddr)
		if !isFA {
			return nil, 0, false
		}
		al, isAl := fa.X.(*ssa.Alloc)
		if !isAl {
			return nil, 0, false
		}
		var val ssa.Value
		n := 0
		for _, r := range *al.Referrers() {
			if st, isSt := r.(*ssa.Store); isSt && st.Addr == ssa.Value(al) {
				n++
				val = st.Val
			}
		}
		if n != 1 {
			return nil, 0, false
		}
		return val, fa.Field, true
	}
	return nil, 0, false
}
