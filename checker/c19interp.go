package main

// Abstract interpretation of quicwire.ConsumeVarint with trace partitioning:
// the input space is split by the length class c = b[0]>>6 (two concrete bits)
// and by the available length (either "at least what the class announces" or
// an exact short length); under each partition every branch condition and
// loop bound of a size-driven decoder is a compile-time constant, so the
// function's value is a fixed expression over the bit-provenance domain (each
// bit is 0, 1 or a named input bit). No input is ever chosen: the payload bits
// stay symbolic throughout. Anything outside the small vocabulary below makes
// the analysis give up (undecided).

import (
	"fmt"
	"go/constant"
	"go/token"
	"go/types"

	"golang.org/x/tools/go/ssa"
)

type avKind int

const (
	avBits  avKind = iota // an integer in the bit domain
	avLen                 // len(b) - off, symbolic
	avSlice               // b[lo:hi] (hi known) or b[lo:] (hi unknown)
	avTuple
)

type aval struct {
	kind    avKind
	b       bits
	off     int // avLen: len(b) - off
	lo, hi  int
	hiKnown bool
	tup     []aval
}

type vinterp struct {
	fn     *ssa.Function
	bparam ssa.Value
	byteAt func(k int) (bits, bool)
	exact  int // exact available length, or -1 for "at least need"
	need   int
	env    map[ssa.Value]aval
	steps  int
	err    string
	ret    []aval
}

func allConcrete(b bits, w int) (uint64, bool) {
	var v uint64
	for i := 0; i < w; i++ {
		switch b[i] {
		case 0:
		case 1:
			v |= 1 << uint(i)
		default:
			return 0, false
		}
	}
	return v, true
}

func unknownBits() bits {
	var u bits
	for i := range u {
		u[i] = -1
	}
	return u
}

func (vi *vinterp) fail(format string, a ...any) aval {
	if vi.err == "" {
		vi.err = fmt.Sprintf(format, a...)
	}
	return aval{kind: avBits, b: unknownBits()}
}

func isSigned(t types.Type) bool {
	if b, ok := t.Underlying().(*types.Basic); ok {
		return b.Info()&types.IsInteger != 0 && b.Info()&types.IsUnsigned == 0
	}
	return false
}

func (vi *vinterp) val(v ssa.Value) aval {
	if v == vi.bparam {
		return aval{kind: avSlice, lo: 0}
	}
	if c, ok := v.(*ssa.Const); ok {
		if c.Value == nil {
			return vi.fail("nil constant")
		}
		switch c.Value.Kind() {
		case constant.Int:
			if i64, exact := constant.Int64Val(constant.ToInt(c.Value)); exact {
				return aval{kind: avBits, b: bitsConst(uint64(i64))}
			}
			u, _ := constant.Uint64Val(constant.ToInt(c.Value))
			return aval{kind: avBits, b: bitsConst(u)}
		case constant.Bool:
			if constant.BoolVal(c.Value) {
				return aval{kind: avBits, b: bitsConst(1)}
			}
			return aval{kind: avBits, b: bitsConst(0)}
		}
		return vi.fail("constant of unsupported kind")
	}
	if a, ok := vi.env[v]; ok {
		return a
	}
	return vi.fail("value %s used before it is defined on this trace", v.Name())
}

// lenConcrete: the concrete length under an exact partition.
func (vi *vinterp) cmpLen(op token.Token, l aval, k int64, lenLeft bool) (bool, bool) {
	// value of len side: L - off
	if vi.exact >= 0 {
		lv := int64(vi.exact - l.off)
		a, b := lv, k
		if !lenLeft {
			a, b = k, lv
		}
		switch op {
		case token.LSS:
			return a < b, true
		case token.LEQ:
			return a <= b, true
		case token.GTR:
			return a > b, true
		case token.GEQ:
			return a >= b, true
		case token.EQL:
			return a == b, true
		case token.NEQ:
			return a != b, true
		}
		return false, false
	}
	// "at least need": L - off >= need - off; decide only what that implies
	min := int64(vi.need - l.off)
	if !lenLeft {
		// k op L  ==  L op' k
		switch op {
		case token.LSS:
			op = token.GTR
		case token.LEQ:
			op = token.GEQ
		case token.GTR:
			op = token.LSS
		case token.GEQ:
			op = token.LEQ
		}
	}
	switch op {
	case token.LSS: // L < k
		if k <= min {
			return false, true
		}
	case token.LEQ:
		if k < min {
			return false, true
		}
	case token.GEQ:
		if k <= min {
			return true, true
		}
	case token.GTR:
		if k < min {
			return true, true
		}
	case token.EQL:
		if k < min {
			return false, true
		}
	case token.NEQ:
		if k < min {
			return true, true
		}
	}
	return false, false
}

func (vi *vinterp) available(idx int) bool {
	if vi.exact >= 0 {
		return idx < vi.exact
	}
	return idx < vi.need
}

func boolBits(v bool) bits {
	if v {
		return bitsConst(1)
	}
	return bitsConst(0)
}

func (vi *vinterp) binop(x *ssa.BinOp) aval {
	a, b := vi.val(x.X), vi.val(x.Y)
	w := typeWidth(x.X.Type())
	if _, _, ok := intBits(x.X.Type(), 64); !ok {
		w = 64
	}
	// comparisons with the symbolic length
	if a.kind == avLen || b.kind == avLen {
		switch x.Op {
		case token.LSS, token.LEQ, token.GTR, token.GEQ, token.EQL, token.NEQ:
			l, o, left := a, b, true
			if a.kind != avLen {
				l, o, left = b, a, false
			}
			if o.kind != avBits {
				return vi.fail("length compared with a non-integer")
			}
			k, conc := allConcrete(o.b, 64)
			if !conc {
				return vi.fail("length compared with a value that is not constant under the partition")
			}
			r, known := vi.cmpLen(x.Op, l, int64(k), left)
			if !known {
				return vi.fail("the decoder asks for more bytes (%d) than the length class announces (%d)", int64(k), vi.need)
			}
			return aval{kind: avBits, b: boolBits(r)}
		case token.SUB:
			if b.kind == avBits {
				if k, conc := allConcrete(b.b, 64); conc {
					return aval{kind: avLen, off: a.off + int(int64(k))}
				}
			}
		}
		return vi.fail("arithmetic on the symbolic length")
	}
	if a.kind != avBits || b.kind != avBits {
		return vi.fail("operator %s on a non-integer", x.Op)
	}
	rw := typeWidth(x.Type())
	ca, okA := allConcrete(a.b, 64)
	cb, okB := allConcrete(b.b, 64)
	sx := func(v uint64) int64 { // sign-extend from w bits when the type is signed
		if isSigned(x.X.Type()) && w < 64 && v&(1<<uint(w-1)) != 0 {
			return int64(v | ^uint64(0)<<uint(w))
		}
		return int64(v)
	}
	switch x.Op {
	case token.AND, token.OR, token.XOR, token.AND_NOT:
		var out bits
		for i := 0; i < 64; i++ {
			switch x.Op {
			case token.AND:
				out[i] = andBit(a.b[i], b.b[i])
			case token.OR:
				out[i] = orBit(a.b[i], b.b[i])
			case token.XOR:
				switch {
				case a.b[i] == 0:
					out[i] = b.b[i]
				case b.b[i] == 0:
					out[i] = a.b[i]
				case a.b[i] == 1 && b.b[i] == 1:
					out[i] = 0
				default:
					out[i] = -1
				}
			case token.AND_NOT:
				nb := -1
				if b.b[i] == 0 {
					nb = 1
				} else if b.b[i] == 1 {
					nb = 0
				}
				out[i] = andBit(a.b[i], nb)
			}
		}
		return aval{kind: avBits, b: out.trunc(rw)}
	case token.SHL, token.SHR:
		if !okB {
			return vi.fail("shift by an amount that is not constant under the partition")
		}
		k := int(cb)
		var out bits
		for i := 0; i < 64; i++ {
			src := i - k
			if x.Op == token.SHR {
				src = i + k
			}
			if src >= 0 && src < 64 && k < 64 {
				out[i] = a.b[src]
			}
		}
		return aval{kind: avBits, b: out.trunc(rw)}
	case token.ADD, token.SUB, token.MUL, token.QUO, token.REM:
		if !okA || !okB {
			// x + 0, x - 0 keep provenance
			if okB && cb == 0 && (x.Op == token.ADD || x.Op == token.SUB) {
				return aval{kind: avBits, b: a.b.trunc(rw)}
			}
			if okA && ca == 0 && x.Op == token.ADD {
				return aval{kind: avBits, b: b.b.trunc(rw)}
			}
			return aval{kind: avBits, b: unknownBits().trunc(rw)}
		}
		var r uint64
		switch x.Op {
		case token.ADD:
			r = ca + cb
		case token.SUB:
			r = ca - cb
		case token.MUL:
			r = ca * cb
		case token.QUO:
			if cb == 0 {
				return vi.fail("division by zero")
			}
			if isSigned(x.X.Type()) {
				r = uint64(sx(ca) / sx(cb))
			} else {
				r = ca / cb
			}
		case token.REM:
			if cb == 0 {
				return vi.fail("division by zero")
			}
			if isSigned(x.X.Type()) {
				r = uint64(sx(ca) % sx(cb))
			} else {
				r = ca % cb
			}
		}
		return aval{kind: avBits, b: bitsConst(r).trunc(rw)}
	case token.LSS, token.LEQ, token.GTR, token.GEQ, token.EQL, token.NEQ:
		if !okA || !okB {
			return vi.fail("comparison %s of values that are not constant under the partition", x.Op)
		}
		var r bool
		if isSigned(x.X.Type()) {
			sa, sb := sx(ca), sx(cb)
			switch x.Op {
			case token.LSS:
				r = sa < sb
			case token.LEQ:
				r = sa <= sb
			case token.GTR:
				r = sa > sb
			case token.GEQ:
				r = sa >= sb
			case token.EQL:
				r = sa == sb
			case token.NEQ:
				r = sa != sb
			}
		} else {
			switch x.Op {
			case token.LSS:
				r = ca < cb
			case token.LEQ:
				r = ca <= cb
			case token.GTR:
				r = ca > cb
			case token.GEQ:
				r = ca >= cb
			case token.EQL:
				r = ca == cb
			case token.NEQ:
				r = ca != cb
			}
		}
		return aval{kind: avBits, b: boolBits(r)}
	}
	return vi.fail("operator %s outside the domain", x.Op)
}

func (vi *vinterp) byteOf(sl aval, idx int) aval {
	if sl.kind != avSlice {
		return vi.fail("index into something that is not a view of the input")
	}
	k := sl.lo + idx
	if idx < 0 || (sl.hiKnown && k >= sl.hi) || !vi.available(k) {
		return vi.fail("reads b[%d], which is not known to be available under this partition (out of bounds)", k)
	}
	b, ok := vi.byteAt(k)
	if !ok {
		return vi.fail("reads b[%d], outside the modelled bytes", k)
	}
	return aval{kind: avBits, b: b.trunc(8)}
}

// run interprets fn from its entry under the partition.
func (vi *vinterp) run() {
	vi.env = map[ssa.Value]aval{}
	var prev *ssa.BasicBlock
	blk := vi.fn.Blocks[0]
	for vi.err == "" {
		var next *ssa.BasicBlock
		for _, in := range blk.Instrs {
			vi.steps++
			if vi.steps > 4000 {
				vi.fail("no result after 4000 steps (loop bound not constant under the partition)")
				return
			}
			switch x := in.(type) {
			case *ssa.DebugRef:
			case *ssa.Phi:
				for i, p := range blk.Preds {
					if p == prev {
						vi.env[x] = vi.val(x.Edges[i])
					}
				}
			case *ssa.BinOp:
				vi.env[x] = vi.binop(x)
			case *ssa.UnOp:
				switch x.Op {
				case token.MUL:
					if _, isGlobal := x.X.(*ssa.Global); isGlobal {
						// e.g. the binary.BigEndian value used as a method receiver
						vi.env[x] = aval{kind: avBits, b: unknownBits()}
						break
					}
					ia, ok := x.X.(*ssa.IndexAddr)
					if !ok {
						vi.fail("load outside the model")
						return
					}
					idx := vi.val(ia.Index)
					k, conc := allConcrete(idx.b, 64)
					if idx.kind != avBits || !conc {
						vi.fail("index that is not constant under the partition")
						return
					}
					vi.env[x] = vi.byteOf(vi.val(ia.X), int(int64(k)))
				case token.NOT:
					a := vi.val(x.X)
					c, conc := allConcrete(a.b, 1)
					if !conc {
						vi.fail("negation of a symbolic condition")
						return
					}
					vi.env[x] = aval{kind: avBits, b: boolBits(c == 0)}
				case token.SUB:
					a := vi.val(x.X)
					c, conc := allConcrete(a.b, 64)
					if !conc {
						vi.env[x] = aval{kind: avBits, b: unknownBits()}
					} else {
						vi.env[x] = aval{kind: avBits, b: bitsConst(-c).trunc(typeWidth(x.Type()))}
					}
				default:
					vi.fail("unary %s outside the domain", x.Op)
					return
				}
			case *ssa.IndexAddr:
				// resolved at the load
			case *ssa.Convert:
				a := vi.val(x.X)
				if a.kind == avLen {
					vi.env[x] = a
					break
				}
				if a.kind != avBits {
					vi.fail("conversion of a non-integer")
					return
				}
				out := a.b
				fw, tw := typeWidth(x.X.Type()), typeWidth(x.Type())
				if isSigned(x.X.Type()) && tw > fw && fw < 64 {
					// sign extension
					for i := fw; i < tw && i < 64; i++ {
						out[i] = a.b[fw-1]
					}
				}
				vi.env[x] = aval{kind: avBits, b: out.trunc(tw)}
			case *ssa.ChangeType:
				vi.env[x] = vi.val(x.X)
			case *ssa.Slice:
				base := vi.val(x.X)
				if base.kind != avSlice {
					vi.fail("slice of something that is not a view of the input")
					return
				}
				lo, hi, hiKnown := base.lo, base.hi, base.hiKnown
				if x.Low != nil {
					l := vi.val(x.Low)
					k, conc := allConcrete(l.b, 64)
					if l.kind != avBits || !conc {
						vi.fail("slice bound that is not constant under the partition")
						return
					}
					lo = base.lo + int(int64(k))
				}
				if x.High != nil {
					h := vi.val(x.High)
					k, conc := allConcrete(h.b, 64)
					if h.kind != avBits || !conc {
						vi.fail("slice bound that is not constant under the partition")
						return
					}
					hi, hiKnown = base.lo+int(int64(k)), true
				}
				// bounds: lo <= hi <= available length
				top := lo
				if hiKnown {
					top = hi
					if lo > hi {
						vi.fail("slice b[%d:%d] has inverted bounds", lo, hi)
						return
					}
				}
				if top > 0 && !vi.available(top-1) {
					vi.fail("slices up to b[:%d], more than is known to be available under this partition", top)
					return
				}
				vi.env[x] = aval{kind: avSlice, lo: lo, hi: hi, hiKnown: hiKnown}
			case *ssa.Call:
				cc := x.Common()
				if bi, ok := cc.Value.(*ssa.Builtin); ok {
					switch bi.Name() {
					case "len":
						a := vi.val(cc.Args[0])
						if a.kind != avSlice {
							vi.fail("len of something that is not a view of the input")
							return
						}
						if a.hiKnown {
							vi.env[x] = aval{kind: avBits, b: bitsConst(uint64(a.hi - a.lo))}
						} else {
							vi.env[x] = aval{kind: avLen, off: a.lo}
						}
					case "min", "max":
						var best uint64
						for i, arg := range cc.Args {
							a := vi.val(arg)
							c, conc := allConcrete(a.b, 64)
							if a.kind != avBits || !conc {
								vi.fail("min/max of a value that is not constant under the partition")
								return
							}
							if i == 0 || (bi.Name() == "min" && int64(c) < int64(best)) || (bi.Name() == "max" && int64(c) > int64(best)) {
								best = c
							}
						}
						vi.env[x] = aval{kind: avBits, b: bitsConst(best)}
					default:
						vi.fail("builtin %s outside the domain", bi.Name())
						return
					}
					break
				}
				f := cc.StaticCallee()
				n := 0
				if f != nil {
					switch f.RelString(nil) {
					case "(encoding/binary.bigEndian).Uint16":
						n = 2
					case "(encoding/binary.bigEndian).Uint32":
						n = 4
					case "(encoding/binary.bigEndian).Uint64":
						n = 8
					}
				}
				if n == 0 || len(cc.Args) != 2 {
					vi.fail("call to %s outside the domain", calleeName(cc))
					return
				}
				sl := vi.val(cc.Args[1])
				var out bits
				for j := 0; j < n; j++ {
					bb := vi.byteOf(sl, j)
					for bit := 0; bit < 8; bit++ {
						out[8*(n-1-j)+bit] = bb.b[bit]
					}
				}
				vi.env[x] = aval{kind: avBits, b: out}
			case *ssa.If:
				c := vi.val(x.Cond)
				v, conc := allConcrete(c.b, 1)
				if c.kind != avBits || !conc {
					vi.fail("branch on a value that is not constant under the partition")
					return
				}
				if v == 1 {
					next = blk.Succs[0]
				} else {
					next = blk.Succs[1]
				}
			case *ssa.Jump:
				next = blk.Succs[0]
			case *ssa.Return:
				for _, rv := range x.Results {
					vi.ret = append(vi.ret, vi.val(rv))
				}
				return
			case *ssa.Panic:
				vi.fail("reaches a panic")
				return
			default:
				vi.fail("%T outside the domain", in)
				return
			}
		}
		if next == nil {
			vi.fail("fell off a block")
			return
		}
		prev, blk = blk, next
	}
}

// c19Partitioned decides the decoder clauses of C19 for a size-driven
// ConsumeVarint. eb[c] are the bytes AppendVarint emits for class c over the
// symbolic value (from the encoder analysis).
func c19Partitioned(p *Prog, r *Report, R2, R3 string, con *ssa.Function, eb [4][]bits) {
	sizes := []int{1, 2, 4, 8}
	mk := func(byteAt func(int) (bits, bool), exact, need int) *vinterp {
		vi := &vinterp{fn: con, bparam: con.Params[0], byteAt: byteAt, exact: exact, need: need}
		vi.run()
		return vi
	}
	retOK := func(vi *vinterp) (v bits, n int64, ok bool) {
		if vi.err != "" || len(vi.ret) != 2 || vi.ret[0].kind != avBits || vi.ret[1].kind != avBits {
			return bits{}, 0, false
		}
		nv, conc := allConcrete(vi.ret[1].b, 64)
		if !conc {
			return bits{}, 0, false
		}
		return vi.ret[0].b, int64(nv), true
	}
	for c := 0; c < 4; c++ {
		width := 8*sizes[c] - 2
		key := fmt.Sprintf("class %d (%d bytes)", c, sizes[c])
		// (i) decode(encode(v)) == v
		enc := eb[c]
		vi := mk(func(k int) (bits, bool) {
			if k < len(enc) {
				return enc[k], true
			}
			return bits{}, false
		}, -1, sizes[c])
		v, n, ok := retOK(vi)
		r.Check(ok && v == bitsInput(width) && n == int64(sizes[c]), R2, key, p.Pos(con.Pos()), "identity on all values of the class (trace partition by class)", fmt.Sprintf("decode(encode(v)) = %s (want %s), returned length %d (want %d) %s", v, bitsInput(width), n, sizes[c], vi.err))
		// (ii) arbitrary bytes of this class: value below 2^width, length = size
		vi = mk(func(k int) (bits, bool) {
			var b bits
			for j := 0; j < 8; j++ {
				b[j] = 2 + 8*k + j
			}
			if k == 0 {
				b[6], b[7] = c&1, (c>>1)&1
			}
			return b, true
		}, -1, sizes[c])
		v, n, ok = retOK(vi)
		top := ok
		for j := width; j < 64 && ok; j++ {
			if v[j] != 0 {
				top = false
			}
		}
		r.Check(top && n == int64(sizes[c]), R2, key+fmt.Sprintf(": decoded value < 2^%d for arbitrary input bytes", width), p.Pos(con.Pos()), "bits above the class width are zero", fmt.Sprintf("decoded bits %s, length %d %s", v, n, vi.err))
		// (iii) availability: success with exactly size bytes and with more; failure with fewer
		okG, detail := true, ""
		for m := 1; m <= 9; m++ {
			vi = mk(func(k int) (bits, bool) {
				var b bits
				for j := 0; j < 8; j++ {
					b[j] = 2 + 8*k + j
				}
				if k == 0 {
					b[6], b[7] = c&1, (c>>1)&1
				}
				return b, true
			}, m, sizes[c])
			_, n, ok := retOK(vi)
			switch {
			case !ok:
				okG, detail = false, fmt.Sprintf("with %d byte(s) available: %s", m, vi.err)
			case m >= sizes[c] && n != int64(sizes[c]):
				okG, detail = false, fmt.Sprintf("with %d byte(s) available the decoder reports length %d, required %d", m, n, sizes[c])
			case m < sizes[c] && n >= 0:
				okG, detail = false, fmt.Sprintf("with only %d of %d byte(s) available the decoder reports length %d instead of failing", m, sizes[c], n)
			}
		}
		r.Check(okG, R3, key+fmt.Sprintf(": success only with len(b) >= %d", sizes[c]), p.Pos(con.Pos()), "fails with fewer bytes, succeeds with exactly that many and with more", detail)
	}
	// empty input
	vi := mk(func(int) (bits, bool) { return bits{}, false }, 0, 1)
	_, n, ok := retOK(vi)
	r.Check(ok && n < 0, R3, "failure exactly when fewer bytes than announced are available", p.Pos(con.Pos()), "empty input fails; each class fails exactly below its size (partitions above)", fmt.Sprintf("empty input: length %d %s", n, vi.err))
}

// c19ExactLengthSweep re-decides decode(encode(v)) == v for every class with the
// input length pinned to each value from the class size up to maxLen: under an
// exact length every comparison with len(b) is decided, so a decoder that takes
// another route for long inputs (a word-load fast path behind len(b) >= 8, ...)
// is interpreted on that route too. Trailing bytes are arbitrary input. Only
// decided wrong results are reported; a route the interpreter cannot model
// leaves the verdict to the other rules (noted).
func c19ExactLengthSweep(p *Prog, r *Report, R2 string, con *ssa.Function, eb [4][]bits) {
	sizes := []int{1, 2, 4, 8}
	// the largest constant the function compares len(b) with
	maxLen := 9
	for _, b := range con.Blocks {
		for _, in := range b.Instrs {
			bo, ok := in.(*ssa.BinOp)
			if !ok {
				continue
			}
			for _, pr := range [][2]ssa.Value{{bo.X, bo.Y}, {bo.Y, bo.X}} {
				if _, isLen := lenOfParam(pr[0]); isLen {
					if k, ok := constIntOf(pr[1]); ok && int(k)+1 > maxLen && k < 64 {
						maxLen = int(k) + 1
					}
				}
			}
		}
	}
	undecided := 0
	for c := 0; c < 4; c++ {
		width := 8*sizes[c] - 2
		enc := eb[c]
		bad := ""
		for m := sizes[c]; m <= maxLen; m++ {
			vi := &vinterp{fn: con, bparam: con.Params[0], exact: m, need: sizes[c]}
			vi.byteAt = func(k int) (bits, bool) {
				if k < len(enc) {
					return enc[k], true
				}
				var b bits
				for j := 0; j < 8; j++ {
					b[j] = 2 + 1000 + 8*k + j // trailing input, disjoint from the value's bits
				}
				return b, true
			}
			vi.run()
			if vi.err != "" || len(vi.ret) != 2 || vi.ret[0].kind != avBits || vi.ret[1].kind != avBits {
				undecided++
				continue
			}
			nv, conc := allConcrete(vi.ret[1].b, 64)
			if !conc {
				undecided++
				continue
			}
			if vi.ret[0].b != bitsInput(width) || int64(nv) != int64(sizes[c]) {
				bad = fmt.Sprintf("with %d bytes of input: decode(encode(v)) = %s, length %d (want %s, %d)", m, vi.ret[0].b, int64(nv), bitsInput(width), sizes[c])
				break
			}
		}
		r.Check(bad == "", R2, fmt.Sprintf("class %d (%d bytes): identity for every input length %d..%d", c, sizes[c], sizes[c], maxLen), p.Pos(con.Pos()), "decode(encode(v) || trailing bytes) = v on every route the input length selects", bad)
	}
	if undecided > 0 {
		r.Note("exact-length sweep: %d (class, length) partitions were not modelled by the interpreter and are left to the expression-level rules", undecided)
	}
}
