package main

// The canonicity test of the Ed25519 fork (isReduced) decided on SSA by
// orderings: the function may look at the scalar only by comparing byte i of
// the scalar (A) with byte i of scMinusOne (B), so its behaviour in one
// iteration is a function of which of A<B, A==B, A>B holds. The loop must
// visit i = 31, 30, ..., 0; in each iteration A<B must return true, A>B must
// return false and A==B must go on to i-1; running off the end must return
// true (L-1 itself is canonical). The three orderings are pushed through the
// iteration's control flow; no byte value is ever enumerated.

import (
	"fmt"
	"go/token"
	"go/types"

	"golang.org/x/tools/go/ssa"
)

type ordering int

const (
	ordLT ordering = iota
	ordEQ
	ordGT
)

func (o ordering) String() string { return [...]string{"A<B", "A==B", "A>B"}[o] }

type irRun struct {
	fn  *ssa.Function
	i   *ssa.Phi
	env map[*ssa.Phi]ssa.Value
}

func isReducedOrderings(p *Prog, fn *ssa.Function) string {
	if fn == nil || len(fn.Params) != 1 || len(fn.Blocks) == 0 {
		return "no SSA for isReduced(s *Scalar)"
	}
	loops := naturalLoops(fn)
	if len(loops) != 1 {
		return fmt.Sprintf("expected exactly one loop, found %d", len(loops))
	}
	L := loops[0]
	H := L.Header
	// effects: nothing but reads and control flow
	for _, b := range fn.Blocks {
		for _, in := range b.Instrs {
			switch in.(type) {
			case *ssa.Phi, *ssa.BinOp, *ssa.UnOp, *ssa.FieldAddr, *ssa.IndexAddr, *ssa.Index, *ssa.Field, *ssa.If, *ssa.Jump, *ssa.Return, *ssa.Convert, *ssa.DebugRef:
			default:
				return fmt.Sprintf("instruction %T at %s: the test must only read and compare", in, p.Pos(in.Pos()))
			}
		}
	}
	// the induction variable: init 31, step -1 on every latch
	var iv *ssa.Phi
	for _, in := range H.Instrs {
		ph, ok := in.(*ssa.Phi)
		if !ok {
			break
		}
		if bt, ok := ph.Type().Underlying().(*types.Basic); ok && bt.Info()&types.IsInteger != 0 {
			if iv != nil {
				return "more than one integer loop variable"
			}
			iv = ph
		}
	}
	if iv == nil {
		return "no loop counter"
	}
	for k, pb := range H.Preds {
		e := iv.Edges[k]
		if L.Blocks[pb] {
			bo, ok := e.(*ssa.BinOp)
			good := false
			if ok && bo.X == iv {
				if c, okc := constIntOf(bo.Y); okc && ((bo.Op == token.SUB && c == 1) || (bo.Op == token.ADD && c == -1)) {
					good = true
				}
			}
			if !good {
				return "the loop does not step down by exactly one byte"
			}
		} else {
			c, ok := constIntOf(e)
			if !ok || c != 31 {
				return "the scan does not start at byte 31 (the most significant byte)"
			}
		}
	}
	// header test: stay in the loop exactly when i >= 0
	ifi, ok := H.Instrs[len(H.Instrs)-1].(*ssa.If)
	if !ok {
		return "loop header does not test the counter"
	}
	stayOnTrue, why := counterNonNegative(ifi.Cond, iv)
	if why != "" {
		return why
	}
	body, exit := H.Succs[0], H.Succs[1]
	if !stayOnTrue {
		body, exit = exit, body
	}
	if !L.Blocks[body] || L.Blocks[exit] {
		return "loop condition does not include index 0 (the least significant byte is never compared)"
	}
	// the header must not compute anything else that matters: only the phi and the test
	run := &irRun{fn: fn, i: iv, env: map[*ssa.Phi]ssa.Value{}}
	// running off the end: return true, unconditionally
	if v, out, why := run.walk(exit, H, ordEQ, nil); why != "" || out != "return" || !v {
		if why == "" {
			why = "the value L-1 itself must be accepted (all bytes equal: return true)"
		}
		return why
	}
	want := map[ordering]struct {
		out string
		v   bool
	}{ordLT: {"return", true}, ordGT: {"return", false}, ordEQ: {"continue", false}}
	for _, o := range []ordering{ordLT, ordEQ, ordGT} {
		v, out, why := run.walk(body, H, o, H)
		if why != "" {
			return fmt.Sprintf("under %s: %s", o, why)
		}
		w := want[o]
		if out != w.out || (out == "return" && v != w.v) {
			got := out
			if out == "return" {
				got = fmt.Sprintf("return %v", v)
			}
			exp := w.out
			if w.out == "return" {
				exp = fmt.Sprintf("return %v", w.v)
			}
			return fmt.Sprintf("with s[i] %s scMinusOne[i] (bytes above i equal) the iteration does %q, required %q", map[ordering]string{ordLT: "<", ordEQ: "==", ordGT: ">"}[o], got, exp)
		}
	}
	return ""
}

// counterNonNegative: cond is equivalent to i >= 0 (stay on true) or to i < 0
// (stay on false).
func counterNonNegative(c ssa.Value, iv *ssa.Phi) (stayOnTrue bool, why string) {
	bad := "loop condition does not include index 0 (the least significant byte is never compared)"
	if u, ok := c.(*ssa.UnOp); ok && u.Op == token.NOT {
		s, w := counterNonNegative(u.X, iv)
		return !s, w
	}
	bo, ok := c.(*ssa.BinOp)
	if !ok {
		return false, "loop header does not compare the counter"
	}
	op := bo.Op
	var k int64
	if bo.X == iv {
		v, ok := constIntOf(bo.Y)
		if !ok {
			return false, bad
		}
		k = v
	} else if bo.Y == iv {
		v, ok := constIntOf(bo.X)
		if !ok {
			return false, bad
		}
		k = v
		// k op i  ==  i op' k
		op = map[token.Token]token.Token{token.LSS: token.GTR, token.LEQ: token.GEQ, token.GTR: token.LSS, token.GEQ: token.LEQ, token.EQL: token.EQL, token.NEQ: token.NEQ}[op]
	} else {
		return false, "loop header does not compare the counter"
	}
	switch {
	case op == token.GEQ && k == 0, op == token.GTR && k == -1:
		return true, ""
	case op == token.LSS && k == 0, op == token.LEQ && k == -1:
		return false, ""
	case op == token.NEQ && k == -1: // counts down by one from 31: i != -1 is i >= 0
		return true, ""
	case op == token.EQL && k == -1:
		return false, ""
	}
	return false, bad
}

// classify: 'A' for s.s[i], 'B' for scMinusOne.s[i], 0 otherwise.
func (r *irRun) classify(v ssa.Value) byte {
	for {
		cv, ok := v.(*ssa.Convert)
		if !ok {
			break
		}
		// order preserving: byte to a wider integer type
		bt, ok := cv.Type().Underlying().(*types.Basic)
		if !ok || bt.Info()&types.IsInteger == 0 {
			return 0
		}
		switch bt.Kind() {
		case types.Int8, types.Uint8:
			if bt.Kind() == types.Int8 {
				return 0
			}
		}
		v = cv.X
	}
	if ph, ok := v.(*ssa.Phi); ok {
		if e, ok := r.env[ph]; ok {
			return r.classify(e)
		}
		return 0
	}
	var arr ssa.Value // address of the array
	switch x := v.(type) {
	case *ssa.UnOp:
		if x.Op != token.MUL {
			return 0
		}
		ia, ok := x.X.(*ssa.IndexAddr)
		if !ok || r.resolve(ia.Index) != ssa.Value(r.i) {
			return 0
		}
		arr = ia.X
	case *ssa.Index:
		if r.resolve(x.Index) != ssa.Value(r.i) {
			return 0
		}
		ld, ok := x.X.(*ssa.UnOp)
		if !ok || ld.Op != token.MUL {
			return 0
		}
		arr = ld.X
	default:
		return 0
	}
	fa, ok := arr.(*ssa.FieldAddr)
	if !ok {
		return 0
	}
	at, ok := fa.Type().Underlying().(*types.Pointer)
	if !ok {
		return 0
	}
	if a, ok := at.Elem().Underlying().(*types.Array); !ok || a.Len() != 32 {
		return 0
	}
	switch base := fa.X.(type) {
	case *ssa.Parameter:
		if base == r.fn.Params[0] {
			return 'A'
		}
	case *ssa.Global:
		if base.Name() == "scMinusOne" && base.Pkg == r.fn.Pkg {
			return 'B'
		}
	}
	return 0
}

func (r *irRun) resolve(v ssa.Value) ssa.Value {
	for k := 0; k < 8; k++ {
		ph, ok := v.(*ssa.Phi)
		if !ok || ph == r.i {
			return v
		}
		e, ok := r.env[ph]
		if !ok {
			return v
		}
		v = e
	}
	return v
}

func (r *irRun) evalBool(v ssa.Value, o ordering) (bool, bool) {
	switch x := v.(type) {
	case *ssa.Const:
		if bt, ok := x.Type().Underlying().(*types.Basic); ok && bt.Info()&types.IsBoolean != 0 && x.Value != nil {
			return x.Value.String() == "true", true
		}
	case *ssa.Phi:
		if e, ok := r.env[x]; ok {
			return r.evalBool(e, o)
		}
	case *ssa.UnOp:
		if x.Op == token.NOT {
			b, ok := r.evalBool(x.X, o)
			return !b, ok
		}
	case *ssa.BinOp:
		ca, cb := r.classify(x.X), r.classify(x.Y)
		if ca == 0 || cb == 0 {
			return false, false
		}
		// sign of (left - right)
		sgn := 0
		switch {
		case ca == cb:
			sgn = 0
		case ca == 'A':
			sgn = int(o) - 1
		default:
			sgn = 1 - int(o)
		}
		switch x.Op {
		case token.LSS:
			return sgn < 0, true
		case token.LEQ:
			return sgn <= 0, true
		case token.GTR:
			return sgn > 0, true
		case token.GEQ:
			return sgn >= 0, true
		case token.EQL:
			return sgn == 0, true
		case token.NEQ:
			return sgn != 0, true
		}
	}
	return false, false
}

// walk follows the control flow from block b (entered from pred) under the
// ordering; stops at a return ("return", value) or on re-entering header
// ("continue"). header == nil: the header must not be reached.
func (r *irRun) walk(b, pred *ssa.BasicBlock, o ordering, header *ssa.BasicBlock) (bool, string, string) {
	for steps := 0; steps < 64; steps++ {
		if header != nil && b == header {
			return false, "continue", ""
		}
		for _, in := range b.Instrs {
			ph, ok := in.(*ssa.Phi)
			if !ok {
				break
			}
			if ph == r.i {
				continue
			}
			for k, pb := range b.Preds {
				if pb == pred {
					r.env[ph] = r.resolve(ph.Edges[k])
				}
			}
		}
		switch t := b.Instrs[len(b.Instrs)-1].(type) {
		case *ssa.Jump:
			pred, b = b, b.Succs[0]
		case *ssa.If:
			c, ok := r.evalBool(t.Cond, o)
			if !ok {
				return false, "", "a branch condition is not a comparison of s[i] with scMinusOne[i]"
			}
			if c {
				pred, b = b, b.Succs[0]
			} else {
				pred, b = b, b.Succs[1]
			}
		case *ssa.Return:
			if len(t.Results) != 1 {
				return false, "", "result arity"
			}
			v, ok := r.evalBool(t.Results[0], o)
			if !ok {
				return false, "", "the returned verdict is not a constant or a comparison of s[i] with scMinusOne[i]"
			}
			return v, "return", ""
		default:
			return false, "", fmt.Sprintf("terminator %T", t)
		}
	}
	return false, "", "control flow does not settle within one iteration"
}
