package main

import (
	"fmt"
	"go/token"
	"go/types"

	"golang.org/x/tools/go/ssa"
)

// nilResultsOnlyWithErrors (C03): a function of the peer-bytes scope that
// hands back a pointer together with a verdict (error or bool) may return a
// nil pointer only on a return classified as a failure, whenever some caller
// in the module dereferences that pointer without comparing it with nil. A
// nil pointer on a return the caller takes for success is a nil dereference
// (a panic) on the bytes that drive that path.
func nilResultsOnlyWithErrors(p *Prog, r *Report, rule string, fns []*ssa.Function) {
	n := 0
	for _, fn := range fns {
		vi := verdictIndex(fn) // -1: no verdict, every return counts
		res := fn.Signature.Results()
		for i := 0; i < res.Len(); i++ {
			if i == vi {
				continue
			}
			_, isPtr := res.At(i).Type().Underlying().(*types.Pointer)
			_, isIface := res.At(i).Type().Underlying().(*types.Interface)
			if !isPtr && !(isIface && !isErrorType(res.At(i).Type())) {
				continue
			}
			if vi < 0 && !isIface {
				continue // a bare pointer result without verdict: nil is the caller's to check (not decided)
			}
			n++
			sn := shortName(fn)
			key := fmt.Sprintf("%s result %d", sn, i)
			// does any caller dereference the result unguarded?
			deref := ""
			for _, c := range p.callSitesOf(fn) {
				cv, ok := c.(*ssa.Call)
				if !ok || cv.Referrers() == nil {
					continue
				}
				var vals []ssa.Value
				if res.Len() == 1 {
					vals = append(vals, cv)
				}
				for _, ref := range *cv.Referrers() {
					if ex, ok := ref.(*ssa.Extract); ok && ex.Index == i {
						vals = append(vals, ex)
					}
				}
				for _, v := range vals {
					if w := unguardedDeref(v); w != nil {
						deref = p.InstrPos(w)
					}
				}
			}
			if deref == "" {
				r.OK(rule, key, p.Pos(fn.Pos()), "no caller in the module dereferences the pointer without a nil comparison")
				continue
			}
			s := p.NewSym(fn)
			bad := ""
			for _, rp := range s.ff.RetPoints(vi) {
				if rp.Outcome == Fails || i >= len(rp.Vals) {
					continue
				}
				if c, ok := rp.Vals[i].(*ssa.Const); ok && c.IsNil() {
					bad = p.Pos(rp.Ret.Pos())
				}
			}
			if bad != "" {
				r.Fail(rule, key, bad, fmt.Sprintf("returns a nil %s on a return not classified as a failure, and the caller at %s dereferences it (field, load, method call, unchecked assertion) without ever comparing it with nil: nil dereference on the input that takes this path", types.TypeString(res.At(i).Type(), nil), deref))
			} else {
				r.OK(rule, key, p.Pos(fn.Pos()), "nil pointer returned only together with a failure verdict; dereferenced at "+deref)
			}
		}
	}
	r.Count("pointer_results_with_verdict", n)
}

// unguardedDeref: an instruction that dereferences v (field address, load,
// index through a pointer to array, or a call of a pointer-receiver method of
// the module on v), provided v is never compared with nil in its function.
func unguardedDeref(v ssa.Value) ssa.Instruction { return unguardedDerefD(v, 0) }

func unguardedDerefD(v ssa.Value, depth int) ssa.Instruction {
	if depth > 3 {
		return nil
	}
	refs := v.Referrers()
	if refs == nil {
		return nil
	}
	var found ssa.Instruction
	for _, ref := range *refs {
		switch x := ref.(type) {
		case *ssa.BinOp:
			if x.Op == token.EQL || x.Op == token.NEQ {
				return nil // compared (with nil or otherwise): treated as guarded
			}
		case *ssa.FieldAddr:
			if x.X == v {
				found = x
			}
		case *ssa.UnOp:
			if x.Op == token.MUL && x.X == v {
				found = x
			}
		case *ssa.IndexAddr:
			if x.X == v {
				found = x
			}
		case *ssa.TypeAssert:
			if x.X == v && !x.CommaOk {
				found = x
			}
		case *ssa.Call:
			if x.Call.IsInvoke() && x.Call.Value == v {
				found = x // method call on a nil interface panics
			}
			if f := x.Call.StaticCallee(); f != nil && InModule(f) && f.Signature.Recv() != nil && len(x.Call.Args) > 0 && x.Call.Args[0] == v && f.Blocks != nil && len(f.Params) > 0 {
				if unguardedDerefD(f.Params[0], depth+1) != nil {
					found = x
				}
			}
		}
	}
	return found
}
