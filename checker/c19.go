package main

// C19 - QUIC varints and length-prefixed byte strings are exact and bounds-safe.
// E8 (bit provenance): each bit of an integer value is 0, 1 or a named input
// bit; shifts/masks by constants, width conversions and ORs are exact.

import (
	"fmt"
	"go/constant"
	"go/token"
	"go/types"
	"sort"
	"strings"

	"golang.org/x/tools/go/ssa"
)

func init() {
	props["C19"] = c19
	propConfigs["C19"] = []string{"386", "arm64"}
}

// bit: 0 = zero, 1 = one, 2+i = input bit i, -1 = unknown.
type bits [64]int

func bitsConst(v uint64) bits {
	var b bits
	for i := 0; i < 64; i++ {
		b[i] = int((v >> uint(i)) & 1)
	}
	return b
}

func bitsInput(width int) bits {
	var b bits
	for i := 0; i < 64; i++ {
		if i < width {
			b[i] = 2 + i
		}
	}
	return b
}

func (b bits) trunc(w int) bits {
	for i := w; i < 64; i++ {
		b[i] = 0
	}
	return b
}

func orBit(x, y int) int {
	switch {
	case x == 0:
		return y
	case y == 0:
		return x
	case x == 1 || y == 1:
		return 1
	case x == y:
		return x
	}
	return -1
}

func andBit(x, y int) int {
	switch {
	case x == 0 || y == 0:
		return 0
	case x == 1:
		return y
	case y == 1:
		return x
	case x == y:
		return x
	}
	return -1
}

// bitEval evaluates integer SSA values in the bit domain.
type bitEval struct {
	env  map[ssa.Value]bits           // fixed values (parameters)
	load func(ssa.Value) (bits, bool) // loads of b[k]
	// byteAt: the k-th byte of the slice value base (for binary.BigEndian.UintN(base))
	byteAt func(base ssa.Value, k int) (bits, bool)
	// call: value of a call the client can describe (inlined helper)
	call func(*ssa.Call) (bits, bool)
	memo map[ssa.Value]bits
	err  string
}

func typeWidth(t types.Type) int {
	if b, ok := t.Underlying().(*types.Basic); ok {
		switch b.Kind() {
		case types.Uint8, types.Int8:
			return 8
		case types.Uint16, types.Int16:
			return 16
		case types.Uint32, types.Int32:
			return 32
		}
	}
	return 64
}

func (e *bitEval) of(v ssa.Value) bits {
	if b, ok := e.env[v]; ok {
		return b
	}
	if b, ok := e.memo[v]; ok {
		return b
	}
	var out bits
	unknown := func(why string) bits {
		if e.err == "" {
			e.err = why
		}
		var u bits
		for i := range u {
			u[i] = -1
		}
		return u
	}
	switch x := v.(type) {
	case *ssa.Const:
		if x.Value == nil || x.Value.Kind() != constant.Int {
			return unknown("non-integer constant")
		}
		u, _ := constant.Uint64Val(constant.ToInt(x.Value))
		out = bitsConst(u)
	case *ssa.Convert:
		out = e.of(x.X).trunc(typeWidth(x.Type()))
	case *ssa.BinOp:
		a := e.of(x.X)
		w := typeWidth(x.Type())
		switch x.Op {
		case token.SHL, token.SHR:
			c, ok := x.Y.(*ssa.Const)
			if !ok || c.Value == nil {
				return unknown("shift by a non-constant")
			}
			k64, _ := constant.Int64Val(constant.ToInt(c.Value))
			k := int(k64)
			for i := 0; i < 64; i++ {
				var src int
				if x.Op == token.SHL {
					src = i - k
				} else {
					src = i + k
				}
				if src >= 0 && src < 64 {
					out[i] = a[src]
				}
			}
			out = out.trunc(w)
		case token.OR, token.AND:
			b := e.of(x.Y)
			for i := 0; i < 64; i++ {
				if x.Op == token.OR {
					out[i] = orBit(a[i], b[i])
				} else {
					out[i] = andBit(a[i], b[i])
				}
			}
			out = out.trunc(w)
		default:
			return unknown("operator " + x.Op.String() + " outside the bit domain")
		}
	case *ssa.Call:
		// binary.BigEndian.Uint16/32/64(x): the big-endian word of x's first bytes
		if f := x.Call.StaticCallee(); f != nil && e.byteAt != nil && len(x.Call.Args) == 2 {
			n := 0
			switch f.RelString(nil) {
			case "(encoding/binary.bigEndian).Uint16":
				n = 2
			case "(encoding/binary.bigEndian).Uint32":
				n = 4
			case "(encoding/binary.bigEndian).Uint64":
				n = 8
			}
			if n > 0 {
				okAll := true
				for j := 0; j < n; j++ {
					bb, ok := e.byteAt(x.Call.Args[1], j)
					if !ok {
						okAll = false
						break
					}
					for bit := 0; bit < 8; bit++ {
						out[8*(n-1-j)+bit] = bb[bit]
					}
				}
				if okAll {
					break
				}
			}
		}
		if e.call != nil {
			if b, ok := e.call(x); ok {
				out = b
				break
			}
		}
		return unknown("call outside the bit domain")
	case *ssa.UnOp:
		if x.Op == token.MUL && e.load != nil {
			if b, ok := e.load(x.X); ok {
				out = b
				break
			}
		}
		return unknown("load outside the model")
	default:
		return unknown(fmt.Sprintf("%T outside the bit domain", v))
	}
	e.memo[v] = out
	return out
}

func (b bits) String() string {
	var sb strings.Builder
	for i := 63; i >= 0; i-- {
		switch {
		case b[i] == 0:
			sb.WriteByte('0')
		case b[i] == 1:
			sb.WriteByte('1')
		case b[i] < 0:
			sb.WriteByte('?')
		default:
			sb.WriteString(fmt.Sprintf("[v%d]", b[i]-2))
		}
	}
	return strings.TrimLeft(sb.String(), "0")
}

// varintCases: the ordered `v <= K` cases of a switch-true function.
type varintCase struct {
	thresh uint64
	block  *ssa.BasicBlock // block executed when this case holds
}

// sizeThresh, when non-nil, maps a size n to the largest value SizeVarint
// reports n for; a case `SizeVarint(v) == n` is then the class with that bound.
func switchCases(fn *ssa.Function, v ssa.Value, sizeThresh map[int64]uint64) ([]varintCase, *ssa.BasicBlock, string) {
	var out []varintCase
	b := fn.Blocks[0]
	var guardPanic *ssa.BasicBlock // `if v > K { panic }` ahead of the cases
	var guardK uint64
	sizeSeen := map[int64]bool{}
	bySize := false
	for {
		ifi, ok := b.Instrs[len(b.Instrs)-1].(*ssa.If)
		if !ok {
			if _, isPanic := b.Instrs[len(b.Instrs)-1].(*ssa.Panic); !isPanic {
				switch {
				case guardPanic != nil:
					// everything not matched earlier and not rejected by the guard
					out = append(out, varintCase{guardK, b})
					b = guardPanic
				case bySize:
					// default arm of a switch on SizeVarint(v): the one size not named
					var rest []int64
					for n := range sizeThresh {
						if !sizeSeen[n] {
							rest = append(rest, n)
						}
					}
					if len(rest) == 1 {
						out = append(out, varintCase{sizeThresh[rest[0]], b})
						b = nil // larger values are rejected inside SizeVarint itself
					}
				}
			}
			if sizeThresh != nil && len(out) > 0 {
				// cases selected by size are disjoint: order them by bound
				sort.Slice(out, func(i, j int) bool { return out[i].thresh < out[j].thresh })
			}
			return out, b, ""
		}
		bo, ok := ifi.Cond.(*ssa.BinOp)
		// leading rejection guard
		if ok && len(out) == 0 && guardPanic == nil && bo.X == v && (bo.Op == token.GTR || bo.Op == token.GEQ) {
			if c, isC := bo.Y.(*ssa.Const); isC && c.Value != nil {
				if _, isPanic := b.Succs[0].Instrs[len(b.Succs[0].Instrs)-1].(*ssa.Panic); isPanic {
					k, _ := constant.Uint64Val(constant.ToInt(c.Value))
					if bo.Op == token.GEQ {
						k--
					}
					guardPanic, guardK = b.Succs[0], k
					b = b.Succs[1]
					continue
				}
			}
		}
		// bits.Len64(v) <= k  <=>  v <= 2^k - 1
		if ok && (bo.Op == token.LEQ || bo.Op == token.LSS) {
			if c, isC := bo.X.(*ssa.Call); isC && len(c.Call.Args) == 1 && c.Call.Args[0] == v {
				if f := c.Call.StaticCallee(); f != nil && f.Pkg != nil && f.Pkg.Pkg.Path() == "math/bits" && (f.Name() == "Len64" || f.Name() == "Len") {
					if kc, isK := bo.Y.(*ssa.Const); isK && kc.Value != nil {
						k := kc.Int64()
						if bo.Op == token.LSS {
							k--
						}
						if k >= 0 && k < 64 {
							out = append(out, varintCase{uint64(1)<<uint(k) - 1, b.Succs[0]})
							b = b.Succs[1]
							continue
						}
					}
				}
			}
		}
		if ok && sizeThresh != nil && bo.Op == token.EQL {
			if c, isC := bo.X.(*ssa.Call); isC {
				if f := c.Call.StaticCallee(); f != nil && f.Name() == "SizeVarint" && f.Pkg == fn.Pkg && len(c.Call.Args) == 1 && c.Call.Args[0] == v {
					if k, isK := bo.Y.(*ssa.Const); isK && k.Value != nil {
						if th, known := sizeThresh[k.Int64()]; known {
							sizeSeen[k.Int64()], bySize = true, true
							out = append(out, varintCase{th, b.Succs[0]})
							b = b.Succs[1]
							continue
						}
					}
				}
			}
		}
		if !ok || bo.X != v {
			return nil, nil, "case condition is not a comparison of the value"
		}
		c, ok := bo.Y.(*ssa.Const)
		if !ok || c.Value == nil {
			return nil, nil, "case threshold is not a constant"
		}
		k, _ := constant.Uint64Val(constant.ToInt(c.Value))
		switch bo.Op {
		case token.LEQ:
		case token.LSS:
			k--
		default:
			return nil, nil, "case is not an upper-bound comparison"
		}
		out = append(out, varintCase{k, b.Succs[0]})
		b = b.Succs[1]
	}
}

func c19(p *Prog, r *Report) {
	r.Explanation = "Bit-provenance abstract interpretation (each bit of a value is 0, 1 or a named input bit; constant shifts, masks, ORs and width conversions are exact) composed across encoder and decoder, plus range proving and layout terms: (1) AppendVarint and SizeVarint branch on the same ordered thresholds 2^6-1, 2^14-1, 2^30-1, 2^62-1, emit/report 1, 2, 4, 8 bytes and reject larger values; first matching case wins, hence the shortest form; (2) for every class, the appended bytes are class-tag(2 bits) || v[8n-3..0] and ConsumeVarint's expression over those bytes is the identity on v - for all values of the class at once - with the class read from b[0]>>6 only and n returned; (3) ConsumeVarint touches b[k] only behind len(b) >= n for its class and reports (0,-1) exactly on the negated guard; (4) Consume*Bytes slice within len under a guard compared without truncation (range prover, also with 32-bit int), Append*Bytes and Consume*Bytes agree on the layout, ConsumeUint32/64 are guarded; (5) the appenders never store into the destination's existing elements: their only write is append."
	r.NotDecided = "nothing of substance beyond the correctness of this checker's own bit domain and of encoding/binary (ConsumeUint32/64)."
	r.Assumptions = append(r.Assumptions, "append leaves existing elements untouched (language semantics)", "encoding/binary.BigEndian behaves as documented")
	r.Trusted = append(r.Trusted, "go/ssa", "bit domain (c19.go), range prover (ranges.go), term evaluator")
	const R1 = "C19.thresholds-and-sizes"
	const R2 = "C19.decode-encode-identity"
	const R3 = "C19.availability-guards"
	const R4 = "C19.length-prefixed-bytes"
	const R5 = "C19.prefix-untouched"
	r.Rule(R1, "AppendVarint and SizeVarint: same ordered thresholds (2^6-1, 2^14-1, 2^30-1, 2^62-1), sizes 1/2/4/8, larger values rejected", 2)
	r.Rule(R2, "per class: bits of ConsumeVarint(AppendVarint(v)) == v and the returned length == bytes appended, for all v of the class; decoded values are below 2^(8n-2) for any input", 8)
	r.Rule(R3, "ConsumeVarint: per class, failure (0,-1) exactly when len(b) < n; empty input fails", 5)
	r.Rule(R4, "Consume*Bytes / ConsumeUint32/64: bounds obligations proved, failure on the negated guard; Append*Bytes layout = what Consume*Bytes parses", 8)
	r.Rule(R5, "appenders write the destination only through append (no store into existing elements)", 3)

	want := []uint64{1<<6 - 1, 1<<14 - 1, 1<<30 - 1, 1<<62 - 1}
	sizes := []int{1, 2, 4, 8}

	app := anchor(p, r, R1, "~/quicwire.AppendVarint")
	siz := anchor(p, r, R1, "~/quicwire.SizeVarint")
	con := anchor(p, r, R2, "~/quicwire.ConsumeVarint")
	if app == nil || siz == nil || con == nil {
		return
	}
	r.List("functions", shortName(app))
	r.List("functions", shortName(siz))
	r.List("functions", shortName(con))

	// ---- R1 SizeVarint
	{
		cases, def, why := switchCases(siz, siz.Params[0], nil)
		ok := why == "" && len(cases) == 4
		var got []string
		for i, c := range cases {
			ret, isRet := c.block.Instrs[len(c.block.Instrs)-1].(*ssa.Return)
			n := int64(-1)
			if isRet && len(ret.Results) == 1 {
				if k, isC := ret.Results[0].(*ssa.Const); isC && k.Value != nil {
					n = k.Int64()
				}
			}
			got = append(got, fmt.Sprintf("<=%d:%d", c.thresh, n))
			if i >= 4 || c.thresh != want[i] || n != int64(sizes[i]) {
				ok = false
			}
		}
		if def != nil {
			if _, isPanic := def.Instrs[len(def.Instrs)-1].(*ssa.Panic); !isPanic {
				ok = false
				why = "values above 2^62-1 are not rejected"
			}
		}
		r.Check(ok, R1, "SizeVarint thresholds and sizes", p.Pos(siz.Pos()), strings.Join(got, " "), "cases "+strings.Join(got, " ")+" "+why+"; required <=63:1 <=16383:2 <=1073741823:4 <=4611686018427387903:8, default panics")
	}

	// ---- R1 + R2 AppendVarint cases and encoder bytes
	// SizeVarint's own table (checked above) may drive AppendVarint's switch
	sizeThresh := map[int64]uint64{}
	if sc, _, w := switchCases(siz, siz.Params[0], nil); w == "" {
		for _, c := range sc {
			if ret, ok := c.block.Instrs[len(c.block.Instrs)-1].(*ssa.Return); ok && len(ret.Results) == 1 {
				if k, ok := ret.Results[0].(*ssa.Const); ok && k.Value != nil {
					sizeThresh[k.Int64()] = c.thresh
				}
			}
		}
	}
	cases, def, why := switchCases(app, app.Params[1], sizeThresh)
	okA := why == "" && len(cases) == 4
	if def != nil {
		if _, isPanic := def.Instrs[len(def.Instrs)-1].(*ssa.Panic); !isPanic {
			okA = false
			why = "values above 2^62-1 are not rejected"
		}
	}
	// one appended byte: bits [shr, shr+8) of an SSA value
	type encByte struct {
		v   ssa.Value
		shr int
	}
	var encBytes [][]encByte
	var gotA []string
	for i, c := range cases {
		// the appended bytes: stores into the variadic array of this block
		var vals []encByte
		var retOK bool
		for _, in := range c.block.Instrs {
			switch x := in.(type) {
			case *ssa.Store:
				if ia, ok := x.Addr.(*ssa.IndexAddr); ok {
					if k, ok := ia.Index.(*ssa.Const); ok {
						idx := int(k.Int64())
						for len(vals) <= idx {
							vals = append(vals, encByte{})
						}
						vals[idx] = encByte{x.Val, 0}
					}
				}
			case *ssa.Return:
				if call, ok := x.Results[0].(*ssa.Call); ok {
					if b, ok := call.Call.Value.(*ssa.Builtin); ok && b.Name() == "append" && call.Call.Args[0] == ssa.Value(app.Params[0]) {
						retOK = true
					}
					// binary.BigEndian.AppendUintN(b, x): the N/8 bytes of x, most significant first
					if f := call.Call.StaticCallee(); f != nil && len(call.Call.Args) == 3 && call.Call.Args[1] == ssa.Value(app.Params[0]) {
						n := 0
						switch f.RelString(nil) {
						case "(encoding/binary.bigEndian).AppendUint16":
							n = 2
						case "(encoding/binary.bigEndian).AppendUint32":
							n = 4
						case "(encoding/binary.bigEndian).AppendUint64":
							n = 8
						}
						if n > 0 {
							retOK = true
							vals = nil
							for j := 0; j < n; j++ {
								vals = append(vals, encByte{call.Call.Args[2], 8 * (n - 1 - j)})
							}
						}
					}
				}
			}
		}
		encBytes = append(encBytes, vals)
		gotA = append(gotA, fmt.Sprintf("<=%d:%d", c.thresh, len(vals)))
		if i >= 4 || c.thresh != want[i] || len(vals) != sizes[i] || !retOK {
			okA = false
		}
	}
	r.Check(okA, R1, "AppendVarint thresholds and sizes", p.Pos(app.Pos()), strings.Join(gotA, " "), "cases "+strings.Join(gotA, " ")+" "+why+"; required 1/2/4/8 bytes appended to the destination under the same thresholds as SizeVarint, default panics")

	// ---- decoder classes: switch b[0]>>6
	type decCase struct {
		cls    int
		guardN int64 // required len(b) >= guardN (0 = none)
		val    ssa.Value
		n      int64
		failOK bool
	}
	var dec []decCase
	{
		s := p.NewSym(con)
		for _, rp := range s.ff.RetPoints(-1) {
			if len(rp.Vals) != 2 {
				continue
			}
			nC, ok := rp.Vals[1].(*ssa.Const)
			if !ok || nC.Value == nil {
				continue
			}
			n := nC.Int64()
			if n < 0 {
				continue
			}
			// class from the facts: (b[0]>>6) == cls
			cls := -1
			var lo *int64
			for _, a := range rp.Facts {
				if a.Kind == Truth && a.Pol {
					if bo, ok := a.V.(*ssa.BinOp); ok && bo.Op == token.EQL {
						if c, ok := bo.Y.(*ssa.Const); ok && s.Of(bo.X).String() == "bin<>>>(index(param:0, const:0), const:6)" {
							cls = int(c.Int64())
						}
					}
				}
			}
			lo, _ = boundsOf(s, rp.Facts, "len(param:0)")
			g := int64(0)
			if lo != nil {
				g = *lo
			}
			dec = append(dec, decCase{cls: cls, guardN: g, val: rp.Vals[0], n: n})
		}
	}
	// a decoder that is not a switch over b[0]>>6 with one return per class
	// (for example: n := 1 << (b[0]>>6); one guard; a loop or big-endian reads):
	// decide the same clauses by partitioning on the class and the available length
	classes := map[int]bool{}
	for _, d := range dec {
		classes[d.cls] = true
	}
	var eb [4][]bits
	okEnc := len(encBytes) == 4
	if len(encBytes) == 4 {
		for i := 0; i < 4; i++ {
			width := 8*sizes[i] - 2
			ee := &bitEval{env: map[ssa.Value]bits{app.Params[1]: bitsInput(width)}, memo: map[ssa.Value]bits{}}
			for _, bv := range encBytes[i] {
				if bv.v == nil {
					okEnc = false
					break
				}
				full := ee.of(bv.v)
				var one bits
				for j := 0; j < 8; j++ {
					if bv.shr+j < 64 {
						one[j] = full[bv.shr+j]
					}
				}
				eb[i] = append(eb[i], one)
			}
			if ee.err != "" || len(eb[i]) != sizes[i] {
				okEnc = false
			}
		}
	}
	if okEnc {
		// every route the input length can select (fast paths for long inputs)
		c19ExactLengthSweep(p, r, R2, con, eb)
	}
	if !(classes[0] && classes[1] && classes[2] && classes[3]) && okEnc {
		r.Note("ConsumeVarint is not a per-class switch: decided by abstract interpretation partitioned on the class b[0]>>6 and the available length")
		c19Partitioned(p, r, R2, R3, con, eb)
		goto afterDecoder
	}
	// ---- R2: identity per class
	for i := 0; i < 4; i++ {
		key := fmt.Sprintf("class %d (%d bytes)", i, sizes[i])
		if i >= len(encBytes) || len(encBytes[i]) != sizes[i] {
			r.Fail(R2, key, p.Pos(app.Pos()), "encoder case not found")
			continue
		}
		width := 8*sizes[i] - 2
		// encoder bytes on symbolic v restricted to the class
		ee := &bitEval{env: map[ssa.Value]bits{app.Params[1]: bitsInput(width)}, memo: map[ssa.Value]bits{}}
		var eb []bits
		for _, bv := range encBytes[i] {
			if bv.v == nil {
				ee.err = "a byte of the encoding is not written"
				break
			}
			full := ee.of(bv.v)
			var one bits
			for j := 0; j < 8; j++ {
				if bv.shr+j < 64 {
					one[j] = full[bv.shr+j]
				}
			}
			eb = append(eb, one)
		}
		if ee.err != "" {
			r.Fail(R2, key, p.Pos(app.Pos()), "encoder byte expression outside the bit domain: "+ee.err)
			continue
		}
		// expected byte layout: tag || v bits
		okEnc := true
		for k := 0; k < sizes[i]; k++ {
			for bit := 0; bit < 8; bit++ {
				pos := 8*(sizes[i]-1-k) + bit // position in the n-byte big-endian word
				wantBit := 0
				if pos < width {
					wantBit = 2 + pos
				} else if pos == width {
					wantBit = i & 1
				} else {
					wantBit = (i >> 1) & 1
				}
				if eb[k][bit] != wantBit {
					okEnc = false
				}
			}
		}
		// decoder
		var dc *decCase
		for j := range dec {
			if dec[j].cls == i {
				dc = &dec[j]
			}
		}
		if dc == nil {
			r.Fail(R2, key, p.Pos(con.Pos()), fmt.Sprintf("ConsumeVarint has no success return for class %d selected by b[0]>>6", i))
			continue
		}
		de := &bitEval{env: map[ssa.Value]bits{}, memo: map[ssa.Value]bits{}}
		de.load = func(addr ssa.Value) (bits, bool) {
			ia, ok := addr.(*ssa.IndexAddr)
			if !ok || ia.X != ssa.Value(con.Params[0]) {
				return bits{}, false
			}
			k, ok := ia.Index.(*ssa.Const)
			if !ok || int(k.Int64()) >= len(eb) {
				return bits{}, false
			}
			return eb[int(k.Int64())], true
		}
		de.byteAt = func(base ssa.Value, k int) (bits, bool) {
			idx, ok := sliceByteIndex(base, con.Params[0], k)
			if !ok || idx >= len(eb) {
				return bits{}, false
			}
			return eb[idx], true
		}
		got := de.of(dc.val)
		wantV := bitsInput(width)
		okDec := de.err == "" && got == wantV && dc.n == int64(sizes[i])
		detail := fmt.Sprintf("encoder bytes ok=%v; decode(encode(v)) = %s (want %s); returned length %d (want %d) %s", okEnc, got, wantV, dc.n, sizes[i], de.err)
		r.Check(okEnc && okDec, R2, key, p.Pos(con.Pos()), "identity on all values of the class", detail)
		// arbitrary input bytes: the decoded value stays below 2^(8n-2) (in
		// particular below 2^62: the post-condition C03 relies on)
		ae := &bitEval{env: map[ssa.Value]bits{}, memo: map[ssa.Value]bits{}}
		ae.load = func(addr ssa.Value) (bits, bool) {
			ia, ok := addr.(*ssa.IndexAddr)
			if !ok || ia.X != ssa.Value(con.Params[0]) {
				return bits{}, false
			}
			k, ok := ia.Index.(*ssa.Const)
			if !ok {
				return bits{}, false
			}
			var b bits
			for j := 0; j < 8; j++ {
				b[j] = 2 + 8*int(k.Int64()) + j
			}
			return b, true
		}
		ae.byteAt = func(base ssa.Value, k int) (bits, bool) {
			idx, ok := sliceByteIndex(base, con.Params[0], k)
			if !ok {
				return bits{}, false
			}
			var b bits
			for j := 0; j < 8; j++ {
				b[j] = 2 + 8*idx + j
			}
			return b, true
		}
		av := ae.of(dc.val)
		okTop := ae.err == ""
		for j := width; j < 64; j++ {
			if av[j] != 0 {
				okTop = false
			}
		}
		r.Check(okTop, R2, key+": decoded value < 2^"+fmt.Sprint(width)+" for arbitrary input bytes", p.Pos(con.Pos()), "bits above the class width are zero", "decoded bits "+av.String()+" "+ae.err)
		// R3: guard
		needGuard := int64(sizes[i])
		if i == 0 {
			needGuard = 1
		}
		r.Check(dc.guardN >= needGuard, R3, key+": success only with len(b) >= "+fmt.Sprint(needGuard), p.Pos(con.Pos()), fmt.Sprintf("dominating guard len(b) >= %d", dc.guardN), fmt.Sprintf("class %d returns a value with only len(b) >= %d established", i, dc.guardN))
	}
	// R3: failure returns exactly on the negated guards: every (0,-1) return is dominated by len(b) < n for the class's n or is the unreachable default
	{
		s := p.NewSym(con)
		okF := true
		detail := ""
		nFail := 0
		for _, rp := range s.ff.RetPoints(-1) {
			nC, ok := rp.Vals[1].(*ssa.Const)
			if !ok || nC.Value == nil || nC.Int64() >= 0 {
				continue
			}
			nFail++
			_, hi := boundsOf(s, rp.Facts, "len(param:0)")
			cls := -1
			for _, a := range rp.Facts {
				if a.Kind == Truth && a.Pol {
					if bo, ok := a.V.(*ssa.BinOp); ok && bo.Op == token.EQL {
						if c, ok := bo.Y.(*ssa.Const); ok && s.Of(bo.X).String() == "bin<>>>(index(param:0, const:0), const:6)" {
							cls = int(c.Int64())
						}
					}
				}
			}
			switch {
			case cls >= 0 && cls < 4:
				if hi == nil || *hi != int64(sizes[cls])-1 {
					okF = false
					detail = fmt.Sprintf("class %d fails with len(b) bound %s, required exactly len(b) < %d", cls, optInt(hi), sizes[cls])
				}
			case hi != nil && *hi == 0:
				// empty input
			default:
				// the fall-through after the switch: all four classes returned before
				all := true
				for _, a := range rp.Facts {
					_ = a
				}
				if !all {
					okF = false
				}
			}
		}
		r.Check(okF && nFail >= 4, R3, "failure exactly when fewer bytes than announced are available", p.Pos(con.Pos()), fmt.Sprintf("%d failure returns, each on len(b) < n of its class (or empty input)", nFail), detail)
	}

afterDecoder:
	// ---- R4: bounds (range prover) for all quicwire functions, all configurations
	for _, name := range []string{"~/quicwire.ConsumeVarint", "~/quicwire.ConsumeUint8Bytes", "~/quicwire.ConsumeVarintBytes", "~/quicwire.ConsumeUint32", "~/quicwire.ConsumeUint64", "~/quicwire.ConsumeVarintInt64"} {
		fn := anchor(p, r, R4, name)
		if fn == nil {
			continue
		}
		rg := p.NewRange(fn)
		n, bad := 0, ""
		for _, o := range rg.obligations() {
			if o.kind == "panic" || o.kind == "assert" {
				continue
			}
			n++
			if !o.proved {
				bad = o.desc + ": " + o.why + " at " + p.InstrPos(o.in)
			}
		}
		r.Check(bad == "", R4, shortName(fn)+": bounds obligations", p.Pos(fn.Pos()), fmt.Sprintf("%d obligations proved", n), bad)
	}
	// the consumers of a declared length outside the package: every function of
	// the module that calls a quicwire.Consume* function has all its slice and
	// index bounds proved (a declared length is compared with the REMAINING
	// input before anything is sliced by it)
	nCallers := 0
	for _, fn := range p.ModuleFuncs() {
		if fn.Pkg == nil || strings.HasSuffix(fn.Pkg.Pkg.Path(), "/quicwire") || fn.Blocks == nil {
			continue
		}
		calls := ""
		for _, b := range fn.Blocks {
			for _, in := range b.Instrs {
				if c, ok := in.(*ssa.Call); ok {
					if cal := c.Call.StaticCallee(); cal != nil && cal.Pkg != nil && strings.HasSuffix(cal.Pkg.Pkg.Path(), "/quicwire") && strings.HasPrefix(cal.Name(), "Consume") {
						calls = cal.Name()
					}
				}
			}
		}
		if calls == "" {
			continue
		}
		nCallers++
		rg := p.NewRange(fn)
		n, bad := 0, ""
		for _, o := range rg.obligations() {
			if o.kind != "slice" && o.kind != "index" {
				continue
			}
			n++
			if !o.proved {
				bad = o.desc + ": " + o.why + " at " + p.InstrPos(o.in)
			}
		}
		r.Check(bad == "", R4, shortName(fn)+" (consumer of "+calls+"): declared length checked against the remaining input before slicing", p.Pos(fn.Pos()), fmt.Sprintf("%d bounds proved", n), bad)
	}
	if nCallers == 0 {
		r.Fail(R4, "consumers of quicwire.Consume*", "-", "no caller of the varint decoder found in the module (rule no longer sees the constructs it was written for)")
	}
	// binary.BigEndian.UintNN preconditions: len >= 4/8 guard
	for _, c := range []struct {
		fn string
		n  int64
	}{{"~/quicwire.ConsumeUint32", 4}, {"~/quicwire.ConsumeUint64", 8}} {
		fn := anchor(p, r, R4, c.fn)
		if fn == nil {
			continue
		}
		s := p.NewSym(fn)
		ok := true
		for _, rp := range s.ff.RetPoints(-1) {
			nC, isC := rp.Vals[1].(*ssa.Const)
			if !isC || nC.Value == nil {
				ok = false
				continue
			}
			lo, hi := boundsOf(s, rp.Facts, "len(param:0)")
			if nC.Int64() >= 0 {
				if lo == nil || *lo < c.n || nC.Int64() != c.n {
					ok = false
				}
			} else if hi == nil || *hi != c.n-1 {
				ok = false
			}
		}
		r.Check(ok, R4, shortName(fn)+": value read only with len(b) >= n, failure exactly otherwise", p.Pos(fn.Pos()), fmt.Sprintf("guard len(b) >= %d", c.n), "guard/return structure differs")
	}
	// layouts
	if fn := anchor(p, r, R4, "~/quicwire.AppendUint8Bytes"); fn != nil {
		retValueIs(p, r, R4, fn, "b || uint8(len(v)) || v", "cat(param:0, u8(conv<uint8>(len(param:1))), param:1)")
	}
	if fn := anchor(p, r, R4, "~/quicwire.AppendUint8Bytes"); fn != nil {
		// the uint8 conversion of the length is value-preserving where it is made
		rg := p.NewRange(fn)
		n, bad := 0, ""
		for _, b := range fn.Blocks {
			for _, in := range b.Instrs {
				cv, ok := in.(*ssa.Convert)
				if !ok || typeWidth(cv.Type()) != 8 {
					continue
				}
				inner, ok := rg.lin(cv.X)
				if !ok {
					continue
				}
				n++
				facts := rg.factsAt(b)
				if !rg.entails(facts, inner) || !rg.entails(facts, linConst(255).minus(inner)) {
					bad = "length " + inner.Short() + " is narrowed to 8 bits without a dominating check that it fits, at " + p.InstrPos(cv)
				}
			}
		}
		r.Check(bad == "" && n > 0, R4, "AppendUint8Bytes: over-long input is rejected before the length is narrowed", p.Pos(fn.Pos()), fmt.Sprintf("%d narrowing conversion(s) proved value-preserving", n), firstNonEmpty(bad, "no length conversion found"))
	}
	if fn := anchor(p, r, R4, "~/quicwire.AppendVarintBytes"); fn != nil {
		retValueIs(p, r, R4, fn, "b || varint(len(v)) || v", "cat(param:0, varint(conv<uint64>(len(param:1))), param:1)")
	}
	// decoders: the returned view is b[prefix : prefix+size] and the reported
	// length is prefix+size, as linear identities under the facts at the return;
	// every failure return is justified by prefix+size > len(b) or by the
	// prefix itself being unavailable.
	for _, d := range []struct {
		fn     string
		mirror string
	}{{"~/quicwire.ConsumeUint8Bytes", "AppendUint8Bytes"}, {"~/quicwire.ConsumeVarintBytes", "AppendVarintBytes"}} {
		fn := anchor(p, r, R4, d.fn)
		if fn == nil {
			continue
		}
		rg := p.NewRange(fn)
		var prefix, size Lin
		var prefixFail func(facts []Lin) bool
		found := false
		for _, b := range fn.Blocks {
			for _, in := range b.Instrs {
				v, isV := in.(ssa.Value)
				if !isV {
					continue
				}
				switch rg.s.Of(v).String() {
				case "index(param:0, const:0)":
					if d.mirror == "AppendUint8Bytes" && !found {
						prefix, size, found = linConst(1), rg.atom(v), true
						prefixFail = func(facts []Lin) bool {
							return rg.entails(facts, rg.lenOf(fn.Params[0]).scale(-1)) // len(b) <= 0
						}
					}
				case "extract<1>(call<quicwire.ConsumeVarint>(param:0))":
					if d.mirror == "AppendVarintBytes" {
						prefix = rg.atom(v)
						pf := prefix
						prefixFail = func(facts []Lin) bool { return rg.entails(facts, pf.scale(-1).addConst(-1)) } // n <= -1
					}
				case "extract<0>(call<quicwire.ConsumeVarint>(param:0))":
					if d.mirror == "AppendVarintBytes" {
						size, found = rg.atom(v), true
					}
				}
			}
		}
		if !found || prefixFail == nil {
			r.Fail(R4, shortName(fn)+": layout mirrors "+d.mirror, p.Pos(fn.Pos()), "the length prefix is not read from the head of the input")
			continue
		}
		okL, detail, nOK, nFail := viewContract(p, rg, fn, fn.Params[0], prefix, size, prefixFail, 0)
		r.Check(okL, R4, shortName(fn)+": returns b[prefix:prefix+size], prefix+size; fails exactly when that exceeds len(b)", p.Pos(fn.Pos()), fmt.Sprintf("mirrors %s: %d success, %d failure returns", d.mirror, nOK, nFail), detail)
	}

	// ---- R5: appenders only append
	e := p.Effects()
	for _, name := range []string{"~/quicwire.AppendVarint", "~/quicwire.AppendVarintBytes", "~/quicwire.AppendUint8Bytes"} {
		fn := anchor(p, r, R5, name)
		if fn == nil {
			continue
		}
		var bad []string
		if sm := e.Summary(fn); sm != nil {
			for k, w := range sm.All {
				if k.kind != 'G' && k.idx == 0 && k.op != "builtin.append" {
					bad = append(bad, k.op+" at "+p.InstrPos(w.Site))
				}
			}
		}
		// and no IndexAddr store on a slice derived from the destination
		for _, b := range fn.Blocks {
			for _, in := range b.Instrs {
				if st, ok := in.(*ssa.Store); ok {
					if ia, ok := st.Addr.(*ssa.IndexAddr); ok {
						if _, isSlice := ia.X.Type().Underlying().(*types.Slice); isSlice {
							bad = append(bad, "element store at "+p.InstrPos(st))
						}
					}
				}
			}
		}
		r.Check(len(bad) == 0, R5, shortName(fn)+": destination written only by append", p.Pos(fn.Pos()), "no store into existing elements", "the destination prefix may be modified: "+strings.Join(uniq(sorted(bad)), "; "))
	}
}

// viewOf decomposes a slice value into (base, offset, length) through
// re-slicing.
func (rg *Range) viewOf(v ssa.Value) (ssa.Value, Lin, Lin, bool) {
	sl, ok := v.(*ssa.Slice)
	if !ok {
		return v, linConst(0), rg.lenOf(v), true
	}
	if _, isSlice := sl.X.Type().Underlying().(*types.Slice); !isSlice {
		return v, linConst(0), rg.lenOf(v), true
	}
	base, off, ln, ok := rg.viewOf(sl.X)
	if !ok {
		return nil, Lin{}, Lin{}, false
	}
	lo := linConst(0)
	if sl.Low != nil {
		if lo, ok = rg.lin(sl.Low); !ok {
			return nil, Lin{}, Lin{}, false
		}
	}
	hi := ln
	if sl.High != nil {
		if hi, ok = rg.lin(sl.High); !ok {
			return nil, Lin{}, Lin{}, false
		}
	}
	return base, off.plus(lo), hi.minus(lo), true
}

func optInt(v *int64) string {
	if v == nil {
		return "none"
	}
	return fmt.Sprint(*v)
}

// sliceByteIndex: base is the parameter prm or a constant-offset re-slice of
// it; returns the index in prm of base[k].
func sliceByteIndex(base ssa.Value, prm ssa.Value, k int) (int, bool) {
	off := 0
	for i := 0; i < 4; i++ {
		if base == prm {
			return off + k, true
		}
		sl, ok := base.(*ssa.Slice)
		if !ok {
			return 0, false
		}
		if sl.Low != nil {
			c, ok := sl.Low.(*ssa.Const)
			if !ok || c.Value == nil {
				return 0, false
			}
			off += int(c.Int64())
		}
		base = sl.X
	}
	return 0, false
}

// viewContract: every return of fn either reports failure (nil, negative),
// justified by prefix+size > len(b) or by prefixFail, or returns the view
// b[prefix : prefix+size] and the length prefix+size - as linear identities
// under the facts at the return. A return that passes on the results of an
// in-module helper H(b, prefix', size') is accepted when the arguments equal
// (b, prefix, size) under the caller's facts and H itself meets the contract
// for its own parameters (given 0 <= prefix' <= len(b), which the caller
// must establish).
func viewContract(p *Prog, rg *Range, fn *ssa.Function, bParam ssa.Value, prefix, size Lin, prefixFail func([]Lin) bool, depth int) (okL bool, detail string, nOK, nFail int) {
	okL = true
	total := prefix.plus(size)
	blen := rg.lenOf(bParam)
	rg.addressSpaceAxiom()
	for _, blk := range fn.Blocks {
		ret, isRet := blk.Instrs[len(blk.Instrs)-1].(*ssa.Return)
		if !isRet || rg.s.ff.dead[blk] || len(ret.Results) != 2 {
			continue
		}
		// passthrough of a helper's results
		if e0, ok := ret.Results[0].(*ssa.Extract); ok && depth < 2 {
			if e1, ok := ret.Results[1].(*ssa.Extract); ok && e0.Tuple == e1.Tuple && e0.Index == 0 && e1.Index == 1 {
				if c, ok := e0.Tuple.(*ssa.Call); ok {
					if h := c.Call.StaticCallee(); h != nil && InModule(h) && h.Blocks != nil && h.Signature.Results().Len() == 2 {
						facts := rg.factsAt(blk)
						eq := func(a, b Lin) bool { return rg.entails(facts, a.minus(b)) && rg.entails(facts, b.minus(a)) }
						bi, pi, si := -1, -1, -1
						for i, a := range c.Call.Args {
							if a == bParam {
								bi = i
								continue
							}
							if l, ok := rg.lin(a); ok {
								facts = rg.factsAt(blk) // conversions registered by lin
								switch {
								case pi < 0 && eq(l, prefix):
									pi = i
								case si < 0 && eq(l, size):
									si = i
								}
							}
						}
						if bi < 0 || pi < 0 || si < 0 || len(c.Call.Args) != 3 {
							return false, "the helper " + shortName(h) + " is not called with (input, prefix length, declared size) at " + p.InstrPos(c), nOK, nFail
						}
						if !rg.entails(facts, prefix) || !rg.entails(facts, blen.minus(prefix)) {
							return false, "the helper " + shortName(h) + " is called without 0 <= prefix <= len(b) established at " + p.InstrPos(c), nOK, nFail
						}
						hrg := p.NewRange(h)
						hp, hs := hrg.atom(h.Params[pi]), hrg.atom(h.Params[si])
						hrg.axiom(hp)                                // prefix >= 0
						hrg.axiom(hrg.lenOf(h.Params[bi]).minus(hp)) // prefix <= len(b)
						ok2, d2, n1, n2 := viewContract(p, hrg, h, h.Params[bi], hp, hs, func([]Lin) bool { return false }, depth+1)
						if !ok2 {
							return false, "in " + shortName(h) + ": " + d2, nOK, nFail
						}
						nOK += n1
						nFail += n2
						continue
					}
				}
			}
		}
		n, okN := rg.lin(ret.Results[1])
		if isNilConst(ret.Results[0]) {
			nFail++
			facts := rg.factsAt(blk)
			if !(okN && rg.entails(facts, n.scale(-1).addConst(-1))) {
				okL, detail = false, "a nil result is reported with a non-negative length at "+p.InstrPos(ret)
			}
			if !prefixFail(facts) && !rg.entails(facts, total.minus(blen).addConst(-1)) {
				okL, detail = false, "failure at "+p.InstrPos(ret)+" is not justified by prefix+size > len(b)"
			}
			continue
		}
		nOK++
		base, off, ln, okV := rg.viewOf(ret.Results[0])
		facts := rg.factsAt(blk)
		eq := func(a, b Lin) bool { return rg.entails(facts, a.minus(b)) && rg.entails(facts, b.minus(a)) }
		switch {
		case !okV || base != bParam:
			okL, detail = false, "the returned bytes are not a view of the input at "+p.InstrPos(ret)
		case !eq(off, prefix):
			okL, detail = false, "the returned view starts at "+off.Short()+", required "+prefix.Short()+" at "+p.InstrPos(ret)
		case !eq(ln, size):
			okL, detail = false, "the returned view has length "+ln.Short()+", required "+size.Short()+" at "+p.InstrPos(ret)
		case !okN || !eq(n, total):
			okL, detail = false, "the reported length is "+n.Short()+", required "+total.Short()+" at "+p.InstrPos(ret)
		}
	}
	if okL && (nOK == 0 || nFail == 0) {
		okL, detail = false, "no success or no failure return"
	}
	return
}

// c19AsSubRule evaluates the rules of C19 and files one obligation per rule
// under `rule` of report r (used by the properties whose wire formats carry
// QUIC-varint length prefixes).
func c19AsSubRule(p *Prog, r *Report, rule string) {
	sub := NewReport("C19", r.Tier)
	sub.curConfig = r.curConfig
	c19(p, sub)
	bad := map[string]string{}
	n := map[string]int{}
	for _, o := range sub.Obs {
		n[o.Rule]++
		if o.Status != Discharged && bad[o.Rule] == "" {
			bad[o.Rule] = o.Key + ": " + o.Detail + " at " + o.Pos
		}
	}
	for _, name := range sub.ruleOrder {
		ri := sub.Rules[name]
		if n[name] < ri.Expected && bad[name] == "" {
			bad[name] = fmt.Sprintf("rule matched %d instances < %d", n[name], ri.Expected)
		}
		r.Check(bad[name] == "", rule, "quicwire: "+name, "quicwire/wire.go", fmt.Sprintf("%d obligations discharged", n[name]), bad[name])
	}
}
