package main

// Two small path rules shared by the codec and batch checks.
//
// lengthPrechecks: a decoder may refuse an input on its LENGTH ALONE only when
// no well-formed encoding has that length. The rejecting edges of the decoder
// are found on the CFG (an If edge from which no accepting return is
// reachable); those whose condition compares len(input) with a constant and
// nothing else are judged against the shortest / the fixed well-formed length
// computed from the structure's layout. Every other rejection depends on a
// value read from the input and is judged by the layout rules.
//
// loopCarried: backward slice of a branch condition inside a loop; reports the
// first place where the slice reads state that another iteration of the same
// loop wrote (a non-induction phi of the loop header, or a map/slice/cell
// allocated outside the loop and stored to inside it).

import (
	"fmt"
	"go/constant"
	"go/token"
	"go/types"
	"strings"

	"golang.org/x/tools/go/ssa"
)

// acceptingEdges computes, for fn, which CFG edges can still reach a return
// that is not certainly a failure.
func acceptingEdges(ff *FuncFacts, fn *ssa.Function) func(from, to *ssa.BasicBlock) bool {
	rps := ff.RetPoints(verdictIndex(fn))
	splitOK := map[[2]*ssa.BasicBlock]bool{} // pred -> ret block, phi-split
	split := map[*ssa.BasicBlock]bool{}
	okBlock := map[*ssa.BasicBlock]bool{}
	for _, rp := range rps {
		rb := rp.Ret.Block()
		if rp.Block != rb {
			split[rb] = true
			if rp.Outcome != Fails {
				splitOK[[2]*ssa.BasicBlock{rp.Block, rb}] = true
			}
		} else if rp.Outcome != Fails {
			okBlock[rb] = true
		}
	}
	edgeOK := func(from, to *ssa.BasicBlock) bool {
		if split[to] {
			return splitOK[[2]*ssa.BasicBlock{from, to}]
		}
		return okBlock[to]
	}
	for changed := true; changed; {
		changed = false
		for _, b := range fn.Blocks {
			if okBlock[b] || split[b] {
				continue
			}
			for _, s := range b.Succs {
				if edgeOK(b, s) {
					okBlock[b] = true
					changed = true
					break
				}
			}
		}
	}
	return edgeOK
}

// lenOfParam: v is len(x) (possibly converted) where x is a []byte/string
// parameter of fn, possibly re-typed or fully re-sliced.
func lenOfParam(v ssa.Value) (*ssa.Parameter, bool) {
	for {
		switch x := v.(type) {
		case *ssa.Convert:
			v = x.X
			continue
		case *ssa.ChangeType:
			v = x.X
			continue
		}
		break
	}
	c, ok := v.(*ssa.Call)
	if !ok {
		return nil, false
	}
	bi, ok := c.Call.Value.(*ssa.Builtin)
	if !ok || bi.Name() != "len" || len(c.Call.Args) != 1 {
		return nil, false
	}
	a := c.Call.Args[0]
	for {
		switch x := a.(type) {
		case *ssa.Convert:
			a = x.X
			continue
		case *ssa.ChangeType:
			a = x.X
			continue
		case *ssa.Slice:
			if x.Low == nil && x.High == nil && x.Max == nil {
				a = x.X
				continue
			}
		}
		break
	}
	prm, ok := a.(*ssa.Parameter)
	if !ok {
		return nil, false
	}
	switch t := prm.Type().Underlying().(type) {
	case *types.Slice:
		if b, ok := t.Elem().Underlying().(*types.Basic); ok && b.Kind() == types.Byte {
			return prm, true
		}
	case *types.Basic:
		if t.Info()&types.IsString != 0 {
			return prm, true
		}
	}
	return nil, false
}

func constIntOf(v ssa.Value) (int64, bool) {
	for {
		if cv, ok := v.(*ssa.Convert); ok {
			v = cv.X
			continue
		}
		break
	}
	c, ok := v.(*ssa.Const)
	if !ok || c.Value == nil || c.Value.Kind() != constant.Int {
		return 0, false
	}
	k, ok := constant.Int64Val(c.Value)
	return k, ok
}

// lengthPrechecks judges the pure length tests of decoder fn. minLen is the
// length of the shortest well-formed encoding; fixedLen >= 0 says every
// well-formed encoding has exactly that length.
func lengthPrechecks(p *Prog, r *Report, rule, name string, fn *ssa.Function, minLen, fixedLen int64) {
	lengthPrechecksOn(p, r, rule, name, fn, minLen, fixedLen, nil, 0)
}

// lengthPrechecksOn: only != nil restricts the judgement to tests of that
// parameter's length. Helpers of the module that receive one of fn's byte
// parameters whole are judged the same way (their refusals are fn's).
func lengthPrechecksOn(p *Prog, r *Report, rule, name string, fn *ssa.Function, minLen, fixedLen int64, only *ssa.Parameter, depth int) {
	if fn == nil || fn.Blocks == nil {
		return
	}
	if depth < 2 {
		seen := map[*ssa.Function]bool{}
		for _, b := range fn.Blocks {
			for _, in := range b.Instrs {
				c, ok := in.(*ssa.Call)
				if !ok {
					continue
				}
				g := c.Call.StaticCallee()
				if g == nil || g.Pkg == nil || g.Blocks == nil || !strings.HasPrefix(g.Pkg.Pkg.Path(), modPath) || seen[g] || g == fn {
					continue
				}
				for ai, a := range c.Call.Args {
					for {
						if cv, ok := a.(*ssa.Convert); ok {
							a = cv.X
							continue
						}
						if ct, ok := a.(*ssa.ChangeType); ok {
							a = ct.X
							continue
						}
						break
					}
					pa, ok := a.(*ssa.Parameter)
					if !ok || pa.Parent() != fn || (only != nil && pa != only) || ai >= len(g.Params) {
						continue
					}
					if !isByteSliceLike(pa.Type()) {
						continue
					}
					seen[g] = true
					lengthPrechecksOn(p, r, rule, name+" via "+shortName(g), g, minLen, fixedLen, g.Params[ai], depth+1)
				}
			}
		}
	}
	ff := p.Facts(fn)
	edgeOK := acceptingEdges(ff, fn)
	n := 0
	var probs []string
	for _, b := range fn.Blocks {
		if ff.dead[b] {
			continue
		}
		ifi, ok := b.Instrs[len(b.Instrs)-1].(*ssa.If)
		if !ok || len(b.Succs) != 2 {
			continue
		}
		ok0, ok1 := edgeOK(b, b.Succs[0]), edgeOK(b, b.Succs[1])
		if ok0 == ok1 {
			continue
		}
		rejectWhen := ok1 // condition value on the rejecting edge: true if Succs[0] (then) rejects
		_ = rejectWhen
		condTrueRejects := !ok0
		a := normCond(ifi.Cond, condTrueRejects)
		if a.Kind != Truth {
			continue
		}
		bo, isBo := a.V.(*ssa.BinOp)
		if !isBo {
			continue
		}
		op := bo.Op
		var k int64
		var okK bool
		if lp, isLen := lenOfParam(bo.X); isLen && (only == nil || lp == only) {
			k, okK = constIntOf(bo.Y)
		} else if lp, isLen := lenOfParam(bo.Y); isLen && (only == nil || lp == only) {
			k, okK = constIntOf(bo.X)
			// K op len  ==  len op' K
			switch op {
			case token.LSS:
				op = token.GTR
			case token.LEQ:
				op = token.GEQ
			case token.GTR:
				op = token.LSS
			case token.GEQ:
				op = token.LEQ
			}
		} else {
			continue
		}
		if !okK {
			continue
		}
		if !a.Pol { // rejects when NOT (len op K)
			switch op {
			case token.LSS:
				op = token.GEQ
			case token.LEQ:
				op = token.GTR
			case token.GTR:
				op = token.LEQ
			case token.GEQ:
				op = token.LSS
			case token.EQL:
				op = token.NEQ
			case token.NEQ:
				op = token.EQL
			}
		}
		n++
		// rejected lengths: {L : L op K}. A witness is a well-formed length in that set.
		witness := int64(-1)
		inSet := func(l int64) bool {
			switch op {
			case token.LSS:
				return l < k
			case token.LEQ:
				return l <= k
			case token.GTR:
				return l > k
			case token.GEQ:
				return l >= k
			case token.EQL:
				return l == k
			case token.NEQ:
				return l != k
			}
			return false
		}
		if fixedLen >= 0 {
			if inSet(fixedLen) {
				witness = fixedLen
			}
		} else if inSet(minLen) {
			witness = minLen
		} else if op == token.NEQ {
			witness = minLen // variable-length: some well-formed length differs from K
			if witness == k {
				witness = minLen + 1
			}
		}
		if witness >= 0 {
			probs = append(probs, fmt.Sprintf("%s: input refused when len %s %d, but a well-formed encoding of %d bytes exists", p.InstrPos(ifi), op, k, witness))
		}
	}
	want := fmt.Sprintf("shortest well-formed encoding %d bytes", minLen)
	if fixedLen >= 0 {
		want = fmt.Sprintf("every well-formed encoding is %d bytes", fixedLen)
	}
	if len(probs) > 0 {
		r.Fail(rule, name+": length-only rejections", p.Pos(fn.Pos()), joinSemi(probs)+" ("+want+")")
	} else {
		r.OK(rule, name+": length-only rejections", p.Pos(fn.Pos()), fmt.Sprintf("%d pure length tests on rejecting edges, none refuses a well-formed length (%s)", n, want))
	}
}

func joinSemi(xs []string) string {
	out := ""
	for i, x := range xs {
		if i > 0 {
			out += "; "
		}
		out += x
	}
	return out
}

// minLenOfReads: the shortest input a read sequence (layoutSpec.reads) accepts
// and whether that length is the only one.
func minLenOfReads(reads []string) (min int64, fixed bool) {
	fixed = true
	for _, rd := range reads {
		op := rd
		if i := indexOf(rd, "->"); i >= 0 {
			op = rd[:i]
		}
		switch {
		case op == "u8":
			min++
		case op == "u16":
			min += 2
		case op == "u32":
			min += 4
		case op == "lp8":
			min++
			fixed = false
		case op == "lp16":
			min += 2
			fixed = false
		case len(op) > 12 && op[:12] == "bytes[const:":
			var n int64
			fmt.Sscanf(op[12:], "%d", &n)
			min += n
		default:
			fixed = false
		}
	}
	return
}

func indexOf(s, sub string) int {
	for i := 0; i+len(sub) <= len(s); i++ {
		if s[i:i+len(sub)] == sub {
			return i
		}
	}
	return -1
}

// rootObj strips address arithmetic: the object an address / container value
// belongs to.
func rootObj(v ssa.Value) ssa.Value {
	for {
		switch x := v.(type) {
		case *ssa.IndexAddr:
			v = x.X
		case *ssa.FieldAddr:
			v = x.X
		case *ssa.Slice:
			v = x.X
		case *ssa.ChangeType:
			v = x.X
		case *ssa.Convert:
			v = x.X
		default:
			return v
		}
	}
}

// isInduction: header phi of loop l whose in-loop edges are all phi +/- const.
func isInduction(ph *ssa.Phi, l *Loop) bool {
	for i, e := range ph.Edges {
		if !l.Blocks[ph.Block().Preds[i]] {
			continue
		}
		bo, ok := e.(*ssa.BinOp)
		if !ok || (bo.Op != token.ADD && bo.Op != token.SUB) {
			return false
		}
		if bo.X != ssa.Value(ph) {
			return false
		}
		if _, ok := bo.Y.(*ssa.Const); !ok {
			return false
		}
	}
	return true
}

// loopCarried reports where the backward slice of v reads state written by
// another iteration of l. allowLoad exempts a load (e.g. the iteration's own slot).
func loopCarried(p *Prog, v ssa.Value, l *Loop, allowLoad func(addr ssa.Value) bool) string {
	seen := map[ssa.Value]bool{}
	writtenInLoop := func(root ssa.Value) ssa.Instruction {
		for b := range l.Blocks {
			for _, in := range b.Instrs {
				switch x := in.(type) {
				case *ssa.Store:
					if rootObj(x.Addr) == root {
						return in
					}
				case *ssa.MapUpdate:
					if rootObj(x.Map) == root {
						return in
					}
				}
			}
		}
		return nil
	}
	outside := func(root ssa.Value) bool {
		in, ok := root.(ssa.Instruction)
		if !ok {
			return true // parameter, global, free variable
		}
		return !l.Blocks[in.Block()]
	}
	var walk func(v ssa.Value) string
	walk = func(v ssa.Value) string {
		if v == nil || seen[v] {
			return ""
		}
		seen[v] = true
		switch x := v.(type) {
		case *ssa.Const, *ssa.Parameter, *ssa.Global, *ssa.FreeVar, *ssa.Function, *ssa.Builtin:
			return ""
		case *ssa.Phi:
			if x.Block() == l.Header {
				if isInduction(x, l) {
					return ""
				}
				return "a value carried from the previous iteration (" + x.Comment + ", " + p.Pos(x.Pos()) + ")"
			}
			for _, e := range x.Edges {
				if w := walk(e); w != "" {
					return w
				}
			}
			return ""
		case *ssa.Lookup:
			root := rootObj(x.X)
			if _, isStr := x.X.Type().Underlying().(*types.Basic); !isStr && outside(root) {
				if w := writtenInLoop(root); w != nil {
					return "a lookup at " + p.InstrPos(x) + " in a map that the loop itself updates at " + p.InstrPos(w)
				}
			}
		case *ssa.Call:
			if _, isB := x.Call.Value.(*ssa.Builtin); !isB {
				callee := x.Call.StaticCallee()
				for i, a := range x.Call.Args {
					root := rootObj(a)
					switch root.(type) {
					case *ssa.MakeMap, *ssa.MakeSlice, *ssa.Alloc:
					default:
						continue
					}
					if !outside(root) || (allowLoad != nil && allowLoad(a)) {
						continue
					}
					if w := writtenInLoop(root); w != nil {
						return "a container handed to the call at " + p.InstrPos(x) + " that the loop itself writes at " + p.InstrPos(w)
					}
					if callee != nil && callee.Blocks != nil && InModule(callee) && l.Blocks[x.Block()] {
						pi := i
						if x.Call.IsInvoke() {
							pi = i + 1
						}
						if pi < len(callee.Params) {
							for _, cb := range callee.Blocks {
								for _, cin := range cb.Instrs {
									switch y := cin.(type) {
									case *ssa.MapUpdate:
										if rootObj(y.Map) == ssa.Value(callee.Params[pi]) {
											return "a map allocated outside the loop that the call at " + p.InstrPos(x) + " updates (" + p.InstrPos(y) + ")"
										}
									case *ssa.Store:
										if rootObj(y.Addr) == ssa.Value(callee.Params[pi]) {
											return "storage allocated outside the loop that the call at " + p.InstrPos(x) + " writes (" + p.InstrPos(y) + ")"
										}
									}
								}
							}
						}
					}
				}
			}
		case *ssa.UnOp:
			if x.Op == token.MUL {
				if allowLoad != nil && allowLoad(x.X) {
					return ""
				}
				root := rootObj(x.X)
				if outside(root) {
					if w := writtenInLoop(root); w != nil {
						return "a load at " + p.InstrPos(x) + " from storage that the loop itself writes at " + p.InstrPos(w)
					}
				}
			}
		}
		in, ok := v.(ssa.Instruction)
		if !ok {
			return ""
		}
		for _, op := range in.Operands(nil) {
			if op == nil || *op == nil {
				continue
			}
			if w := walk(*op); w != "" {
				return w
			}
		}
		return ""
	}
	return walk(v)
}

// contentDep reports how value v depends on the BYTES of parameter src of fn
// (not merely on its length or nil-ness): a load of an element of src or of a
// slice/element derived from it; a library call that receives it (other than
// the ones in allow, judged by suffix of the callee's name); or an in-module
// call whose result depends on the bytes of the corresponding parameter.
// Returns "" when no such dependence exists on the slice examined.
func contentDep(p *Prog, v ssa.Value, src *ssa.Parameter, allow []string, depth int) string {
	derived := map[ssa.Value]bool{src: true}
	// forward closure: containers derived from src
	changed := true
	fn := src.Parent()
	for changed {
		changed = false
		for _, b := range fn.Blocks {
			for _, in := range b.Instrs {
				val, ok := in.(ssa.Value)
				if !ok || derived[val] {
					continue
				}
				mark := false
				switch x := in.(type) {
				case *ssa.Slice:
					mark = derived[x.X]
				case *ssa.IndexAddr:
					mark = derived[x.X]
				case *ssa.Index:
					mark = derived[x.X] && !isScalar(x.Type())
				case *ssa.UnOp:
					if x.Op == token.MUL {
						mark = derived[x.X] && !isScalar(x.Type())
					}
				case *ssa.ChangeType:
					mark = derived[x.X]
				case *ssa.Convert:
					mark = derived[x.X] && !isScalar(x.Type())
				case *ssa.Phi:
					for _, e := range x.Edges {
						if derived[e] {
							mark = true
						}
					}
				case *ssa.Range:
					mark = derived[x.X]
				case *ssa.Next:
					mark = derived[x.Iter]
				case *ssa.Extract:
					mark = derived[x.Tuple] && !isScalar(x.Type())
				}
				if mark {
					derived[val] = true
					changed = true
				}
			}
		}
	}
	seen := map[ssa.Value]bool{}
	var walk func(v ssa.Value) string
	walk = func(v ssa.Value) string {
		if v == nil || seen[v] {
			return ""
		}
		seen[v] = true
		switch x := v.(type) {
		case *ssa.Const, *ssa.Parameter, *ssa.Global, *ssa.FreeVar, *ssa.Function, *ssa.Builtin:
			return ""
		case *ssa.UnOp:
			if x.Op == token.MUL && derived[x.X] && isScalar(x.Type()) {
				return "the byte read at " + p.InstrPos(x)
			}
		case *ssa.Index:
			if derived[x.X] && isScalar(x.Type()) {
				return "the byte read at " + p.InstrPos(x)
			}
		case *ssa.Extract:
			if nx, ok := x.Tuple.(*ssa.Next); ok && derived[nx.Iter] && x.Index == 2 {
				return "the bytes ranged over at " + p.InstrPos(nx)
			}
		case *ssa.Call:
			if b, ok := x.Call.Value.(*ssa.Builtin); ok {
				if b.Name() == "len" || b.Name() == "cap" {
					return ""
				}
			}
			var args []ssa.Value
			args = append(args, x.Call.Args...)
			hasDerived := -1
			for i, a := range args {
				if derived[a] {
					hasDerived = i
				}
			}
			if x.Call.IsInvoke() && derived[x.Call.Value] {
				hasDerived = 0
			}
			if hasDerived >= 0 {
				name := calleeName(x.Common())
				for _, a := range allow {
					if strings.HasSuffix(name, a) {
						return ""
					}
				}
				callee := x.Call.StaticCallee()
				if callee == nil || callee.Blocks == nil || !InModule(callee) {
					return "the call " + shortCallee(name) + " at " + p.InstrPos(x) + ", which receives it"
				}
				if depth >= 3 {
					return "the call " + shortCallee(name) + " at " + p.InstrPos(x) + " (not followed further)"
				}
				for i, a := range args {
					if !derived[a] || i >= len(callee.Params) {
						continue
					}
					for _, cb := range callee.Blocks {
						ret, ok := cb.Instrs[len(cb.Instrs)-1].(*ssa.Return)
						if !ok {
							continue
						}
						for _, rv := range ret.Results {
							if w := contentDep(p, rv, callee.Params[i], allow, depth+1); w != "" {
								return w + " (in " + shortName(callee) + ")"
							}
						}
						// the verdict of the callee may also hang on a branch
						for _, cb2 := range callee.Blocks {
							if ifi, ok := cb2.Instrs[len(cb2.Instrs)-1].(*ssa.If); ok {
								if w := contentDep(p, ifi.Cond, callee.Params[i], allow, depth+1); w != "" {
									return w + " (in " + shortName(callee) + ")"
								}
							}
						}
					}
				}
				return ""
			}
		}
		in, ok := v.(ssa.Instruction)
		if !ok {
			return ""
		}
		for _, op := range in.Operands(nil) {
			if op == nil || *op == nil {
				continue
			}
			if w := walk(*op); w != "" {
				return w
			}
		}
		return ""
	}
	return walk(v)
}

func isScalar(t types.Type) bool {
	b, ok := t.Underlying().(*types.Basic)
	return ok && b.Info()&(types.IsInteger|types.IsBoolean) != 0
}

func shortCallee(n string) string {
	if i := strings.LastIndex(n, "/"); i >= 0 {
		return n[i+1:]
	}
	return n
}

// verdictIndependentOf: no rejecting edge of fn is decided by the bytes of
// parameter src. Returns the offending description, and the number of
// rejecting edges examined.
func verdictIndependentOf(p *Prog, fn *ssa.Function, src *ssa.Parameter, allow []string) (string, int) {
	ff := p.Facts(fn)
	edgeOK := acceptingEdges(ff, fn)
	n := 0
	for _, b := range fn.Blocks {
		if ff.dead[b] {
			continue
		}
		ifi, ok := b.Instrs[len(b.Instrs)-1].(*ssa.If)
		if !ok || len(b.Succs) != 2 {
			continue
		}
		if edgeOK(b, b.Succs[0]) == edgeOK(b, b.Succs[1]) {
			continue
		}
		n++
		if w := contentDep(p, ifi.Cond, src, allow, 0); w != "" {
			return "the rejection at " + p.InstrPos(ifi) + " depends on " + w, n
		}
	}
	return "", n
}
