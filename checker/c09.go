package main

// C09 - attester origin bookkeeping stays one-to-one over every request history.
//
// The checker decides the premises of the inductive invariant (DESIGN.md §4
// C09); the induction itself is the paper argument recorded there.

import (
	"fmt"
	"go/token"
	"strings"

	"golang.org/x/tools/go/ssa"
)

func init() { props["C09"] = c09 }

func clientStateField(v ssa.Value) (string, bool) {
	// v is a map value loaded from a field of type3.ClientState
	u, ok := v.(*ssa.UnOp)
	if !ok || u.Op != token.MUL {
		return "", false
	}
	fa, ok := u.X.(*ssa.FieldAddr)
	if !ok || !strings.HasSuffix(typeShort(deref(fa.X.Type())), "type3.ClientState") {
		return "", false
	}
	return fieldName(fa.X.Type(), fa.Field), true
}

func c09(p *Prog, r *Report) {
	r.Explanation = "Who-may-write, guard-shape and rejection-enumeration analysis of the 25 lines that realise the bookkeeping: (1) the per-client maps are updated only in FinalizeIndex, ClientState is created only in VerifyRequest, nothing deletes or replaces the maps (monotone state); (2) the only rejection that depends on the maps is dominated by ok && stored != presented over the same key/value terms as the single update, and every accepted call performs that update after the lookup; (3) every error return of FinalizeIndex is attributed to a decode failure, an unknown client or that conjunction, and no update precedes an error return; (4) the state consulted is the cache entry of the call's own client key. These are the premises of the invariant 'clientIndices is a function that never rebinds'."
	r.NotDecided = "the induction over histories itself (paper argument in DESIGN.md), the user-supplied ClientStateCache implementation, concurrent calls, distinctness of issuer origin IDs for distinct origins (C08)."
	r.Assumptions = append(r.Assumptions, "ClientStateCache.Get returns the state last Put under that id; calls are sequential")
	r.Trusted = append(r.Trusted, "go/types, go/ssa dominators", "term evaluator and fact extraction of this checker")

	const R1 = "C09.who-may-write-state"
	const R2 = "C09.guard-shape"
	const R3 = "C09.rejections-enumerated"
	const R4 = "C09.per-client-state"
	r.Rule(R1, "ClientState maps are updated only in FinalizeIndex; ClientState values are created only in VerifyRequest and registered (cache.Put) only behind its signature and blinded-key checks; no delete/clear/reassignment of the maps anywhere in the module", 5)
	r.Rule(R2, "the map-dependent rejection is dominated by ok && clientIndices[k] != v; the single update clientIndices[k] = v uses the same k and v, follows the lookup, is not on the rejecting path and dominates every success return", 4)
	r.Rule(R3, "every error return of FinalizeIndex is caused by a decode failure, cache miss (unknown client) or the guard of R2; no state update can precede an error return", 2)
	r.Rule(R4, "the state consulted and updated is cache.Get(hex(clientKey)) of the call's own clientKey argument", 1)

	fin := anchor(p, r, R2, nmAttFinal)
	ver := anchor(p, r, R1, nmAttVerify)
	if fin == nil || ver == nil {
		return
	}
	r.List("functions", shortName(fin))
	r.List("functions", shortName(ver))

	// ---- R5: the identifiers are compared as what they are
	const R5 = "C09.keys-are-injective-encodings"
	r.Rule(R5, "every key and value of the ClientState maps is hex.EncodeToString(x), a base64/base32 EncodeToString(x) or string(x) of the identifier - an injective encoding, so two identifiers are one entry only if they are equal (a fixed-size array filled by copy truncates or pads)", 1)
	{
		s := p.NewSym(fin)
		n, bad := 0, ""
		inj := func(v ssa.Value) bool {
			t := s.Of(v).String()
			return strings.HasPrefix(t, "call<encoding/hex.EncodeToString>(") || strings.HasPrefix(t, "conv<string>(") ||
				strings.HasPrefix(t, "call<(*encoding/base64.Encoding).EncodeToString>(") || strings.HasPrefix(t, "call<(*encoding/base32.Encoding).EncodeToString>(")
		}
		// in a helper of FinalizeIndex the key is judged at the call: the helper's
		// parameter must be handed an injective encoding by FinalizeIndex, its only caller
		injAt := func(f *ssa.Function, v ssa.Value) bool {
			if f == fin {
				return inj(v)
			}
			pa, ok := v.(*ssa.Parameter)
			if !ok || pa.Parent() != f {
				return false
			}
			k := -1
			for i, q := range f.Params {
				if q == pa {
					k = i
				}
			}
			sites := 0
			for _, g := range p.ModuleFuncs() {
				for _, b := range g.Blocks {
					for _, in := range b.Instrs {
						c, ok := in.(ssa.CallInstruction)
						if !ok || c.Common().StaticCallee() != f {
							continue
						}
						if g != fin || k < 0 || k >= len(c.Common().Args) || !inj(c.Common().Args[k]) {
							return false
						}
						sites++
					}
				}
			}
			return sites > 0
		}
		for _, f := range p.ModuleFuncs() {
			for _, b := range f.Blocks {
				for _, in := range b.Instrs {
					switch x := in.(type) {
					case *ssa.MapUpdate:
						if fld, ok := clientStateField(x.Map); ok {
							n++
							if !injAt(f, x.Key) || (isByteSliceOrString(x.Value.Type()) && !injAt(f, x.Value)) {
								bad = "ClientState." + fld + " entry at " + p.InstrPos(x) + " is keyed or valued by something other than hex.EncodeToString/string of the identifier"
							}
						}
					case *ssa.Lookup:
						if fld, ok := clientStateField(x.X); ok {
							n++
							if !injAt(f, x.Index) {
								bad = "ClientState." + fld + " looked up at " + p.InstrPos(x) + " by something other than hex.EncodeToString/string of the identifier"
							}
						}
					}
				}
			}
		}
		r.Check(n > 0 && bad == "", R5, "ClientState entries are keyed by injective encodings of the identifiers", p.Pos(fin.Pos()), fmt.Sprintf("%d map accesses, each by hex.EncodeToString/string of the identifier", n), firstNonEmpty(bad, "no ClientState map access found"))
	}

	// ---- R1: module-wide who-may-write
	var upd []ssa.Instruction
	badWrites := 0
	created := map[string]int{}
	for _, f := range p.ModuleFuncs() {
		for _, b := range f.Blocks {
			for _, in := range b.Instrs {
				switch in := in.(type) {
				case *ssa.MapUpdate:
					if fld, ok := clientStateField(in.Map); ok {
						root := f
						for root.Parent() != nil {
							root = root.Parent()
						}
						if root != fin && !p.onlyVia(root, map[*ssa.Function]bool{fin: true}) {
							badWrites++
							r.Fail(R1, shortName(f)+" updates ClientState."+fld, p.InstrPos(in), "ClientState map updated outside FinalizeIndex")
						} else {
							upd = append(upd, in)
						}
					}
				case *ssa.Store:
					if fa, ok := in.Addr.(*ssa.FieldAddr); ok && strings.HasSuffix(typeShort(deref(fa.X.Type())), "type3.ClientState") {
						// only initialisation of a freshly allocated ClientState is allowed
						if al, ok := fa.X.(*ssa.Alloc); ok {
							if _, isMake := in.Val.(*ssa.MakeMap); isMake {
								_ = al
								continue
							}
						}
						badWrites++
						r.Fail(R1, shortName(f)+" reassigns ClientState."+fieldName(fa.X.Type(), fa.Field), p.InstrPos(in), "a ClientState map field is replaced after construction (state no longer monotone)")
					}
				case *ssa.Alloc:
					if strings.HasSuffix(typeShort(deref(in.Type())), "type3.ClientState") {
						root := f
						for root.Parent() != nil {
							root = root.Parent()
						}
						if root != ver && p.onlyVia(root, map[*ssa.Function]bool{ver: true}) {
							root = ver // a constructor helper reachable only from VerifyRequest
						}
						created[shortName(root)]++
					}
				case ssa.CallInstruction:
					if b, ok := in.Common().Value.(*ssa.Builtin); ok && (b.Name() == "delete" || b.Name() == "clear") {
						if _, ok := clientStateField(in.Common().Args[0]); ok {
							badWrites++
							r.Fail(R1, shortName(f)+" "+b.Name()+"s a ClientState map", p.InstrPos(in), "bindings can be removed (state no longer monotone)")
						}
					}
				}
			}
		}
	}
	if badWrites == 0 {
		r.OK(R1, "ClientState maps updated only in FinalizeIndex; never deleted, cleared or replaced", p.Pos(fin.Pos()), fmt.Sprintf("%d map updates, all in FinalizeIndex", len(upd)))
	}
	okCreate := len(created) == 1 && created[shortName(ver)] > 0
	r.Check(okCreate, R1, "ClientState created only in VerifyRequest", p.Pos(ver.Pos()), fmt.Sprintf("creators: %v", created), fmt.Sprintf("ClientState values are created in %v; required: only VerifyRequest (behind its checks, C06)", created))
	// creation is behind cache miss and put
	puts := sitesIn(ver, func(n string) bool { return strings.HasSuffix(n, "ClientStateCache).Put") })
	sigReq, eqReq := attesterReqs()
	for i, site := range puts {
		d := fmt.Sprintf("cache.Put#%d", i)
		p.RequireBeforeSite(r, R1, ver, site, d, sigReq)
		p.RequireBeforeSite(r, R1, ver, site, d, eqReq)
	}
	r.Check(len(puts) >= 1, R1, "VerifyRequest registers the state with cache.Put", p.Pos(ver.Pos()), fmt.Sprintf("%d Put site(s)", len(puts)), "no cache.Put in VerifyRequest: a verified client is never registered, so every FinalizeIndex would refuse it")

	// ---- R2: guard shape in FinalizeIndex
	// which ClientState map is the binding map (anonymous issuer origin ID ->
	// anonymous origin ID) is decided by role, not by name: it is the one map
	// whose looked-up value feeds a branch condition
	bindingField := ""
	{
		cands := map[string]bool{}
		for _, in := range upd {
			f := in.Parent()
			for f.Parent() != nil {
				f = f.Parent()
			}
			if fld, ok := clientStateField(in.(*ssa.MapUpdate).Map); ok && mapReadForDecision(f, fld) {
				cands[fld] = true
			}
		}
		if len(cands) == 1 {
			for k := range cands {
				bindingField = k
			}
		}
	}
	if bindingField == "" {
		r.Fail(R2, "the binding map of ClientState", p.Pos(fin.Pos()), "no ClientState map (or more than one) has its looked-up value used in a decision: the collision check is missing or ambiguous")
		return
	}
	// the binding step is written in FinalizeIndex itself or in a helper that
	// only FinalizeIndex reaches; the guard-shape rules are evaluated where the
	// update is, with the helper's parameters bound to what FinalizeIndex passes
	fs := p.NewSym(fin)
	bf, s := fin, fs
	var callB *ssa.Call
	for _, in := range upd {
		root := in.Parent()
		for root.Parent() != nil {
			root = root.Parent()
		}
		if fld, _ := clientStateField(in.(*ssa.MapUpdate).Map); fld == bindingField && root != fin {
			for _, ds := range p.deepSites(fs, func(n string) bool { return n == shortName(root) }) {
				if c, ok := ds.Site.(*ssa.Call); ok && c.Parent() == fin {
					bf, callB = root, c
					s = fs.child(root)
					for i, prm := range root.Params {
						if i < len(c.Call.Args) {
							s.params[prm] = fs.Of(c.Call.Args[i])
						}
					}
				}
			}
		}
	}
	ff := s.ff
	var lookup *ssa.Lookup
	var update *ssa.MapUpdate
	nUpd := 0
	for _, in := range upd {
		mu := in.(*ssa.MapUpdate)
		if fld, _ := clientStateField(mu.Map); fld == bindingField {
			update = mu
			nUpd++
		}
	}
	for _, b := range bf.Blocks {
		for _, in := range b.Instrs {
			if lk, ok := in.(*ssa.Lookup); ok && lk.CommaOk {
				if fld, ok := clientStateField(lk.X); ok && fld == bindingField {
					lookup = lk
				}
			}
		}
	}
	if lookup == nil || update == nil || nUpd != 1 {
		r.Fail(R2, "FinalizeIndex: one lookup and one update of clientIndices", p.Pos(fin.Pos()), fmt.Sprintf("found lookup=%v updates=%d; the rule expects exactly one comma-ok lookup and one update of clientIndices", lookup != nil, nUpd))
		return
	}
	kL, kU := s.Of(lookup.Index).String(), s.Of(update.Key).String()
	vU := s.Of(update.Value).String()
	mL, mU := s.Of(lookup.X).String(), s.Of(update.Map).String()
	r.Check(kL == kU && mL == mU, R2, "update and lookup use the same map and key", p.InstrPos(update), "key "+clip(kU, 160), "lookup reads "+clip(mL, 120)+"["+clip(kL, 200)+"] but update writes "+clip(mU, 120)+"["+clip(kU, 200)+"]")
	r.Check(dominates(lookup, update), R2, "lookup precedes the update", p.InstrPos(update), "lookup dominates update", "the update is not dominated by the lookup: a binding can be overwritten before it is consulted")

	// rejecting return: facts ok=true and w != v
	rps := ff.RetPoints(verdictIndex(bf))
	var guardRets []*RetPoint
	for i := range rps {
		rp := &rps[i]
		if rp.Outcome != Fails {
			continue
		}
		hasOK, hasNE := false, false
		for _, a := range rp.Facts {
			if a.Kind != Truth {
				continue
			}
			if ex, ok := a.V.(*ssa.Extract); ok && ex.Tuple == ssa.Value(lookup) && ex.Index == 1 && a.Pol {
				hasOK = true
			}
			if b, ok := a.V.(*ssa.BinOp); ok && (b.Op == token.NEQ || b.Op == token.EQL) {
				ne := (b.Op == token.NEQ && a.Pol) || (b.Op == token.EQL && !a.Pol)
				x, y := b.X, b.Y
				if isLookupVal(y, lookup) {
					x, y = y, x
				}
				if ne && isLookupVal(x, lookup) && s.Of(y).String() == vU {
					hasNE = true
				}
			}
		}
		if hasOK && hasNE {
			guardRets = append(guardRets, rp)
		}
	}
	r.Check(len(guardRets) == 1, R2, "rejection dominated by ok && stored != presented (same value as the update)", p.Pos(fin.Pos()),
		"one error return is dominated by ok=true and clientIndices[k] != v with v = "+clip(vU, 120),
		fmt.Sprintf("%d error returns are dominated by the conjunction ok && clientIndices[k] != v (v = the value the update stores, %s); expected exactly 1: the collision check is missing, weakened or compares another value", len(guardRets), clip(vU, 120)))
	for _, g := range guardRets {
		r.Check(!reaches(update, g.Ret) && !update.Block().Dominates(g.Ret.Block()), R2, "update not on the rejecting path", p.InstrPos(update), "the update cannot precede the rejection", "the update can execute before the rejecting return: a rejected call changes bindings")
	}
	// update dominates every success return
	nS, nDom := 0, 0
	for i := range rps {
		if rps[i].Outcome == Fails {
			continue
		}
		nS++
		if dominates(update, rps[i].Ret) {
			nDom++
			continue
		}
		// or the binding is already the presented one: ok && stored == presented
		hasOK, hasEQ := false, false
		for _, a := range rps[i].Facts {
			if a.Kind != Truth {
				continue
			}
			if ex, ok := a.V.(*ssa.Extract); ok && ex.Tuple == ssa.Value(lookup) && ex.Index == 1 && a.Pol {
				hasOK = true
			}
			if b, ok := a.V.(*ssa.BinOp); ok && (b.Op == token.NEQ || b.Op == token.EQL) {
				eq := (b.Op == token.EQL && a.Pol) || (b.Op == token.NEQ && !a.Pol)
				x, y := b.X, b.Y
				if isLookupVal(y, lookup) {
					x, y = y, x
				}
				if eq && isLookupVal(x, lookup) && s.Of(y).String() == vU {
					hasEQ = true
				}
			}
		}
		if hasOK && hasEQ && !reaches(update, rps[i].Ret) {
			nDom++
		}
	}
	r.Check(nS > 0 && nS == nDom, R2, "every accepted call performs the update", p.InstrPos(update), fmt.Sprintf("%d/%d success returns are dominated by the update or by ok && stored == presented", nDom, nS), fmt.Sprintf("update dominates only %d of %d success returns: an accepted pair may be left unbound", nDom, nS))

	if callB != nil {
		// the helper's verdict is FinalizeIndex's: success only behind its success,
		// and the helper has no error return other than the guarded one
		p.RequireOnSuccess(r, R2, fin, CallReq{Desc: "binding step " + shortName(bf) + " ok", Callee: shortName(bf)})
		nFail := 0
		for i := range rps {
			if rps[i].Outcome == Fails {
				nFail++
			}
		}
		r.Check(nFail == len(guardRets), R2, shortName(bf)+": every rejection is the collision guard", p.Pos(bf.Pos()), fmt.Sprintf("%d rejecting return(s)", nFail), fmt.Sprintf("%d rejecting returns but %d are the guard ok && stored != presented", nFail, len(guardRets)))
		rps = fs.ff.RetPoints(verdictIndex(fin))
		s = fs
	}
	// ---- R3: classify error returns by their nearest guard
	allowedErr := map[string]bool{
		"tokens/type3.unmarshalPublicKey":     true,
		"ecdsa.CreateKey":                     true,
		"ecdsa.UnblindPublicKeyWithContext":   true,
		"tokens/type3.computeIndex":           true,
		"io.ReadFull":                         true,
		"crypto/elliptic.UnmarshalCompressed": true,
	}
	nErr := 0
	for i := range rps {
		rp := &rps[i]
		if rp.Outcome != Fails {
			continue
		}
		nErr++
		key := fmt.Sprintf("FinalizeIndex error return #%d", nErr)
		if len(rp.Facts) == 0 {
			r.Fail(R3, key, p.Pos(rp.Ret.Pos()), "unconditional error return")
			continue
		}
		near := rp.Facts[0]
		why := ""
		if c, ok, succ := callOfAtom(near); ok && !succ {
			n := calleeName(c.Common())
			if allowedErr[n] {
				why = "decode/derivation failure of " + n
			} else if callB != nil && c == callB {
				why = "collision guard ok && stored != presented (in " + shortName(bf) + ")"
			} else if strings.HasSuffix(n, "ClientStateCache).Get") {
				why = "unknown client (cache miss)"
			}
		}
		if why == "" {
			for _, g := range guardRets {
				if g.Ret == rp.Ret {
					why = "collision guard ok && stored != presented"
				}
			}
		}
		if why == "" {
			r.Fail(R3, key, p.Pos(rp.Ret.Pos()), "error return caused by "+clip(s.Of(near.V).String(), 200)+fmt.Sprintf(" (=%v), which is neither a decode failure, an unknown client nor the collision guard: a repeat of an accepted pair or an unbound pair may be rejected", near.Pol))
			continue
		}
		// no map update may precede this return
		pre := false
		if callB != nil && reaches(callB, rp.Ret) && !strings.HasPrefix(why, "collision guard") {
			pre = true
			r.Fail(R3, key+": no prior update", p.InstrPos(callB), "the binding step can execute before the error return at "+p.Pos(rp.Ret.Pos())+": a rejected call alters state")
		}
		for _, u := range upd {
			if u.Parent() != fin || !reaches(u, rp.Ret) {
				continue
			}
			// an insert-if-absent into a map no decision reads does not alter
			// any accepted binding
			mu := u.(*ssa.MapUpdate)
			if fld, _ := clientStateField(mu.Map); fld != bindingField && insertIfAbsent(s, mu) && !mapReadForDecision(fin, fld) {
				r.Note("update of ClientState.%s at %s precedes an error return but only inserts an absent key into a map that no guard reads", fld, p.InstrPos(u))
				continue
			}
			pre = true
			r.Fail(R3, key+": no prior update", p.InstrPos(u), "a ClientState update can execute before the error return at "+p.Pos(rp.Ret.Pos())+": a rejected call alters state")
		}
		if !pre {
			r.OK(R3, key, p.Pos(rp.Ret.Pos()), why+"; no state update can precede it")
		}
	}

	// ---- R4: state is the cache entry of the call's own client key
	bsym := fs
	if callB != nil {
		bsym = fs.child(bf)
		for i, prm := range bf.Params {
			if i < len(callB.Call.Args) {
				bsym.params[prm] = fs.Of(callB.Call.Args[i])
			}
		}
	}
	st := bsym.pointeeName(lookup.X.(*ssa.UnOp).X.(*ssa.FieldAddr).X)
	wantSt := "extract<0>(call<(tokens/type3.ClientStateCache).Get>(param:0.cache, call<encoding/hex.EncodeToString>(param:1)))"
	r.Check(st == wantSt, R4, "state = cache.Get(hex(clientKey))", p.InstrPos(lookup), "state consulted is "+wantSt, "state consulted is "+clip(st, 300)+", required "+wantSt)
	// and the success path is dominated by Get ok=true
	p.RequireOnSuccess(r, R4, fin, CallReq{Desc: "cache.Get(hex(clientKey)) ok", Callee: "(tokens/type3.ClientStateCache).Get", Check: func(t *Term) string {
		return want("client id", arg(t, 1), "call<encoding/hex.EncodeToString>(param:1)")
	}})
}

func isLookupVal(v ssa.Value, lk *ssa.Lookup) bool {
	ex, ok := v.(*ssa.Extract)
	return ok && ex.Tuple == ssa.Value(lk) && ex.Index == 0
}

// insertIfAbsent: the update m[k] = v is dominated by ok=false of a comma-ok
// lookup m[k] on the same map and key.
func insertIfAbsent(s *Sym, mu *ssa.MapUpdate) bool {
	for _, a := range s.ff.At(mu.Block()) {
		if a.Kind != Truth || a.Pol {
			continue
		}
		ex, ok := a.V.(*ssa.Extract)
		if !ok || ex.Index != 1 {
			continue
		}
		lk, ok := ex.Tuple.(*ssa.Lookup)
		if !ok || !lk.CommaOk {
			continue
		}
		if s.Of(lk.X).String() == s.Of(mu.Map).String() && s.Of(lk.Index).String() == s.Of(mu.Key).String() {
			return true
		}
	}
	return false
}

// mapReadForDecision: is the value (not just presence-for-insert) of the
// ClientState map field used in any branch condition of fn.
func mapReadForDecision(fn *ssa.Function, fld string) bool {
	for _, b := range fn.Blocks {
		for _, in := range b.Instrs {
			lk, ok := in.(*ssa.Lookup)
			if !ok {
				continue
			}
			if f, ok := clientStateField(lk.X); !ok || f != fld {
				continue
			}
			// any use of the looked-up value (index 0) is a read for a decision
			for _, ref := range *lk.Referrers() {
				if ex, ok := ref.(*ssa.Extract); ok && ex.Index == 0 && len(*ex.Referrers()) > 0 {
					return true
				}
				if _, ok := ref.(*ssa.Extract); !ok {
					return true
				}
			}
		}
	}
	return false
}
