package main

// Field roles: rule patterns name unexported struct fields (param:0.suite,
// .nameKey, ...). A field may be renamed without any change of behaviour; when
// a field named in the patterns no longer exists in its struct but the struct
// has exactly one field of the type that field had on the reference tree, the
// patterns are read with the new name. The table was generated from the
// reference tree (patcheck -dump @fields) and lists only fields whose type is
// unique within their struct.

import (
	"fmt"
	"go/types"
	"sort"
	"strings"
)

type fieldRole struct {
	typ   string // struct, module-relative: tokens/type3.EncapKey
	field string
	ftype string
}

// fieldCanon maps "struct type.actual field name" to the reference name of
// that field, for fields that were renamed.
var fieldCanon = map[string]string{}

// moduleStructs lists the named struct types of the module.
func (p *Prog) moduleStructs() map[string]*types.Struct {
	out := map[string]*types.Struct{}
	for _, pk := range p.Pkgs {
		if !strings.HasPrefix(pk.PkgPath, modPath) {
			continue
		}
		sc := pk.Types.Scope()
		for _, n := range sc.Names() {
			tn, ok := sc.Lookup(n).(*types.TypeName)
			if !ok {
				continue
			}
			if st, ok := tn.Type().Underlying().(*types.Struct); ok {
				out[strings.TrimPrefix(pk.PkgPath, modPath+"/")+"."+n] = st
			}
		}
	}
	return out
}

func dumpFields(p *Prog) {
	structs := p.moduleStructs()
	var names []string
	for n := range structs {
		names = append(names, n)
	}
	sort.Strings(names)
	for _, n := range names {
		st := structs[n]
		count := map[string]int{}
		for i := 0; i < st.NumFields(); i++ {
			count[st.Field(i).Type().String()]++
		}
		for i := 0; i < st.NumFields(); i++ {
			f := st.Field(i)
			if f.Exported() || count[f.Type().String()] != 1 {
				continue
			}
			fmt.Printf("\t{%q, %q, %q},\n", n, f.Name(), f.Type().String())
		}
	}
}

// computeFieldRenames fills fieldCanon for the loaded tree.
func (p *Prog) computeFieldRenames() {
	fieldCanon = map[string]string{}
	structs := p.moduleStructs()
	for _, role := range fieldRoles {
		st, ok := structs[role.typ]
		if !ok {
			continue
		}
		has := false
		var cands []string
		for i := 0; i < st.NumFields(); i++ {
			f := st.Field(i)
			if f.Name() == role.field {
				has = true
			}
			if f.Type().String() == role.ftype {
				cands = append(cands, f.Name())
			}
		}
		if has || len(cands) != 1 {
			continue
		}
		fieldCanon[role.typ+"."+cands[0]] = role.field
	}
}
