package main

// Obligations, evidence files, known findings, exit status.

import (
	"encoding/json"
	"fmt"
	"os"
	"path/filepath"
	"sort"
	"strings"
	"time"
)

type Status string

const (
	Discharged Status = "discharged"
	Violated   Status = "violated"
	Undecided  Status = "undecided"
)

// Ob is one proof obligation of one rule. Key identifies the construct by
// resolved identity (function, callee, field, ordinal) - never by line.
type Ob struct {
	Rule   string `json:"rule"`
	Key    string `json:"key"`
	Pos    string `json:"pos,omitempty"`
	Status Status `json:"status"`
	Detail string `json:"detail,omitempty"`
	Config string `json:"config,omitempty"`
}

type RuleInfo struct {
	Name     string `json:"rule"`
	Text     string `json:"text"`
	Expected int    `json:"expected_min_instances"`
	Found    int    `json:"instances"`
}

type Report struct {
	Prop        string
	Tier        string
	Obs         []Ob
	Rules       map[string]*RuleInfo
	ruleOrder   []string
	Notes       []string
	Assumptions []string
	Trusted     []string
	Analysed    map[string]int // counters: packages, functions, call sites...
	Lists       map[string][]string
	Explanation string
	NotDecided  string
	start       time.Time
	curConfig   string
}

func NewReport(prop, tier string) *Report {
	return &Report{Prop: prop, Tier: tier, Rules: map[string]*RuleInfo{}, Analysed: map[string]int{}, Lists: map[string][]string{}, start: time.Now()}
}

// Rule declares a rule with its text and the number of instances confirmed by
// hand on the reference tree. Fewer instances than that fails the check.
func (r *Report) Rule(name, text string, expectedMin int) {
	if _, ok := r.Rules[name]; ok {
		return
	}
	r.Rules[name] = &RuleInfo{Name: name, Text: text, Expected: expectedMin}
	r.ruleOrder = append(r.ruleOrder, name)
}

func (r *Report) add(rule, key, pos string, st Status, detail string) {
	if _, ok := r.Rules[rule]; !ok {
		panic("undeclared rule " + rule)
	}
	r.Obs = append(r.Obs, Ob{Rule: rule, Key: key, Pos: pos, Status: st, Detail: detail, Config: r.curConfig})
}

func (r *Report) OK(rule, key, pos, detail string)   { r.add(rule, key, pos, Discharged, detail) }
func (r *Report) Fail(rule, key, pos, detail string) { r.add(rule, key, pos, Violated, detail) }
func (r *Report) Undecided(rule, key, pos, detail string) {
	r.add(rule, key, pos, Undecided, detail)
}
func (r *Report) Check(cond bool, rule, key, pos, okDetail, failDetail string) bool {
	if cond {
		r.OK(rule, key, pos, okDetail)
	} else {
		r.Fail(rule, key, pos, failDetail)
	}
	return cond
}
func (r *Report) Note(format string, a ...any) { r.Notes = append(r.Notes, fmt.Sprintf(format, a...)) }
func (r *Report) Count(k string, n int)        { r.Analysed[k] += n }
func (r *Report) List(k, v string)             { r.Lists[k] = append(r.Lists[k], v) }

type KnownFinding struct {
	Property string `json:"property"`
	Rule     string `json:"rule"`
	Key      string `json:"key"`
	What     string `json:"what"`
}
type FixedFinding struct {
	Property string `json:"property"`
	Commit   string `json:"commit"`
	What     string `json:"what"`
	Line     string `json:"line"`
}
type KnownFile struct {
	Comment string         `json:"comment"`
	Known   []KnownFinding `json:"known_findings"`
	Fixed   []FixedFinding `json:"fixed"`
}

func loadKnown(path string) (*KnownFile, error) {
	var kf KnownFile
	b, err := os.ReadFile(path)
	if err != nil {
		if os.IsNotExist(err) {
			return &kf, nil
		}
		return nil, err
	}
	if err := json.Unmarshal(b, &kf); err != nil {
		return nil, err
	}
	return &kf, nil
}

// Finish writes the evidence file, prints the report and returns the exit code.
func (r *Report) Finish(evidencePath, knownPath string, seed int) int {
	// instance counts per rule and non-vacuity
	for _, o := range r.Obs {
		r.Rules[o.Rule].Found++
	}
	// de-duplicate (same rule+key+config) keeping the worst status
	rank := map[Status]int{Discharged: 0, Undecided: 1, Violated: 2}
	idx := map[string]int{}
	var obs []Ob
	for _, o := range r.Obs {
		k := o.Rule + "\x00" + o.Key + "\x00" + o.Config
		if i, ok := idx[k]; ok {
			if rank[o.Status] > rank[obs[i].Status] {
				obs[i] = o
			}
			continue
		}
		idx[k] = len(obs)
		obs = append(obs, o)
	}
	r.Obs = obs
	for _, ri := range r.Rules {
		ri.Found = 0
	}
	for _, o := range r.Obs {
		if o.Config == "" || o.Config == r.firstConfig() {
			r.Rules[o.Rule].Found++
		}
	}
	kf, err := loadKnown(knownPath)
	if err != nil {
		fmt.Printf("patcheck: cannot read %s: %v\n", knownPath, err)
		return 2
	}
	known := map[string]KnownFinding{}
	for _, k := range kf.Known {
		if k.Property == r.Prop {
			known[k.Rule+"\x00"+k.Key] = k
		}
	}

	var failures []string
	nDis, nKnown := 0, 0
	for _, o := range r.Obs {
		switch o.Status {
		case Discharged:
			nDis++
		default:
			if k, ok := known[o.Rule+"\x00"+o.Key]; ok && o.Status == Violated {
				fmt.Printf("KNOWN-FINDING: property=%s %s [%s %s]\n", r.Prop, k.What, o.Rule, o.Key)
				nKnown++
				continue
			}
			cfg := ""
			if o.Config != "" {
				cfg = " (" + o.Config + ")"
			}
			failures = append(failures, fmt.Sprintf("%s: [%s] %s - %s: %s%s", o.Pos, o.Rule, o.Key, o.Status, o.Detail, cfg))
		}
	}
	for _, name := range r.ruleOrder {
		ri := r.Rules[name]
		if ri.Found < ri.Expected {
			failures = append(failures, fmt.Sprintf("-: [%s] rule matched %d instances < %d confirmed by hand (rule no longer sees the constructs it was written for)", name, ri.Found, ri.Expected))
		}
	}
	sort.Strings(failures)

	// evidence
	type sample struct {
		Rule   string `json:"rule"`
		Key    string `json:"key"`
		Pos    string `json:"pos"`
		Status Status `json:"status"`
		Detail string `json:"detail,omitempty"`
		Config string `json:"config,omitempty"`
	}
	var samples []sample
	perRule := map[string]int{}
	limit := 6
	if r.Tier == "thorough" {
		limit = 1 << 30
	}
	for _, o := range r.Obs {
		if o.Status != Discharged || perRule[o.Rule] < limit {
			perRule[o.Rule]++
			samples = append(samples, sample{o.Rule, o.Key, o.Pos, o.Status, o.Detail, o.Config})
		}
	}
	var rules []*RuleInfo
	for _, n := range r.ruleOrder {
		rules = append(rules, r.Rules[n])
	}
	lists := map[string]any{}
	for k, v := range r.Lists {
		sort.Strings(v)
		v = uniq(v)
		if r.Tier != "thorough" && len(v) > 40 {
			lists[k] = map[string]any{"count": len(v), "first": v[:40]}
		} else {
			lists[k] = v
		}
	}
	cov := map[string]any{
		"explanation":         r.Explanation,
		"not_decided":         r.NotDecided,
		"obligations":         len(r.Obs),
		"discharged":          nDis,
		"known_findings":      nKnown,
		"rules":               rules,
		"samples":             samples,
		"analysed":            r.Analysed,
		"lists":               lists,
		"notes":               r.Notes,
		"trusted_base":        r.Trusted,
		"checker_cmd":         strings.Join(os.Args, " "),
		"failures":            failures,
		"evaluations":         len(r.Obs),
		"distinct_nontrivial": len(r.Obs),
		"rule":                "one evaluation per obligation (rule + resolved construct); all are distinct by key",
	}
	ev := map[string]any{
		"property_id": r.Prop,
		"tier":        r.Tier,
		"seed":        seed,
		"level":       "other",
		"coverage":    cov,
		"assumptions": r.Assumptions,
		"wall_s":      time.Since(r.start).Seconds(),
		"violations":  len(failures),
	}
	if evidencePath != "" {
		os.MkdirAll(filepath.Dir(evidencePath), 0o755)
		b, _ := json.MarshalIndent(ev, "", " ")
		if err := os.WriteFile(evidencePath, append(b, '\n'), 0o644); err != nil {
			fmt.Printf("patcheck: cannot write evidence: %v\n", err)
			return 2
		}
	}

	fmt.Printf("patcheck %s tier=%s: %d obligations, %d discharged, %d known findings, %d failures (%.1fs)\n",
		r.Prop, r.Tier, len(r.Obs), nDis, nKnown, len(failures), time.Since(r.start).Seconds())
	for _, n := range r.ruleOrder {
		ri := r.Rules[n]
		fmt.Printf("  rule %-28s instances=%d (min %d)\n", ri.Name, ri.Found, ri.Expected)
	}
	if len(failures) == 0 {
		return 0
	}
	replay := strings.TrimSuffix(evidencePath, ".json") + ".replay.txt"
	if evidencePath == "" {
		replay = "/dev/null"
	}
	var sb strings.Builder
	fmt.Fprintf(&sb, "property %s: %d failing obligations (static analysis: the 'replay' is the construct and path)\n", r.Prop, len(failures))
	for _, f := range failures {
		fmt.Println(f)
		sb.WriteString(f + "\n")
	}
	if evidencePath != "" {
		os.WriteFile(replay, []byte(sb.String()), 0o644)
	}
	fmt.Printf("VIOLATION property=%s replay=%s\n", r.Prop, replay)
	return 1
}

func (r *Report) firstConfig() string {
	for _, o := range r.Obs {
		return o.Config
	}
	return ""
}

func uniq(v []string) []string {
	var out []string
	for i, s := range v {
		if i == 0 || s != v[i-1] {
			out = append(out, s)
		}
	}
	return out
}
