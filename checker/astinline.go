package main

// Syntax-level look-through of one-expression helpers for the ordered
// embedding of reference statements: `w := euclidInverse(s, N)` where the
// fork declares `func euclidInverse(k, N *big.Int) *big.Int { return
// new(big.Int).ModInverse(k, N) }` is also offered to the matcher as
// `w := new(big.Int).ModInverse(s, N)`. Only helpers whose body is a single
// return of a single expression are looked through, and only when every
// parameter is used as a plain identifier.

import (
	"go/ast"
)

// astHelpers: the fork's package-level functions, set by the caller of
// embedsInOrder for the duration of one comparison.
var astHelpers map[string]*ast.FuncDecl

func substExpr(e ast.Expr, sub map[string]ast.Expr) (ast.Expr, bool) {
	switch x := e.(type) {
	case nil:
		return nil, true
	case *ast.Ident:
		if r, ok := sub[x.Name]; ok {
			return r, true
		}
		return x, true
	case *ast.BasicLit:
		return x, true
	case *ast.ParenExpr:
		a, ok := substExpr(x.X, sub)
		return &ast.ParenExpr{X: a}, ok
	case *ast.StarExpr:
		a, ok := substExpr(x.X, sub)
		return &ast.StarExpr{X: a}, ok
	case *ast.UnaryExpr:
		a, ok := substExpr(x.X, sub)
		return &ast.UnaryExpr{Op: x.Op, X: a}, ok
	case *ast.BinaryExpr:
		a, ok1 := substExpr(x.X, sub)
		b, ok2 := substExpr(x.Y, sub)
		return &ast.BinaryExpr{X: a, Op: x.Op, Y: b}, ok1 && ok2
	case *ast.SelectorExpr:
		a, ok := substExpr(x.X, sub)
		return &ast.SelectorExpr{X: a, Sel: x.Sel}, ok
	case *ast.IndexExpr:
		a, ok1 := substExpr(x.X, sub)
		b, ok2 := substExpr(x.Index, sub)
		return &ast.IndexExpr{X: a, Index: b}, ok1 && ok2
	case *ast.CallExpr:
		f, ok := substExpr(x.Fun, sub)
		if !ok {
			return nil, false
		}
		out := &ast.CallExpr{Fun: f, Ellipsis: x.Ellipsis}
		for _, a := range x.Args {
			b, ok := substExpr(a, sub)
			if !ok {
				return nil, false
			}
			out.Args = append(out.Args, b)
		}
		return out, true
	}
	return nil, false
}

// lookThrough: for `lhs := F(args)` / `lhs = F(args)` with F a one-expression
// helper, the same assignment with F's expression in place of the call.
func lookThrough(s ast.Stmt) ast.Stmt {
	as, ok := s.(*ast.AssignStmt)
	if !ok || len(as.Rhs) != 1 || astHelpers == nil {
		return nil
	}
	call, ok := as.Rhs[0].(*ast.CallExpr)
	if !ok {
		return nil
	}
	id, ok := call.Fun.(*ast.Ident)
	if !ok {
		return nil
	}
	fd := astHelpers[id.Name]
	if fd == nil || fd.Recv != nil || fd.Body == nil || len(fd.Body.List) != 1 || fd.Type.Params == nil {
		return nil
	}
	ret, ok := fd.Body.List[0].(*ast.ReturnStmt)
	if !ok || len(ret.Results) != 1 {
		return nil
	}
	var names []string
	for _, f := range fd.Type.Params.List {
		for _, n := range f.Names {
			names = append(names, n.Name)
		}
	}
	if len(names) != len(call.Args) {
		return nil
	}
	sub := map[string]ast.Expr{}
	for i, n := range names {
		sub[n] = call.Args[i]
	}
	e, ok := substExpr(ret.Results[0], sub)
	if !ok {
		return nil
	}
	return &ast.AssignStmt{Lhs: as.Lhs, Tok: as.Tok, Rhs: []ast.Expr{e}}
}
