package main

// Syntax-level look-through of one-expression helpers for the ordered
// embedding of reference statements: `w := euclidInverse(s, N)` where the
// fork declares `func euclidInverse(k, N *big.Int) *big.Int { return
// new(big.Int).ModInverse(k, N) }` is also offered to the matcher as
// `w := new(big.Int).ModInverse(s, N)`. Only helpers whose body is a single
// return of a single expression are looked through, and only when every
// parameter is used as a plain identifier.

import (
	"go/ast"
)

// astHelpers: the fork's package-level functions, set by the caller of
// embedsInOrder for the duration of one comparison.
var astHelpers map[string]*ast.FuncDecl

func substExpr(e ast.Expr, sub map[string]ast.Expr) (ast.Expr, bool) {
	switch x := e.(type) {
	case nil:
		return nil, true
	case *ast.Ident:
		if r, ok := sub[x.Name]; ok {
			return r, true
		}
		return x, true
	case *ast.BasicLit:
		return x, true
	case *ast.ParenExpr:
		a, ok := substExpr(x.X, sub)
		return &ast.ParenExpr{X: a}, ok
	case *ast.StarExpr:
		a, ok := substExpr(x.X, sub)
		return &ast.StarExpr{X: a}, ok
	case *ast.UnaryExpr:
		a, ok := substExpr(x.X, sub)
		return &ast.UnaryExpr{Op: x.Op, X: a}, ok
	case *ast.BinaryExpr:
		a, ok1 := substExpr(x.X, sub)
		b, ok2 := substExpr(x.Y, sub)
		return &ast.BinaryExpr{X: a, Op: x.Op, Y: b}, ok1 && ok2
	case *ast.SelectorExpr:
		a, ok := substExpr(x.X, sub)
		return &ast.SelectorExpr{X: a, Sel: x.Sel}, ok
	case *ast.IndexExpr:
		a, ok1 := substExpr(x.X, sub)
		b, ok2 := substExpr(x.Index, sub)
		return &ast.IndexExpr{X: a, Index: b}, ok1 && ok2
	case *ast.CallExpr:
		f, ok := substExpr(x.Fun, sub)
		if !ok {
			return nil, false
		}
		out := &ast.CallExpr{Fun: f, Ellipsis: x.Ellipsis}
		for _, a := range x.Args {
			b, ok := substExpr(a, sub)
			if !ok {
				return nil, false
			}
			out.Args = append(out.Args, b)
		}
		return out, true
	}
	return nil, false
}

// lookThrough: for `lhs := F(args)` / `lhs = F(args)` with F a one-expression
// helper, the same assignment with F's expression in place of the call.
func lookThrough(s ast.Stmt) ast.Stmt {
	as, ok := s.(*ast.AssignStmt)
	if !ok || len(as.Rhs) != 1 || astHelpers == nil {
		return nil
	}
	call, ok := as.Rhs[0].(*ast.CallExpr)
	if !ok {
		return nil
	}
	id, ok := call.Fun.(*ast.Ident)
	if !ok {
		return nil
	}
	fd := astHelpers[id.Name]
	if fd == nil || fd.Recv != nil || fd.Body == nil || len(fd.Body.List) != 1 || fd.Type.Params == nil {
		return nil
	}
	ret, ok := fd.Body.List[0].(*ast.ReturnStmt)
	if !ok || len(ret.Results) != 1 {
		return nil
	}
	var names []string
	for _, f := range fd.Type.Params.List {
		for _, n := range f.Names {
			names = append(names, n.Name)
		}
	}
	if len(names) != len(call.Args) {
		return nil
	}
	sub := map[string]ast.Expr{}
	for i, n := range names {
		sub[n] = call.Args[i]
	}
	e, ok := substExpr(ret.Results[0], sub)
	if !ok {
		return nil
	}
	return &ast.AssignStmt{Lhs: as.Lhs, Tok: as.Tok, Rhs: []ast.Expr{e}}
}

// bigIntInPlace: math/big methods that set their receiver and return it, so
// `x.Mod(x, N).Cmp(r)` is `x.Mod(x, N); x.Cmp(r)`.
var bigIntInPlace = map[string]bool{"Mod": true, "Add": true, "Sub": true, "Mul": true, "Set": true, "Neg": true, "Lsh": true, "Rsh": true}

// unchain: a statement that uses the result of an in-place big.Int method
// directly (`return x.Mod(x, N).Cmp(r) == 0`) is also offered as the two
// statements it abbreviates: the in-place call, then the statement with the
// call replaced by its receiver. Only a chain on a plain identifier receiver,
// and only one per statement.
func unchain(s ast.Stmt) (first, second ast.Stmt) {
	var inner *ast.CallExpr
	ast.Inspect(s, func(n ast.Node) bool {
		if inner != nil {
			return false
		}
		outer, ok := n.(*ast.CallExpr)
		if !ok {
			return true
		}
		sel, ok := outer.Fun.(*ast.SelectorExpr)
		if !ok {
			return true
		}
		c, ok := sel.X.(*ast.CallExpr)
		if !ok {
			return true
		}
		isel, ok := c.Fun.(*ast.SelectorExpr)
		if !ok || !bigIntInPlace[isel.Sel.Name] {
			return true
		}
		if _, ok := isel.X.(*ast.Ident); !ok {
			return true
		}
		inner = c
		return false
	})
	if inner == nil {
		return nil, nil
	}
	recv := inner.Fun.(*ast.SelectorExpr).X
	var rewrite func(e ast.Expr) ast.Expr
	rewrite = func(e ast.Expr) ast.Expr {
		switch x := e.(type) {
		case *ast.CallExpr:
			if x == inner {
				return recv
			}
			out := &ast.CallExpr{Fun: rewrite(x.Fun), Ellipsis: x.Ellipsis}
			for _, a := range x.Args {
				out.Args = append(out.Args, rewrite(a))
			}
			return out
		case *ast.SelectorExpr:
			return &ast.SelectorExpr{X: rewrite(x.X), Sel: x.Sel}
		case *ast.BinaryExpr:
			return &ast.BinaryExpr{X: rewrite(x.X), Op: x.Op, Y: rewrite(x.Y)}
		case *ast.UnaryExpr:
			return &ast.UnaryExpr{Op: x.Op, X: rewrite(x.X)}
		case *ast.ParenExpr:
			return &ast.ParenExpr{X: rewrite(x.X)}
		}
		return e
	}
	switch x := s.(type) {
	case *ast.ReturnStmt:
		out := &ast.ReturnStmt{}
		for _, r := range x.Results {
			out.Results = append(out.Results, rewrite(r))
		}
		second = out
	case *ast.ExprStmt:
		second = &ast.ExprStmt{X: rewrite(x.X)}
	case *ast.AssignStmt:
		out := &ast.AssignStmt{Lhs: x.Lhs, Tok: x.Tok}
		for _, r := range x.Rhs {
			out.Rhs = append(out.Rhs, rewrite(r))
		}
		second = out
	default:
		return nil, nil
	}
	return &ast.ExprStmt{X: inner}, second
}
