package main

// E3 (and the binding half of E2): symbolic terms for SSA values.
//
// A Term is a canonical tree describing how a value is computed from the
// parameters of the function under analysis: field selections, calls with
// resolved callees, byte-string layouts produced by cryptobyte.Builder /
// append / hash.Write sequences, slices and lengths. Two values with equal
// canonical strings are computed the same way. Opaque values print as a
// unique name of the SSA value, so they are only equal to themselves.

import (
	"fmt"
	"go/constant"
	"go/token"
	"go/types"
	"math/big"
	"sort"
	"strings"

	"golang.org/x/tools/go/ssa"
)

type Term struct {
	Op   string
	Name string
	Args []*Term
	Src  ssa.Value
	Site ssa.Instruction
	str  string
}

func T(op, name string, args ...*Term) *Term { return &Term{Op: op, Name: name, Args: args} }

func (t *Term) String() string {
	if t == nil {
		return "<nil>"
	}
	if t.str != "" {
		return t.str
	}
	var sb strings.Builder
	switch t.Op {
	case "param", "const", "lit", "opaque", "global", "zero", "fn":
		sb.WriteString(t.Op + ":" + t.Name)
	case "field":
		sb.WriteString(t.Args[0].String() + "." + t.Name)
	default:
		sb.WriteString(t.Op)
		if t.Name != "" {
			sb.WriteString("<" + t.Name + ">")
		}
		sb.WriteString("(")
		for i, a := range t.Args {
			if i > 0 {
				sb.WriteString(", ")
			}
			sb.WriteString(a.String())
		}
		sb.WriteString(")")
	}
	t.str = sb.String()
	return t.str
}

// Walk visits t and all sub-terms.
func (t *Term) Walk(f func(*Term) bool) {
	if t == nil || !f(t) {
		return
	}
	for _, a := range t.Args {
		a.Walk(f)
	}
}

func (t *Term) Contains(pred func(*Term) bool) bool {
	found := false
	t.Walk(func(x *Term) bool {
		if found {
			return false
		}
		if pred(x) {
			found = true
			return false
		}
		return true
	})
	return found
}

func (t *Term) ContainsStr(s string) bool {
	return strings.Contains(t.String(), s)
}

// HasOpaque reports whether the term contains values the evaluator could not
// describe (which makes "equal" comparisons unreliable only in the sense of
// being identity comparisons on SSA values).
func (t *Term) HasUnknown() bool {
	return t.Contains(func(x *Term) bool { return x.Op == "unknown" })
}

// Sym is a symbolic evaluator bound to one function activation.
type Sym struct {
	prog   *Prog
	fn     *ssa.Function
	params map[*ssa.Parameter]*Term // substitution (nil = identity)
	free   map[*ssa.FreeVar]*Term
	memo   map[ssa.Value]*Term
	depth  int
	stack  []*ssa.Function // inlining stack
	ff     *FuncFacts
	// InlineSamePkg also inlines value-producing helpers of the crypto forks
	// when the root function is in the same package.
	InlineSamePkg bool
	noInline      map[*ssa.Function]bool
	pointees      map[*ssa.Parameter]*Term // content of the object a pointer parameter designates, as seen at the call
	inBufferCat   bool
	keepSlots     bool // rules that reason about a slot slice itself: do not forward slot contents
	inSumAcc      map[*ssa.Phi]bool
	inLoopAcc     map[*ssa.Phi]bool
	// for closure bodies: the evaluator of the enclosing activation and the
	// MakeClosure instruction, to resolve captured locals
	outer   *Sym
	outerAt ssa.Instruction
	// names of the caller's objects that pointer parameters designate (reader
	// helpers evaluated in the caller's vocabulary)
	dstNames map[*ssa.Parameter]string
	ptrNames map[*ssa.Parameter]string
}

func (p *Prog) NewSym(fn *ssa.Function) *Sym {
	return &Sym{prog: p, fn: fn, memo: map[ssa.Value]*Term{}, ff: p.Facts(fn), stack: []*ssa.Function{fn}}
}

func (s *Sym) child(fn *ssa.Function) *Sym {
	c := &Sym{prog: s.prog, fn: fn, memo: map[ssa.Value]*Term{}, ff: s.prog.Facts(fn), InlineSamePkg: s.InlineSamePkg, noInline: s.noInline}
	c.stack = append(append([]*ssa.Function(nil), s.stack...), fn)
	c.params = map[*ssa.Parameter]*Term{}
	c.free = map[*ssa.FreeVar]*Term{}
	return c
}

const maxSymDepth = 60

func (s *Sym) opaque(v ssa.Value) *Term {
	name := v.Name()
	if v.Parent() != nil {
		name = shortName(v.Parent()) + "#" + name
	}
	return &Term{Op: "opaque", Name: name, Src: v}
}

func constTerm(c *ssa.Const) *Term {
	if c.Value == nil {
		return &Term{Op: "const", Name: "nil", Src: c}
	}
	if c.Value.Kind() == constant.String {
		return &Term{Op: "lit", Name: fmt.Sprintf("%q", constant.StringVal(c.Value)), Src: c}
	}
	return &Term{Op: "const", Name: c.Value.ExactString(), Src: c}
}

// Of evaluates v.
func (s *Sym) Of(v ssa.Value) *Term {
	if t, ok := s.memo[v]; ok {
		if t == nil {
			return s.opaque(v) // cycle
		}
		return t
	}
	if s.depth > maxSymDepth {
		return s.opaque(v)
	}
	s.memo[v] = nil
	s.depth++
	t := s.eval(v)
	s.depth--
	if t.Src == nil {
		t.Src = v
	}
	s.memo[v] = t
	return t
}

func (s *Sym) eval(v ssa.Value) *Term {
	switch v := v.(type) {
	case *ssa.Const:
		return constTerm(v)
	case *ssa.Parameter:
		if s.params != nil {
			if t, ok := s.params[v]; ok {
				return t
			}
		}
		for i, p := range v.Parent().Params {
			if p == v {
				return &Term{Op: "param", Name: fmt.Sprintf("%d", i), Src: v}
			}
		}
	case *ssa.FreeVar:
		if s.free != nil {
			if t, ok := s.free[v]; ok {
				return t
			}
		}
		return s.opaque(v)
	case *ssa.Global:
		return &Term{Op: "global", Name: v.RelString(nil), Src: v}
	case *ssa.Function:
		return &Term{Op: "fn", Name: v.RelString(nil), Src: v}
	case *ssa.Builtin:
		return &Term{Op: "fn", Name: "builtin." + v.Name(), Src: v}
	case *ssa.ChangeType:
		return s.Of(v.X)
	case *ssa.ChangeInterface:
		return s.Of(v.X)
	case *ssa.MakeInterface:
		return s.Of(v.X)
	case *ssa.Convert:
		return s.evalConvert(v)
	case *ssa.SliceToArrayPointer:
		return s.Of(v.X)
	case *ssa.UnOp:
		switch v.Op {
		case token.MUL:
			return s.load(v)
		case token.NOT:
			return T("not", "", s.Of(v.X))
		case token.SUB:
			return T("neg", "", s.Of(v.X))
		}
		return T("un", v.Op.String(), s.Of(v.X))
	case *ssa.BinOp:
		x, y := s.Of(v.X), s.Of(v.Y)
		switch v.Op {
		case token.ADD, token.MUL, token.AND, token.OR, token.XOR, token.EQL, token.NEQ:
			if !isStringType(v.X.Type()) && x.String() > y.String() {
				x, y = y, x // commutative: canonical order
			}
		}
		return T("bin", v.Op.String(), x, y)
	case *ssa.Field:
		x := s.Of(v.X)
		fname := fieldName(v.X.Type(), v.Field)
		if x.Op == "struct" {
			if f := structField(x, fname); f != nil {
				return f
			}
			return &Term{Op: "zero", Name: v.Type().String()}
		}
		return mkField(fname, x)
	case *ssa.FieldAddr:
		x := s.Of(v.X)
		return T("fieldaddr", fieldName(deref(v.X.Type()), v.Field), x)
	case *ssa.IndexAddr:
		return T("indexaddr", "", s.Of(v.X), s.Of(v.Index))
	case *ssa.Index:
		return T("index", "", s.Of(v.X), s.Of(v.Index))
	case *ssa.Lookup:
		return T("lookup", "", s.Of(v.X), s.Of(v.Index))
	case *ssa.Slice:
		return s.evalSlice(v)
	case *ssa.Extract:
		tup := s.Of(v.Tuple)
		if tup.Op == "tuple" && v.Index < len(tup.Args) {
			return tup.Args[v.Index]
		}
		return T("extract", fmt.Sprintf("%d", v.Index), tup)
	case *ssa.Phi:
		if t := s.loopAccumulator(v); t != nil {
			return t
		}
		if t := s.sumAccumulator(v); t != nil {
			return t
		}
		if e := s.decidedEdge(v); e != nil {
			return s.Of(e)
		}
		var args []*Term
		same := true
		for _, e := range v.Edges {
			a := s.Of(e)
			if len(args) > 0 && a.String() != args[0].String() {
				same = false
			}
			args = append(args, a)
		}
		if same && len(args) > 0 && args[0].Op != "opaque" {
			return args[0]
		}
		return s.opaque(v)
	case *ssa.Alloc:
		if lit := s.allocLiteral(v); lit != nil {
			return lit
		}
		return T("alloc", v.Name()+"@"+shortName(v.Parent()))
	case *ssa.MakeSlice:
		return s.evalMake(v)
	case *ssa.MakeMap:
		return T("makemap", v.Name()+"@"+shortName(v.Parent()))
	case *ssa.MakeClosure:
		return &Term{Op: "closure", Name: v.Fn.(*ssa.Function).RelString(nil), Src: v}
	case *ssa.TypeAssert:
		return s.Of(v.X)
	case *ssa.Call:
		return s.evalCall(v)
	}
	return s.opaque(v)
}

func isStringType(t types.Type) bool {
	b, ok := t.Underlying().(*types.Basic)
	return ok && b.Info()&types.IsString != 0
}

func deref(t types.Type) types.Type {
	if p, ok := t.Underlying().(*types.Pointer); ok {
		return p.Elem()
	}
	return t
}

func fieldName(t types.Type, i int) string {
	if st, ok := deref(t).Underlying().(*types.Struct); ok && i < st.NumFields() {
		n := st.Field(i).Name()
		// a renamed field is called by its reference name (see fieldroles.go)
		if len(fieldCanon) > 0 {
			if c, ok := fieldCanon[typeShort(deref(t))+"."+n]; ok {
				return c
			}
		}
		return n
	}
	return fmt.Sprintf("f%d", i)
}

func structField(st *Term, name string) *Term {
	for _, a := range st.Args {
		if a.Op == "kv" && a.Name == name {
			return a.Args[0]
		}
	}
	return nil
}

func (s *Sym) evalConvert(v *ssa.Convert) *Term {
	x := s.Of(v.X)
	from, to := v.X.Type().Underlying(), v.Type().Underlying()
	// []byte <-> string and named byte-slice types: transparent
	if isByteSliceOrString(from) && isByteSliceOrString(to) {
		return x
	}
	fb, ok1 := from.(*types.Basic)
	tb, ok2 := to.(*types.Basic)
	if ok1 && ok2 && fb.Info()&types.IsInteger != 0 && tb.Info()&types.IsInteger != 0 {
		if x.Op == "const" {
			return x
		}
		return T("conv", tb.Name(), x)
	}
	return T("conv", v.Type().String(), x)
}

func isByteSliceOrString(t types.Type) bool {
	switch t := t.(type) {
	case *types.Basic:
		return t.Info()&types.IsString != 0
	case *types.Slice:
		b, ok := t.Elem().Underlying().(*types.Basic)
		return ok && b.Kind() == types.Byte
	}
	return false
}

func (s *Sym) evalSlice(v *ssa.Slice) *Term {
	// x[:] of a local array initialised element-wise with constants: literal
	if v.Low == nil && v.High == nil {
		if al, ok := v.X.(*ssa.Alloc); ok {
			if t := s.arrayFilledThroughViews(al, v); t != nil {
				return t
			}
			if lit := s.arrayLiteral(al, v); lit != nil {
				return lit
			}
		}
	}
	// s[:] / s[:n] of a local zeroed array that is only ever filled through
	// this slice: a fresh buffer (go/ssa lowers make([]T, const) to this)
	if al, ok := v.X.(*ssa.Alloc); ok && v.Low == nil && v.Max == nil {
		if arr, ok := deref(al.Type()).Underlying().(*types.Array); ok && len(*al.Referrers()) == 1 {
			ln := T("const", fmt.Sprintf("%d", arr.Len()))
			if v.High != nil {
				ln = s.Of(v.High)
			}
			return s.bufferTerm(v, ln)
		}
	}
	x := s.Of(v.X)
	lo, hi := T("const", "nil"), T("const", "nil")
	if v.Low != nil {
		lo = s.Of(v.Low)
	}
	if v.High != nil {
		hi = s.Of(v.High)
	}
	if v.Low == nil && v.High == nil && v.Max == nil {
		// x[:] of an array pointer / whole value
		if _, isPtr := v.X.Type().Underlying().(*types.Pointer); isPtr {
			if al, isAl := v.X.(*ssa.Alloc); isAl && x.Op == "alloc" {
				// content of the local array
				return s.loadAlloc(al, v)
			}
		}
		return x
	}
	if lo.Op == "const" && (lo.Name == "nil" || lo.Name == "0") {
		lo = T("const", "0")
	}
	if _, isPtr := v.X.Type().Underlying().(*types.Pointer); isPtr && x.Op == "alloc" {
		if al, isAl := v.X.(*ssa.Alloc); isAl {
			x = s.loadAlloc(al, v)
		}
	}
	return T("slice", "", x, lo, hi)
}

// flowsToReturn: some result of fn is (a view of) the object root.
func flowsToReturn(fn *ssa.Function, root ssa.Value) bool {
	for _, b := range fn.Blocks {
		for _, in := range b.Instrs {
			ret, ok := in.(*ssa.Return)
			if !ok {
				continue
			}
			for _, v := range ret.Results {
				if rootObj(resolveCell(v)) == root {
					return true
				}
				// a cell that is not resolvable: any store of a view of root into it
				if ld, ok := v.(*ssa.UnOp); ok && ld.Op == token.MUL {
					if cell, ok := ld.X.(*ssa.Alloc); ok {
						for _, r := range *cell.Referrers() {
							if st, ok := r.(*ssa.Store); ok && st.Addr == ssa.Value(cell) && rootObj(st.Val) == root {
								return true
							}
						}
					}
				}
			}
		}
	}
	return false
}

// viewWriter: instruction u may write the bytes of slice view `view`.
func viewWriter(u ssa.Instruction, view ssa.Value) bool {
	if d, ok := u.(*ssa.Defer); ok {
		// a deferred wipe runs when the function returns, after every read the
		// function's own body makes
		if b, ok := d.Call.Value.(*ssa.Builtin); ok && b.Name() == "clear" && !flowsToReturn(d.Parent(), rootObj(view)) {
			return false
		}
	}
	switch x := u.(type) {
	case ssa.CallInstruction:
		cc := x.Common()
		if b, ok := cc.Value.(*ssa.Builtin); ok {
			return b.Name() == "copy" && cc.Args[0] == view || b.Name() == "clear"
		}
		for _, a := range cc.Args {
			if a == view && fillerCallee(calleeName(cc)) {
				return true
			}
		}
		if strings.HasSuffix(calleeName(cc), "(hash.Hash).Sum") {
			return true
		}
	case *ssa.IndexAddr:
		for _, uu := range *x.Referrers() {
			if st, ok := uu.(*ssa.Store); ok && st.Addr == ssa.Value(x) {
				return true
			}
		}
	}
	return false
}

// arrayFilledThroughViews: var buf [N]byte; F(..., buf[:]) ...; buf[:] - a
// local byte array written only by ONE filler call through a full view, read
// at `at` through another (or the same) full view after that call: the same
// fresh buffer make(N, fill) the make([]byte, N) form yields.
func (s *Sym) arrayFilledThroughViews(al *ssa.Alloc, at *ssa.Slice) *Term {
	arr, ok := deref(al.Type()).Underlying().(*types.Array)
	if !ok {
		return nil
	}
	if b, ok := arr.Elem().Underlying().(*types.Basic); !ok || b.Kind() != types.Byte {
		return nil
	}
	var filler ssa.CallInstruction
	var fview *ssa.Slice
	for _, r := range *al.Referrers() {
		switch x := r.(type) {
		case *ssa.DebugRef:
		case *ssa.Slice:
			if x.Low != nil || x.Max != nil {
				return nil
			}
			if x.High != nil {
				if c, ok := x.High.(*ssa.Const); !ok || c.Value == nil || c.Int64() != arr.Len() {
					return nil
				}
			}
			for _, u := range *x.Referrers() {
				if !viewWriter(u, x) {
					continue
				}
				ci, isCall := u.(ssa.CallInstruction)
				if !isCall || filler != nil {
					return nil
				}
				cc := ci.Common()
				if b, isB := cc.Value.(*ssa.Builtin); isB && b.Name() != "copy" {
					return nil // clear(...)
				}
				if strings.HasSuffix(calleeName(cc), "(hash.Hash).Sum") {
					return nil // handled by the digest rule
				}
				filler, fview = ci, x
			}
		default:
			return nil // element stores, address taken otherwise
		}
	}
	if filler == nil || !dominates(filler, at) {
		return nil
	}
	ln := T("const", fmt.Sprintf("%d", arr.Len()))
	cc := filler.Common()
	if b, isB := cc.Value.(*ssa.Builtin); isB && b.Name() == "copy" {
		return T("make", "", ln, T("copy", "", s.Of(cc.Args[1])))
	}
	var args []*Term
	if cc.IsInvoke() {
		args = append(args, s.Of(cc.Value))
	}
	for _, a := range cc.Args {
		if a == ssa.Value(fview) {
			args = append(args, T("const", "dst"))
		} else {
			args = append(args, s.Of(a))
		}
	}
	return canonBigBytes(T("make", "", ln, &Term{Op: "fill", Name: calleeName(cc), Args: args, Site: filler}))
}

// arrayLiteral recognises `t = new [n]byte; t[i] = c_i ...; t[:]`, which is
// how go/ssa builds []byte{...} and the variadic tail of append(x, a, b).
func (s *Sym) arrayLiteral(al *ssa.Alloc, at ssa.Instruction) *Term {
	arr, ok := deref(al.Type()).Underlying().(*types.Array)
	if !ok {
		return nil
	}
	n := int(arr.Len())
	if n > 64 {
		return nil
	}
	elems := make([]*Term, n)
	for _, r := range *al.Referrers() {
		switch r := r.(type) {
		case *ssa.IndexAddr:
			c, ok := r.Index.(*ssa.Const)
			if !ok {
				return nil
			}
			i := int(c.Int64())
			for _, rr := range *r.Referrers() {
				st, ok := rr.(*ssa.Store)
				if !ok || st.Addr != r {
					return nil
				}
				if elems[i] != nil {
					return nil
				}
				elems[i] = s.objAt(st.Val, st)
			}
		case *ssa.Slice:
			// a view handed to something that may fill it: not a literal
			for _, u := range *r.Referrers() {
				if viewWriter(u, r) {
					return nil
				}
			}
		case *ssa.DebugRef:
		default:
			return nil
		}
	}
	for i := range elems {
		if elems[i] == nil {
			elems[i] = T("const", "0")
		}
	}
	if b, ok := arr.Elem().Underlying().(*types.Basic); !ok || b.Kind() != types.Byte {
		return &Term{Op: "list", Args: elems}
	}
	if n == 0 {
		return T("cat", "")
	}
	var parts []*Term
	for _, e := range elems {
		parts = append(parts, T("u8", "", e))
	}
	return catTerms(parts...)
}

// catTerms builds a flattened concatenation.
func catTerms(parts ...*Term) *Term {
	var flat []*Term
	for _, p := range parts {
		if p == nil {
			continue
		}
		if p.Op == "cat" {
			flat = append(flat, p.Args...)
		} else if p.Op == "const" && p.Name == "nil" {
			// nil slice contributes nothing
		} else if p.Op == "make" && len(p.Args) == 1 && p.Args[0].String() == "const:0" {
			// make([]byte, 0, n): an empty buffer contributes nothing
		} else {
			flat = append(flat, p)
		}
	}
	if len(flat) == 1 {
		return flat[0]
	}
	return &Term{Op: "cat", Args: flat}
}

// ---- memory ----

// aliasesOf: SSA values that are the same pointer as alloc a: a itself and
// loads of spill cells whose only stored value is a.
func aliasesOf(a *ssa.Alloc) []ssa.Value {
	out := []ssa.Value{a}
	for _, r := range *a.Referrers() {
		st, ok := r.(*ssa.Store)
		if !ok || st.Val != a {
			continue
		}
		cell, ok := st.Addr.(*ssa.Alloc)
		if !ok {
			continue
		}
		n := 0
		for _, cr := range *cell.Referrers() {
			if cs, ok := cr.(*ssa.Store); ok && cs.Addr == cell {
				n++
			}
		}
		if n != 1 {
			continue
		}
		for _, cr := range *cell.Referrers() {
			if ld, ok := cr.(*ssa.UnOp); ok && ld.Op == token.MUL && ld.X == cell {
				out = append(out, ld)
			}
		}
	}
	return out
}

// defsOf lists the instructions that may define the content of alloc a:
// stores to it, and calls receiving its address (directly or through a spill).
func defsOf(a *ssa.Alloc) (defs []ssa.Instruction, fieldStores bool) {
	var viewDefs []ssa.CallInstruction
	for _, al := range aliasesOf(a) {
		refs := al.Referrers()
		if refs == nil {
			continue
		}
		for _, r := range *refs {
			switch r := r.(type) {
			case *ssa.Store:
				if r.Addr == al {
					defs = append(defs, r)
				}
			case ssa.CallInstruction:
				if !readOnlyCall(r) {
					defs = append(defs, r)
				}
			case *ssa.FieldAddr, *ssa.IndexAddr:
				fieldStores = true
			case *ssa.Slice:
				// a view of the local array handed to a call that may fill it
				if rr := r.Referrers(); rr != nil {
					for _, u := range *rr {
						if c, ok := u.(ssa.CallInstruction); ok && !readOnlyCall(c) {
							if b, isB := c.Common().Value.(*ssa.Builtin); isB && (b.Name() == "len" || b.Name() == "cap") {
								continue
							}
							if b, isB := c.Common().Value.(*ssa.Builtin); isB && b.Name() == "copy" && len(c.Common().Args) == 2 && c.Common().Args[0] != ssa.Value(r) {
								continue // copy source only
							}
							if b, isB := c.Common().Value.(*ssa.Builtin); isB && b.Name() == "append" && len(c.Common().Args) >= 2 && c.Common().Args[0] != ssa.Value(r) {
								continue // appended from, not to
							}
							viewDefs = append(viewDefs, c)
						}
					}
				}
			}
		}
	}
	// view fillers count as definitions only for arrays no other rule describes
	// (buffers built by make/append keep their existing treatment)
	if len(defs) == 0 && !fieldStores {
		for _, c := range viewDefs {
			if strings.HasSuffix(calleeName(c.Common()), "(hash.Hash).Sum") {
				defs = append(defs, c)
			}
		}
	}
	return
}

// readOnlyCall: calls known not to write through their pointer arguments.
func readOnlyCall(c ssa.CallInstruction) bool {
	cc := c.Common()
	if b, ok := cc.Value.(*ssa.Builtin); ok {
		switch b.Name() {
		case "len", "cap", "print", "println":
			return true
		}
		return false
	}
	if f := cc.StaticCallee(); f != nil {
		switch f.Name() {
		case "Type", "TruncatedTokenKeyID", "Equal", "Equals":
			return InModule(f)
		}
		// computed: an in-module callee that neither stores through, nor lets
		// escape, any of the pointers it receives
		if InModule(f) && f.Blocks != nil {
			for i, a := range cc.Args {
				if _, isPtr := a.Type().Underlying().(*types.Pointer); isPtr {
					if i >= len(f.Params) || !paramShallowReadOnly(f, i, 0) {
						return false
					}
				}
			}
			return true
		}
	}
	return false
}

func paramIndex(v *ssa.Parameter) int {
	for i, p := range v.Parent().Params {
		if p == v {
			return i
		}
	}
	return -1
}

// paramShallowReadOnly: the function never stores to the object its idx-th
// (pointer) parameter designates - neither to the object nor to a field or
// element address derived from it - and does not let the pointer escape
// (stored, returned, converted to an interface, handed to a callee that is not
// itself shallow-read-only). Writes to memory reached through values *loaded*
// from the object (the bytes of a slice field) are not writes to the object.
var shallowROMemo = map[[2]interface{}]int{}

func paramShallowReadOnly(f *ssa.Function, idx int, depth int) bool {
	if idx < 0 || idx >= len(f.Params) || f.Blocks == nil {
		return false
	}
	key := [2]interface{}{f, idx}
	switch shallowROMemo[key] {
	case 1:
		return true
	case 2:
		return false
	case 3:
		return true // in progress (recursion): optimistic, resolved by the outer call
	}
	if depth > 5 {
		return false
	}
	shallowROMemo[key] = 3
	ok := addrReadOnly(f.Params[idx], depth, map[ssa.Value]bool{})
	if ok {
		shallowROMemo[key] = 1
	} else {
		shallowROMemo[key] = 2
	}
	return ok
}

func addrReadOnly(v ssa.Value, depth int, seen map[ssa.Value]bool) bool {
	if seen[v] {
		return true
	}
	seen[v] = true
	refs := v.Referrers()
	if refs == nil {
		return true
	}
	for _, r := range *refs {
		switch x := r.(type) {
		case *ssa.DebugRef:
		case *ssa.UnOp:
			// load through the address: fine
		case *ssa.FieldAddr:
			if !addrReadOnly(x, depth, seen) {
				return false
			}
		case *ssa.IndexAddr:
			if x.X == v {
				if _, isSlice := v.Type().Underlying().(*types.Slice); !isSlice {
					if !addrReadOnly(x, depth, seen) {
						return false
					}
				}
			}
		case *ssa.Store:
			if x.Val == v && x.Addr != v {
				// spilled into a local cell (captured by a closure): follow the
				// cell's loads, here and in the closures that capture it
				if cell, ok := x.Addr.(*ssa.Alloc); ok && cellReadOnly(cell, x, depth, seen) {
					continue
				}
			}
			return false // written through, or the address is stored somewhere
		case *ssa.BinOp:
			// comparison
		case *ssa.Phi, *ssa.ChangeType:
			if !addrReadOnly(x.(ssa.Value), depth, seen) {
				return false
			}
		case *ssa.If:
		case ssa.CallInstruction:
			cc := x.Common()
			if b, ok := cc.Value.(*ssa.Builtin); ok {
				switch b.Name() {
				case "len", "cap", "print", "println":
					continue
				}
				return false
			}
			g := cc.StaticCallee()
			if g == nil || !InModule(g) || g.Blocks == nil {
				return false
			}
			for i, a := range cc.Args {
				if a == v && !paramShallowReadOnly(g, i, depth+1) {
					return false
				}
			}
			if _, isGo := x.(*ssa.Go); isGo {
				return false
			}
		default:
			return false
		}
	}
	return true
}

// bindArgs binds the callee's parameters in the child evaluator to the terms
// of the caller's arguments; for pointer arguments it also records the content
// of the designated object as seen at the call, so that fields read through
// the parameter are named the way the caller names them.
func (s *Sym) bindArgs(ch *Sym, f *ssa.Function, args []ssa.Value, at ssa.Instruction) {
	for i, prm := range f.Params {
		if i >= len(args) {
			break
		}
		ch.params[prm] = s.Of(args[i])
		if _, isPtr := args[i].Type().Underlying().(*types.Pointer); isPtr && at != nil {
			if _, isStruct := deref(args[i].Type()).Underlying().(*types.Struct); isStruct {
				pt := s.pointeeAt(args[i], at)
				if pt != nil && pt.String() != ch.params[prm].String() {
					if ch.pointees == nil {
						ch.pointees = map[*ssa.Parameter]*Term{}
					}
					ch.pointees[prm] = pt
				}
			}
		}
	}
}

// closestDominating picks, among defs, the one that dominates `at` and is
// dominated by every other def that dominates `at`. It fails (nil) when a
// def that does not dominate `at` may still reach it.
func closestDominating(defs []ssa.Instruction, at ssa.Instruction) ssa.Instruction {
	var best ssa.Instruction
	for _, d := range defs {
		if d == at {
			continue
		}
		if dominates(d, at) {
			if best == nil || dominates(best, d) {
				best = d
			}
		} else if reaches(d, at) {
			return nil
		}
	}
	return best
}

// reaches: is there a CFG path from instruction a to instruction b.
func reaches(a, b ssa.Instruction) bool {
	ba, bb := a.Block(), b.Block()
	if ba == bb {
		// same block: a before b, or via a cycle
		for _, in := range ba.Instrs {
			if in == a {
				return true
			}
			if in == b {
				break
			}
		}
	}
	seen := map[*ssa.BasicBlock]bool{}
	work := append([]*ssa.BasicBlock(nil), ba.Succs...)
	for len(work) > 0 {
		x := work[len(work)-1]
		work = work[:len(work)-1]
		if seen[x] {
			continue
		}
		seen[x] = true
		if x == bb {
			return true
		}
		work = append(work, x.Succs...)
	}
	return false
}

func (s *Sym) load(v *ssa.UnOp) *Term {
	switch a := v.X.(type) {
	case *ssa.Alloc:
		return s.loadAlloc(a, v)
	case *ssa.FieldAddr:
		return s.loadField(a, v)
	case *ssa.Global:
		return T("load", "", s.Of(a))
	case *ssa.FreeVar:
		// captured variable: the cell in the enclosing activation
		if s.free != nil {
			if t, ok := s.free[a]; ok {
				if t.Op == "cell" {
					return t.Args[0]
				}
				return T("load", "", t)
			}
		}
		return T("load", "", s.opaque(a))
	case *ssa.IndexAddr:
		if t := s.slotForward(a, v); t != nil {
			return t
		}
		return T("index", "", s.Of(a.X), s.Of(a.Index))
	}
	// *p for a pointer parameter whose designated object the caller described
	if prm := spilledParam(v.X); prm != nil {
		for o := s; o != nil; o = o.outer {
			if t, ok := o.pointees[prm]; ok && paramShallowReadOnly(prm.Parent(), paramIndex(prm), 0) {
				return t
			}
		}
	}
	return T("load", "", s.Of(v.X))
}

// loadAlloc resolves the content of a local variable at instruction `at`.
func (s *Sym) loadAlloc(a *ssa.Alloc, at ssa.Instruction) *Term {
	defs, hasFieldStores := defsOf(a)
	callReaches := false
	for _, d := range defs {
		if _, ok := d.(ssa.CallInstruction); ok && d != at && (dominates(d, at) || reaches(d, at)) {
			callReaches = true
		}
	}
	// struct assembled field by field (composite literal)
	if st, ok := deref(a.Type()).Underlying().(*types.Struct); ok && hasFieldStores && !callReaches {
		if t := s.structLiteral(a, st, at); t != nil {
			return t
		}
	}
	if _, ok := deref(a.Type()).Underlying().(*types.Array); ok && hasFieldStores {
		if lit := s.arrayLiteral(a, at); lit != nil {
			return lit
		}
	}
	if len(defs) == 0 {
		if hasFieldStores {
			return T("content", "", T("alloc", a.Name()+"@"+shortName(a.Parent())))
		}
		return &Term{Op: "zero", Name: deref(a.Type()).String()}
	}
	d := closestDominating(defs, at)
	if d == nil {
		return T("content", "", T("alloc", a.Name()+"@"+shortName(a.Parent())))
	}
	switch d := d.(type) {
	case *ssa.Store:
		return s.Of(d.Val)
	case ssa.CallInstruction:
		// h.Sum(buf[:0]) on a fresh local array: the array holds the digest
		if c, ok := d.(*ssa.Call); ok && strings.HasSuffix(calleeName(c.Common()), "(hash.Hash).Sum") && len(c.Call.Args) == 1 {
			if sl, ok := c.Call.Args[0].(*ssa.Slice); ok && sl.X == ssa.Value(a) && sl.High != nil && isZeroConst(sl.High) {
				return s.hashSumCore(c)
			}
		}
		// value written by the call through the pointer
		idx := -1
		for i, arg := range d.Common().Args {
			for _, al := range aliasesOf(a) {
				if arg == al {
					idx = i
				}
			}
		}
		if d.Common().IsInvoke() {
			idx++ // keep receiver-relative numbering uniform
		}
		ct := s.callTerm(d)
		return &Term{Op: "out", Name: fmt.Sprintf("%d", idx), Args: []*Term{ct}, Site: d}
	}
	return T("content", "", T("alloc", a.Name()+"@"+shortName(a.Parent())))
}

func (s *Sym) structLiteral(a *ssa.Alloc, st *types.Struct, at ssa.Instruction) *Term {
	var kvs []*Term
	var refs []ssa.Instruction
	for _, al := range aliasesOf(a) {
		if rr := al.Referrers(); rr != nil {
			refs = append(refs, *rr...)
		}
	}
	for _, r := range refs {
		switch r := r.(type) {
		case *ssa.FieldAddr:
			var fdefs []ssa.Instruction
			for _, rr := range *r.Referrers() {
				switch rr := rr.(type) {
				case *ssa.Store:
					if rr.Addr == r {
						fdefs = append(fdefs, rr)
					}
				case ssa.CallInstruction:
					fdefs = append(fdefs, rr)
				}
			}
			if len(fdefs) == 0 {
				continue
			}
			d := closestDominating(fdefs, at)
			name := fieldName(r.X.Type(), r.Field)
			if d == nil {
				// several field addr instrs may exist per field; another one may define it
				continue
			}
			var val *Term
			switch d := d.(type) {
			case *ssa.Store:
				val = s.objAt(d.Val, d)
			case ssa.CallInstruction:
				val = &Term{Op: "out", Name: "fld", Args: []*Term{s.callTerm(d)}, Site: d}
			}
			// keep the closest definition among several FieldAddr of the same field
			replaced := false
			for i, kv := range kvs {
				if kv.Name == name {
					if dominates(kv.Site, d) {
						kvs[i] = &Term{Op: "kv", Name: name, Args: []*Term{val}, Site: d}
					}
					replaced = true
				}
			}
			if !replaced {
				kvs = append(kvs, &Term{Op: "kv", Name: name, Args: []*Term{val}, Site: d})
			}
		case *ssa.Store:
			if r.Addr == a && dominates(r, at) {
				// whole-struct store: only the zero value is understood
				if c, ok := r.Val.(*ssa.Const); !ok || c.Value != nil {
					return nil
				}
			}
		case ssa.CallInstruction:
			// address escapes to a call (method with pointer receiver): give up
			if !readOnlyCall(r) && r != at && (dominates(r, at) || reaches(r, at)) {
				return nil
			}
		}
	}
	sort.Slice(kvs, func(i, j int) bool { return kvs[i].Name < kvs[j].Name })
	return &Term{Op: "struct", Name: typeShort(deref(a.Type())), Args: kvs}
}

func typeShort(t types.Type) string {
	s := t.String()
	s = strings.ReplaceAll(s, modPath+"/", "")
	return s
}

// loadField: *(&x.f). Same-function store forwarding when the base is the
// same SSA value; otherwise field f of the object the base designates.
func (s *Sym) loadField(fa *ssa.FieldAddr, at ssa.Instruction) *Term {
	fname := fieldName(fa.X.Type(), fa.Field)
	if al, isAlloc := fa.X.(*ssa.Alloc); isAlloc {
		// local struct variable (e.g. a spilled value receiver): a store to this
		// very field that is the closest dominating definition is forwarded
		var defs []ssa.Instruction
		for _, r := range *al.Referrers() {
			switch r := r.(type) {
			case *ssa.Store:
				if r.Addr == al {
					defs = append(defs, r)
				}
			case *ssa.FieldAddr:
				if r.Field == fa.Field {
					for _, rr := range *r.Referrers() {
						if st, ok := rr.(*ssa.Store); ok && st.Addr == r {
							defs = append(defs, st)
						}
					}
				}
			case ssa.CallInstruction:
				if !readOnlyCall(r) {
					defs = append(defs, r)
				}
			}
		}
		if d := closestDominating(defs, at); d != nil {
			if st, ok := d.(*ssa.Store); ok && st.Addr != al {
				return s.Of(st.Val)
			}
		}
	}
	if _, isAlloc := fa.X.(*ssa.Alloc); !isAlloc {
		// stores to the same (base value, field) in this function
		var defs []ssa.Instruction
		base := fa.X
		for _, b := range fa.Parent().Blocks {
			for _, in := range b.Instrs {
				st, ok := in.(*ssa.Store)
				if !ok {
					continue
				}
				if ofa, ok := st.Addr.(*ssa.FieldAddr); ok && ofa.Field == fa.Field && sameBase(ofa.X, base) {
					defs = append(defs, st)
				}
			}
		}
		if len(defs) > 0 {
			if d := closestDominating(defs, at); d != nil {
				return s.Of(d.(*ssa.Store).Val)
			}
			// ambiguous: a store may or may not have happened
			return mkField(fname+"'", s.pointeeAt(fa.X, at))
		}
	}
	bt := s.pointeeAt(fa.X, at)
	if bt.Op == "struct" {
		if f := structField(bt, fname); f != nil {
			return f
		}
		return &Term{Op: "zero", Name: deref(fa.Type()).String()}
	}
	return mkField(fname, bt)
}

// pointeeAt: the term of the object that pointer value v designates, as seen
// at instruction `at`. Local variables are resolved to their reaching
// definition; other heap objects are named by the pointer's own term.
func (s *Sym) pointeeAt(v ssa.Value, at ssa.Instruction) *Term {
	if prm := spilledParam(v); prm != nil {
		for o := s; o != nil; o = o.outer {
			if t, ok := o.pointees[prm]; ok && paramShallowReadOnly(prm.Parent(), paramIndex(prm), 0) {
				return t
			}
		}
	}
	switch v := v.(type) {
	case *ssa.Alloc:
		if v.Parent() == at.Parent() {
			return s.loadAlloc(v, at)
		}
	case *ssa.FieldAddr:
		return s.loadField(v, at)
	}
	t := s.Of(v)
	switch t.Op {
	case "cell", "ref":
		return t.Args[0]
	case "alloc":
		if al, ok := t.Src.(*ssa.Alloc); ok {
			if al.Parent() == at.Parent() {
				return s.loadAlloc(al, at)
			}
			for o, oat := s.outer, s.outerAt; o != nil; o, oat = o.outer, o.outerAt {
				if al.Parent() == o.fn && oat != nil {
					return o.loadAlloc(al, oat)
				}
			}
		}
	}
	return t
}

func (s *Sym) pointee(v ssa.Value) *Term {
	t := s.Of(v)
	switch t.Op {
	case "cell", "ref":
		return t.Args[0]
	}
	return t
}

func sameBase(a, b ssa.Value) bool {
	if a == b {
		return true
	}
	// both loads of the same spill cell
	la, ok1 := a.(*ssa.UnOp)
	lb, ok2 := b.(*ssa.UnOp)
	if ok1 && ok2 && la.Op == token.MUL && lb.Op == token.MUL && la.X == lb.X {
		if _, ok := la.X.(*ssa.FreeVar); ok {
			return true
		}
		if al, ok := la.X.(*ssa.Alloc); ok {
			defs, _ := defsOf(al)
			return len(defs) == 1
		}
	}
	return false
}

// ---- calls ----

func calleeName(c *ssa.CallCommon) string {
	if c.IsInvoke() {
		return "(" + typeShort(c.Value.Type()) + ")." + c.Method.Name()
	}
	if f := c.StaticCallee(); f != nil {
		return strings.ReplaceAll(f.RelString(nil), modPath+"/", "")
	}
	if b, ok := c.Value.(*ssa.Builtin); ok {
		return "builtin." + b.Name()
	}
	return "dynamic"
}

// callTerm: generic description of a call (callee + argument terms).
func (s *Sym) callTerm(c ssa.CallInstruction) *Term {
	cc := c.Common()
	var args []*Term
	if cc.IsInvoke() {
		args = append(args, s.objAt(cc.Value, c))
	}
	for _, a := range cc.Args {
		args = append(args, s.objAt(a, c))
	}
	t := &Term{Op: "call", Name: calleeName(cc), Args: args, Site: c}
	if v, ok := c.(ssa.Value); ok {
		t.Src = v
	}
	return t
}

func (s *Sym) evalCall(v *ssa.Call) *Term {
	cc := v.Common()
	if b, ok := cc.Value.(*ssa.Builtin); ok {
		switch b.Name() {
		case "len":
			x := s.Of(cc.Args[0])
			if x.Op == "make" && len(x.Args) >= 1 {
				return x.Args[0] // len(make(n, ...)) is n
			}
			return T("len", "", x)
		case "cap":
			return T("cap", "", s.Of(cc.Args[0]))
		case "append":
			return s.evalAppend(v)
		}
		return s.callTerm(v)
	}
	name := calleeName(cc)
	// slices.Concat(a, b, ...) is a || b || ... in fresh storage
	if strings.HasPrefix(name, "slices.Concat") && len(cc.Args) == 1 {
		if lt := s.Of(cc.Args[0]); lt.Op == "list" {
			return catTerms(lt.Args...)
		}
	}
	// byte-string producers
	switch name {
	case "(*golang.org/x/crypto/cryptobyte.Builder).BytesOrPanic", "(*golang.org/x/crypto/cryptobyte.Builder).Bytes":
		bt := s.builderTerm(cc.Args[0], v)
		if name == "(*golang.org/x/crypto/cryptobyte.Builder).Bytes" {
			return T("tuple", "", bt, T("call", "Builder.err", s.Of(cc.Args[0])))
		}
		return bt
	case "crypto/sha256.Sum256":
		return T("hash", "sha256", s.Of(cc.Args[0]))
	case "crypto/sha512.Sum512":
		return T("hash", "sha512", s.Of(cc.Args[0]))
	case "crypto/sha512.Sum384":
		return T("hash", "sha384", s.Of(cc.Args[0]))
	case "(hash.Hash).Sum":
		return s.hashSum(v)
	case "(encoding/binary.bigEndian).AppendUint16", "(encoding/binary.bigEndian).AppendUint32", "(encoding/binary.bigEndian).AppendUint64":
		w := map[string]string{"16": "u16", "32": "u32", "64": "u64"}[name[len(name)-2:]]
		if len(cc.Args) == 3 {
			base := s.Of(cc.Args[1])
			if base.Op == "make" && len(base.Args) == 1 {
				if ms, ok := cc.Args[1].(*ssa.MakeSlice); ok {
					if c, ok := ms.Len.(*ssa.Const); ok && c.Int64() == 0 {
						return catTerms(T(w, "", s.Of(cc.Args[2])))
					}
				}
			}
			if base.Op == "const" && base.Name == "nil" {
				return catTerms(T(w, "", s.Of(cc.Args[2])))
			}
			return catTerms(base, T(w, "", s.Of(cc.Args[2])))
		}
	case "golang.org/x/crypto/hkdf.Expand":
		// hkdf.New(h, secret, salt, info) is defined as Expand(h, Extract(h, secret, salt), info)
		if len(cc.Args) == 3 {
			prk := s.Of(cc.Args[1])
			if prk.Op == "call" && prk.Name == "golang.org/x/crypto/hkdf.Extract" && len(prk.Args) == 3 && prk.Args[0].String() == s.Of(cc.Args[0]).String() {
				return &Term{Op: "call", Name: "golang.org/x/crypto/hkdf.New", Args: []*Term{prk.Args[0], prk.Args[1], prk.Args[2], s.Of(cc.Args[2])}, Src: v, Site: v}
			}
		}
	case "strings.Join":
		return T("join", "", s.Of(cc.Args[0]), s.Of(cc.Args[1]))
	case "github.com/cloudflare/pat-go/quicwire.AppendVarint", "quicwire.AppendVarint":
		return catTerms(s.Of(cc.Args[0]), T("varint", "", s.Of(cc.Args[1])))
	case "quicwire.AppendVarintBytes":
		// varint(len(v)) || v, spelled the way the two-step form is
		body := s.Of(cc.Args[1])
		return catTerms(s.Of(cc.Args[0]), T("varint", "", T("conv", "uint64", T("len", "", body))), body)
	case "quicwire.AppendUint8Bytes":
		return catTerms(s.Of(cc.Args[0]), T("lp8", "", s.Of(cc.Args[1])))
	case "golang.org/x/crypto/cryptobyte.NewBuilder":
		return T("builder", v.Name()+"@"+shortName(v.Parent()))
	}
	// a hand-written max/min of two integers is the builtin
	if f := cc.StaticCallee(); f != nil && InModule(f) && (f.Name() == "max" || f.Name() == "min") && len(f.Params) == 2 && f.Signature.Recv() == nil {
		if _, _, isInt := intBits(f.Params[0].Type(), 64); isInt {
			a, b := s.Of(cc.Args[0]), s.Of(cc.Args[1])
			return &Term{Op: "call", Name: "builtin." + f.Name(), Args: []*Term{a, b}, Src: v, Site: v}
		}
	}
	// in-module callee with a body: inline its return term
	if f := cc.StaticCallee(); f != nil && InModule(f) && f.Blocks != nil && len(s.stack) < 6 &&
		(inlinable(f) || (s.InlineSamePkg && fnPkgPath(f) == fnPkgPath(s.stack[0]) && inlinableShape(f))) && !s.noInline[f] {
		if t := s.inline(f, v); t != nil {
			return t
		}
	}
	return s.callTerm(v)
}

// inline computes the return term(s) of callee f with parameters bound to the
// argument terms of the call. Returns nil if the result is not describable.
func (s *Sym) inline(f *ssa.Function, call *ssa.Call) *Term {
	for _, g := range s.stack {
		if g == f {
			return nil
		}
	}
	c := s.child(f)
	s.bindArgs(c, f, call.Call.Args, call)
	return c.returnTerm()
}

// returnTerm: the term of the function's results (tuple if several), provided
// all non-cache, non-failure return points agree.
func (s *Sym) returnTerm() *Term {
	f := s.fn
	vi := verdictIndex(f)
	rps := s.ff.RetPoints(vi)
	var res *Term
	for i := range rps {
		rp := &rps[i]
		if rp.Outcome == Fails {
			continue
		}
		var parts []*Term
		for _, v := range rp.Vals {
			parts = append(parts, s.objAt(v, rp.Ret))
		}
		var t *Term
		if len(parts) == 1 {
			t = parts[0]
		} else {
			t = &Term{Op: "tuple", Args: parts}
		}
		// cache return: `if r.f != nil { return r.f }`
		if len(rp.Vals) == 1 && isCacheReturn(rp) {
			continue
		}
		// cache fill: `if r.f == nil { r.f = E }; return r.f` - the value on a
		// cache miss is E
		if len(rp.Vals) == 1 {
			if e := s.cacheFillValue(rp.Vals[0]); e != nil {
				t = e
			}
		}
		if res == nil {
			res = t
		} else if res.String() != t.String() {
			return nil
		}
	}
	return res
}

func isCacheReturn(rp *RetPoint) bool {
	u, ok := rp.Vals[0].(*ssa.UnOp)
	if !ok || u.Op != token.MUL {
		return false
	}
	fa, ok := u.X.(*ssa.FieldAddr)
	if !ok {
		return false
	}
	for _, a := range rp.Facts {
		if a.Kind == IsNil && !a.Pol {
			if l, ok := a.V.(*ssa.UnOp); ok && l.Op == token.MUL {
				if fb, ok := l.X.(*ssa.FieldAddr); ok && fb.Field == fa.Field && sameBase(fb.X, fa.X) {
					return true
				}
			}
		}
	}
	return false
}

func (s *Sym) evalAppend(v *ssa.Call) *Term {
	args := v.Call.Args
	base := s.Of(args[0])
	if len(args) < 2 {
		return base
	}
	tail := s.Of(args[1])
	if base.Op == "make" {
		// make([]byte, 0, n) has no content
		if ms, ok := args[0].(*ssa.MakeSlice); ok {
			if c, ok := ms.Len.(*ssa.Const); ok && c.Int64() == 0 {
				base = nil
			}
		}
	}
	if base != nil && base.Op == "cat" && len(base.Args) == 0 {
		base = nil
	}
	if base == nil {
		return catTerms(tail)
	}
	return catTerms(base, tail)
}

// orderedCallsOn collects calls whose receiver (first arg or invoke value) is
// the given value, that dominate `until` (or all if until is nil), in
// dominance order. ok=false if two are unordered.
func orderedCallsOn(recv ssa.Value, until ssa.Instruction) (calls []ssa.CallInstruction, loopy []ssa.CallInstruction, ok bool) {
	refs := recv.Referrers()
	if refs == nil {
		return nil, nil, false
	}
	for _, r := range *refs {
		ci, isCall := r.(ssa.CallInstruction)
		if !isCall {
			continue
		}
		cc := ci.Common()
		isRecv := false
		if cc.IsInvoke() {
			isRecv = cc.Value == recv
		} else if len(cc.Args) > 0 && cc.Args[0] == recv && cc.StaticCallee() != nil && cc.StaticCallee().Signature.Recv() != nil {
			isRecv = true
		} else if f := cc.StaticCallee(); f != nil && InModule(f) && f.Blocks != nil && isBuilderPtr(recv.Type()) {
			// the builder handed to an in-module helper that writes to it
			for _, a := range cc.Args {
				if a == recv {
					isRecv = true
				}
			}
		}
		if !isRecv || ci == until {
			continue
		}
		if until == nil || dominates(ci, until) {
			calls = append(calls, ci)
		} else if until != nil && reaches(ci, until) {
			loopy = append(loopy, ci)
		}
	}
	sort.SliceStable(calls, func(i, j int) bool { return dominates(calls[i], calls[j]) })
	for i := 0; i+1 < len(calls); i++ {
		if !dominates(calls[i], calls[i+1]) {
			return calls, loopy, false
		}
	}
	return calls, loopy, true
}

// canonGuard labels a branch arm with its guard. Emptiness tests of a byte
// string (len(x) == 0, 0 < len(x), len(x) >= 1, ... either polarity) are all
// rendered as the truth of len(x) > 0.
func (s *Sym) canonGuard(a Atom) string {
	if bo, ok := a.V.(*ssa.BinOp); ok && a.Kind == Truth {
		x, y := s.Of(bo.X), s.Of(bo.Y)
		isLen := func(t *Term) bool { return t.Op == "len" }
		k := func(t *Term) string {
			if t.Op == "const" {
				return t.Name
			}
			return ""
		}
		nonEmpty, known := false, false
		var lt *Term
		switch {
		case isLen(x) && k(y) == "0":
			lt = x
			switch bo.Op {
			case token.GTR, token.NEQ:
				nonEmpty, known = a.Pol, true
			case token.EQL, token.LEQ:
				nonEmpty, known = !a.Pol, true
			}
		case isLen(y) && k(x) == "0":
			lt = y
			switch bo.Op {
			case token.LSS, token.NEQ:
				nonEmpty, known = a.Pol, true
			case token.EQL, token.GEQ:
				nonEmpty, known = !a.Pol, true
			}
		case isLen(x) && k(y) == "1":
			lt = x
			switch bo.Op {
			case token.GEQ:
				nonEmpty, known = a.Pol, true
			case token.LSS:
				nonEmpty, known = !a.Pol, true
			}
		}
		if known {
			return fmt.Sprintf("%v:bin<>>(%s, const:0)", nonEmpty, lt.String())
		}
	}
	return fmt.Sprintf("%v:%s", a.Pol, s.Of(a.V).String())
}

// builderTerm: layout of the bytes accumulated in a cryptobyte.Builder up to
// the instruction `until`.
func (s *Sym) builderTerm(b ssa.Value, until ssa.Instruction) *Term {
	calls, side, ok := orderedCallsOn(b, until)
	if !ok {
		return T("unknown", "builder calls not ordered by dominance")
	}
	var parts []*Term
	// initial buffer of NewBuilder(x)
	if c, isCall := b.(*ssa.Call); isCall && calleeName(c.Common()) == "golang.org/x/crypto/cryptobyte.NewBuilder" {
		init := s.Of(c.Call.Args[0])
		if !(init.Op == "const" && init.Name == "nil") {
			parts = append(parts, init)
		}
	}
	// calls not dominating the end: loop bodies / branches
	type sidePart struct {
		at   ssa.CallInstruction
		term *Term
	}
	var sides []sidePart
	{
		// group the calls that do not dominate the end (loop bodies, branch
		// arms) by basic block: one block = one sequence; several blocks = the
		// arms of a branch, each labelled with its nearest guard
		byBlock := map[*ssa.BasicBlock][]ssa.CallInstruction{}
		var blocks []*ssa.BasicBlock
		for _, c := range side {
			if _, ok := byBlock[c.Block()]; !ok {
				blocks = append(blocks, c.Block())
			}
			byBlock[c.Block()] = append(byBlock[c.Block()], c)
		}
		sort.Slice(blocks, func(i, j int) bool { return blocks[i].Index < blocks[j].Index })
		var arms []*Term
		var first ssa.CallInstruction
		for _, b := range blocks {
			cs := byBlock[b]
			sort.SliceStable(cs, func(i, j int) bool { return dominates(cs[i], cs[j]) })
			if first == nil {
				first = cs[0]
			}
			var seq []*Term
			for _, c := range cs {
				seq = append(seq, s.builderCall(c))
			}
			arm := catTerms(seq...)
			if len(blocks) > 1 {
				guard := "?"
				if fs := s.ff.At(b); len(fs) > 0 {
					guard = s.canonGuard(fs[0])
				}
				arm = &Term{Op: "arm", Name: guard, Args: []*Term{arm}}
			}
			arms = append(arms, arm)
		}
		// arms of one branch in a canonical order (the true arm first), whichever
		// way round the source wrote the condition
		if len(arms) == 2 && strings.HasPrefix(arms[0].Name, "false:") && strings.HasPrefix(arms[1].Name, "true:") && arms[0].Name[6:] == arms[1].Name[5:] {
			arms[0], arms[1] = arms[1], arms[0]
		}
		if len(arms) == 1 {
			sides = append(sides, sidePart{first, T("each", "", arms[0])})
		} else if len(arms) > 1 {
			sides = append(sides, sidePart{first, T("each", "", &Term{Op: "alt", Args: arms})})
		}
	}
	emitSidesBefore := func(at ssa.Instruction) {
		rest := sides[:0]
		for _, sp := range sides {
			if at == nil || !dominates(at, sp.at) {
				parts = append(parts, sp.term)
			} else {
				rest = append(rest, sp)
			}
		}
		sides = rest
	}
	for _, c := range calls {
		emitSidesBefore(c)
		parts = append(parts, s.builderCall(c))
	}
	emitSidesBefore(nil)
	if len(parts) == 0 {
		return T("cat", "")
	}
	return catTerms(parts...)
}

func (s *Sym) builderCall(c ssa.CallInstruction) *Term {
	cc := c.Common()
	name := calleeName(cc)
	const pfx = "(*golang.org/x/crypto/cryptobyte.Builder)."
	if !strings.HasPrefix(name, pfx) {
		// an in-module helper receiving the builder: what it adds, with its
		// parameters bound to the arguments of this call
		if f := cc.StaticCallee(); f != nil && InModule(f) && f.Blocks != nil && len(s.stack) < 14 {
			for _, g := range s.stack {
				if g == f {
					return T("unknown", "recursive builder helper "+name)
				}
			}
			for i, a := range cc.Args {
				if isBuilderPtr(a.Type()) && i < len(f.Params) {
					ch := s.child(f)
					s.bindArgs(ch, f, cc.Args, c)
					return ch.builderTerm(f.Params[i], nil)
				}
			}
		}
		return T("unknown", "non-builder call "+name)
	}
	m := name[len(pfx):]
	arg := func(i int) *Term { return s.Of(cc.Args[i]) }
	switch m {
	case "AddUint8":
		return T("u8", "", arg(1))
	case "AddUint16":
		return T("u16", "", arg(1))
	case "AddUint24":
		return T("u24", "", arg(1))
	case "AddUint32":
		return T("u32", "", arg(1))
	case "AddUint64":
		return T("u64", "", arg(1))
	case "AddBytes":
		a := arg(1)
		return a
	case "AddUint8LengthPrefixed":
		return T("lp8", "", s.closureBuilder(cc.Args[1]))
	case "AddUint16LengthPrefixed":
		return T("lp16", "", s.closureBuilder(cc.Args[1]))
	case "AddUint24LengthPrefixed":
		return T("lp24", "", s.closureBuilder(cc.Args[1]))
	case "AddUint32LengthPrefixed":
		return T("lp32", "", s.closureBuilder(cc.Args[1]))
	case "AddASN1":
		return T("asn1", "", arg(1), s.closureBuilder(cc.Args[2]))
	case "AddASN1ObjectIdentifier":
		return T("asn1oid", "", s.oidValue(cc.Args[1]))
	case "AddASN1Int64":
		return T("asn1int", "", arg(1))
	case "AddASN1BigInt":
		return T("asn1bigint", "", arg(1))
	case "AddASN1BitString":
		return T("asn1bitstring", "", arg(1))
	case "AddASN1OctetString":
		return T("asn1octets", "", arg(1))
	case "SetError":
		return T("cat", "")
	}
	return T("unknown", "builder method "+m)
}

// closureBuilder: content emitted by a BuilderContinuation.
func (s *Sym) closureBuilder(v ssa.Value) *Term {
	var fn *ssa.Function
	var bindings []ssa.Value
	for {
		if ct, ok := v.(*ssa.ChangeType); ok {
			v = ct.X
			continue
		}
		break
	}
	switch v := v.(type) {
	case *ssa.MakeClosure:
		fn = v.Fn.(*ssa.Function)
		bindings = v.Bindings
	case *ssa.Function:
		fn = v
	default:
		return T("unknown", "continuation is not a function literal")
	}
	c := s.child(fn)
	c.outer = s
	if in, ok := v.(ssa.Instruction); ok {
		c.outerAt = in
	}
	for i, fv := range fn.FreeVars {
		if i < len(bindings) {
			// the binding is the address of the captured variable (an Alloc
			// in the parent); its content at the closure creation point
			bt := bindings[i]
			if al, ok := bt.(*ssa.Alloc); ok {
				c.free[fv] = T("cell", "", s.loadAlloc(al, v.(ssa.Instruction)))
			} else if pfv, ok := bt.(*ssa.FreeVar); ok && s.free != nil {
				if t, ok := s.free[pfv]; ok {
					c.free[fv] = t
				}
			} else {
				c.free[fv] = s.Of(bt)
			}
		}
	}
	if len(fn.Params) == 0 {
		return T("unknown", "continuation without parameter")
	}
	return c.builderTerm(fn.Params[0], nil)
}

// oidValue: the constant components of an asn1.ObjectIdentifier value loaded
// from a package-level variable initialised with a composite literal.
func (s *Sym) oidValue(v ssa.Value) *Term {
	u, ok := v.(*ssa.UnOp)
	if !ok || u.Op != token.MUL {
		return s.Of(v)
	}
	g, ok := u.X.(*ssa.Global)
	if !ok {
		return s.Of(v)
	}
	// find the single store to g in its package init
	var val ssa.Value
	n := 0
	for fn := range s.prog.Funcs {
		if fn.Pkg != g.Pkg || fn.Blocks == nil {
			continue
		}
		for _, b := range fn.Blocks {
			for _, in := range b.Instrs {
				if st, ok := in.(*ssa.Store); ok && st.Addr == g {
					n++
					val = st.Val
					if fn.Name() != "init" {
						n += 100
					}
				}
			}
		}
	}
	if n != 1 {
		return T("unknown", fmt.Sprintf("global %s written %d times", g.Name(), n))
	}
	// val = slice of new [k]int with constant element stores
	sl, ok := val.(*ssa.Slice)
	if !ok {
		return T("unknown", "oid initialiser shape")
	}
	al, ok := sl.X.(*ssa.Alloc)
	if !ok {
		return T("unknown", "oid initialiser shape")
	}
	arr := deref(al.Type()).Underlying().(*types.Array)
	comps := make([]string, arr.Len())
	for _, r := range *al.Referrers() {
		if ia, ok := r.(*ssa.IndexAddr); ok {
			idx := int(ia.Index.(*ssa.Const).Int64())
			for _, rr := range *ia.Referrers() {
				if st, ok := rr.(*ssa.Store); ok {
					if c, ok := st.Val.(*ssa.Const); ok {
						comps[idx] = c.Value.ExactString()
					}
				}
			}
		}
	}
	return T("const", strings.Join(comps, "."))
}

// hashSum: h.Sum(b) for a hash.Hash h obtained from a constructor, with the
// Write calls that dominate it.
func (s *Sym) hashSum(v *ssa.Call) *Term { return s.hashSumX(v, false) }

// hashSumCore: the digest itself (the prefix argument of Sum is ignored).
func (s *Sym) hashSumCore(v *ssa.Call) *Term { return s.hashSumX(v, true) }

func (s *Sym) hashSumX(v *ssa.Call, core bool) *Term {
	h := v.Call.Value
	ctor := s.Of(h)
	alg := ctor.String()
	if ctor.Op == "call" {
		alg = hashAlgName(ctor.Name)
	}
	calls, side, ok := orderedCallsOn(h, v)
	var loopPart *Term
	if ok && len(side) == 1 {
		// h.Write(p) for each p of a slice (a variadic parts... helper): the
		// elements in order, provided every other write comes before the loop
		if lp := s.rangeWriteAll(side[0]); lp != nil {
			fine := true
			for _, c := range calls {
				if c.Common().Method != nil && c.Common().Method.Name() == "Write" && !dominates(c, side[0]) {
					fine = false
				}
			}
			if fine {
				loopPart, side = lp, nil
			}
		}
	}
	if !ok || len(side) > 0 {
		return T("hash", alg, T("unknown", "hash writes not ordered"))
	}
	var parts []*Term
	for _, c := range calls {
		switch c.Common().Method.Name() {
		case "Write":
			parts = append(parts, s.Of(c.Common().Args[0]))
		case "Sum", "Size", "BlockSize":
		case "Reset":
			parts = nil // back to the initial state: earlier writes no longer count
		default:
			parts = append(parts, T("unknown", "hash method "+c.Common().Method.Name()))
		}
	}
	if loopPart != nil {
		parts = append(parts, loopPart)
	}
	ht := T("hash", alg, catTerms(parts...))
	if len(parts) == 0 {
		ht = T("hash", alg, T("cat", ""))
	}
	if core {
		return ht
	}
	if sl, ok := v.Call.Args[0].(*ssa.Slice); ok && sl.High != nil && isZeroConst(sl.High) {
		return ht // Sum(buf[:0]): nothing precedes the digest
	}
	pre := s.Of(v.Call.Args[0])
	if pre.Op == "const" && pre.Name == "nil" {
		return ht
	}
	if pre.Op == "make" {
		return ht
	}
	return catTerms(pre, ht)
}

// inlinable: functions that produce a value (not just a verdict).
func inlinable(f *ssa.Function) bool {
	if !inlinableShape(f) {
		return false
	}
	if termAnchors[f.Name()] && f.Signature.Recv() == nil {
		return false
	}
	switch fnPkgPath(f) {
	case modPath + "/ecdsa", modPath + "/ed25519":
		// the forks' API and the named steps of their algorithms stay opaque
		// calls in terms; other unexported helpers (introduced by refactoring)
		// are implementation detail and are looked through
		if f.Object() != nil && f.Object().Exported() {
			return false
		}
		if f.Signature.Recv() != nil {
			return false
		}
		return !forkAnchors[f.Pkg.Pkg.Name()+"."+f.Name()]
	case modPath + "/ed25519/internal/edwards25519", modPath + "/ed25519/internal/edwards25519/field":
		return false
	}
	return true
}

// forkAnchors: unexported functions of the ECDSA/Ed25519 forks that the rules
// name as steps of the algorithms (they stay opaque calls in terms).
var forkAnchors = map[string]bool{
	"ecdsa.hashBlind": true, "ecdsa.randFieldElement": true, "ecdsa.sign": true, "ecdsa.verify": true, "ecdsa.signGeneric": true, "ecdsa.verifyGeneric": true,
	"ecdsa.hashToInt": true, "ecdsa.fermatInverse": true, "ecdsa.signNISTEC": true, "ecdsa.verifyNISTEC": true, "ecdsa.signAsm": true, "ecdsa.verifyAsm": true,
	"ed25519.blindKeySign": true, "ed25519.signInternal": true, "ed25519.sign": true, "ed25519.verify": true, "ed25519.newKeyFromSeed": true,
}

// isDecoder: the function reads through a cryptobyte.String; such functions
// stay opaque calls (their meaning is given by layout agreement, C04).
var decoderMemo = map[*ssa.Function]bool{}

func isDecoder(f *ssa.Function) bool {
	if v, ok := decoderMemo[f]; ok {
		return v
	}
	res := false
	for _, b := range f.Blocks {
		for _, in := range b.Instrs {
			if c, ok := in.(ssa.CallInstruction); ok {
				n := calleeName(c.Common())
				if strings.HasPrefix(n, "(*golang.org/x/crypto/cryptobyte.String).Read") {
					res = true
				}
			}
		}
	}
	if !res && len(f.Blocks) == 1 {
		// a decoder that only forwards to another module decoder (a shared
		// decoder parameterised by a width) keeps its own name in terms
		b := f.Blocks[0]
		if ret, ok := b.Instrs[len(b.Instrs)-1].(*ssa.Return); ok {
			for _, in := range b.Instrs {
				c, ok := in.(*ssa.Call)
				if !ok {
					continue
				}
				g := c.Call.StaticCallee()
				if g == nil || g == f || g.Blocks == nil || !InModule(g) {
					continue
				}
				forwards := false
				for _, rv := range ret.Results {
					if rv == ssa.Value(c) {
						forwards = true
					}
					if ex, ok := rv.(*ssa.Extract); ok && ex.Tuple == ssa.Value(c) {
						forwards = true
					}
				}
				decoderMemo[f] = false // recursion guard
				if forwards && isDecoder(g) {
					res = true
				}
			}
		}
	}
	decoderMemo[f] = res
	return res
}

func inlinableShape(f *ssa.Function) bool {
	if isDecoder(f) {
		return false
	}
	res := f.Signature.Results()
	if res.Len() == 0 {
		return false
	}
	if res.Len() == 1 {
		t := res.At(0).Type()
		if isErrorType(t) {
			return false
		}
		if b, ok := t.Underlying().(*types.Basic); ok && b.Info()&types.IsBoolean != 0 {
			return false
		}
	}
	return true
}

// allocLiteral: &T{f: v, ...} - a heap struct whose fields are each stored
// exactly once, through FieldAddrs used for nothing else.
func (s *Sym) allocLiteral(a *ssa.Alloc) *Term {
	st, ok := deref(a.Type()).Underlying().(*types.Struct)
	if !ok || !a.Heap {
		return nil
	}
	body := s.literalStruct(a, st, typeShort(deref(a.Type())))
	if body == nil {
		return nil
	}
	return T("ref", "", body)
}

// literalStruct: the fields reached from base (an Alloc or the FieldAddr of a
// nested struct field) are each stored exactly once through FieldAddrs used
// for nothing else; nested struct-typed fields assembled field by field
// (T{Inner{a, b}, c}) are described recursively.
func (s *Sym) literalStruct(base ssa.Value, st *types.Struct, name string) *Term {
	var kvs []*Term
	seen := map[int]bool{}
	for _, r := range *base.Referrers() {
		fa, ok := r.(*ssa.FieldAddr)
		if !ok {
			continue
		}
		if seen[fa.Field] {
			return nil
		}
		refs := *fa.Referrers()
		if len(refs) == 1 {
			if store, ok := refs[0].(*ssa.Store); ok && store.Addr == fa {
				seen[fa.Field] = true
				kvs = append(kvs, &Term{Op: "kv", Name: fieldName(fa.X.Type(), fa.Field), Args: []*Term{s.objAt(store.Val, store)}, Site: store})
				continue
			}
		}
		// nested struct field built in place
		inner, isStruct := st.Field(fa.Field).Type().Underlying().(*types.Struct)
		if !isStruct || len(refs) == 0 {
			return nil
		}
		for _, rr := range refs {
			if _, ok := rr.(*ssa.FieldAddr); !ok {
				return nil
			}
		}
		sub := s.literalStruct(fa, inner, typeShort(st.Field(fa.Field).Type()))
		if sub == nil {
			return nil
		}
		seen[fa.Field] = true
		kvs = append(kvs, &Term{Op: "kv", Name: fieldName(fa.X.Type(), fa.Field), Args: []*Term{sub}})
	}
	if len(kvs) == 0 {
		return nil
	}
	sort.Slice(kvs, func(i, j int) bool { return kvs[i].Name < kvs[j].Name })
	return &Term{Op: "struct", Name: name, Args: kvs}
}

// evalMake: a fresh buffer. If exactly one instruction fills it (copy into it,
// or a call receiving it), the filler is part of the term.
func (s *Sym) evalMake(v *ssa.MakeSlice) *Term {
	return s.bufferTerm(v, s.Of(v.Len))
}

func (s *Sym) bufferTerm(v ssa.Value, ln *Term) *Term {
	if t := s.stridedFill(v); t != nil {
		return t
	}
	if t := s.bufferCat(v); t != nil {
		return t
	}
	var fillers []*Term
	for _, r := range *v.Referrers() {
		ci, ok := r.(ssa.CallInstruction)
		if !ok {
			continue
		}
		cc := ci.Common()
		if b, ok := cc.Value.(*ssa.Builtin); ok {
			switch b.Name() {
			case "copy":
				if cc.Args[0] == v {
					fillers = append(fillers, T("copy", "", s.Of(cc.Args[1])))
				}
			}
			continue
		}
		if !fillerCallee(calleeName(cc)) {
			continue
		}
		var args []*Term
		if cc.IsInvoke() {
			args = append(args, s.Of(cc.Value))
		}
		for _, a := range cc.Args {
			if a == v {
				args = append(args, T("const", "dst"))
			} else {
				args = append(args, s.Of(a))
			}
		}
		fillers = append(fillers, &Term{Op: "fill", Name: calleeName(cc), Args: args, Site: ci})
	}
	if len(fillers) == 1 {
		return canonBigBytes(T("make", "", ln, fillers[0]))
	}
	if len(fillers) > 1 {
		return T("make", "", ln, T("opaque", fmt.Sprintf("%d fillers of %s", len(fillers), v.Name())))
	}
	return T("make", "", ln)
}

// fillerCallee: callees known to fill a byte buffer passed to them. Other
// calls receiving a fresh buffer are treated as readers of it.
func fillerCallee(name string) bool {
	switch name {
	case "io.ReadFull", "crypto/rand.Read", "(io.Reader).Read", "(*math/big.Int).FillBytes",
		"(*crypto/cipher.StreamReader).Read", "(crypto/cipher.Stream).XORKeyStream", "encoding/hex.Decode",
		"(encoding/binary.bigEndian).PutUint16", "(encoding/binary.bigEndian).PutUint32", "(encoding/binary.bigEndian).PutUint64":
		return true
	}
	return false
}

// objAt: the term of value v as seen at instruction `at`. For pointer-like
// values this is the base term plus the history of in-place mutations: calls
// made earlier (dominating `at`) with v as receiver whose results carry no
// value other than an error or the receiver itself (x.Mod(x, N),
// P.ScalarMult(r, P), e.UnmarshalBinary(b)). Without this, objects mutated in
// place would be described by their constructor only.
func (s *Sym) objAt(v ssa.Value, at ssa.Instruction) *Term {
	base := s.Of(v)
	switch v.Type().Underlying().(type) {
	case *types.Pointer, *types.Interface:
	default:
		return base
	}
	switch v.(type) {
	case *ssa.Const, *ssa.Global, *ssa.Function:
		return base
	}
	if base.Op == "builder" || base.Op == "closure" {
		return base
	}
	refs := v.Referrers()
	if refs == nil {
		return base
	}
	var muts []ssa.CallInstruction
	for _, r := range *refs {
		ci, ok := r.(ssa.CallInstruction)
		if !ok || ssa.Instruction(ci) == at {
			continue
		}
		cc := ci.Common()
		isRecv := false
		if cc.IsInvoke() {
			isRecv = cc.Value == v
		} else if f := cc.StaticCallee(); f != nil && f.Signature.Recv() != nil && len(cc.Args) > 0 && cc.Args[0] == v {
			isRecv = true
		}
		if !isRecv || !mutatorShape(ci, v) {
			continue
		}
		if at != nil && !dominates(ci, at) {
			continue
		}
		dup := false
		for _, m := range muts {
			if m == ci {
				dup = true
			}
		}
		if dup {
			continue
		}
		muts = append(muts, ci)
	}
	if len(muts) == 0 {
		return base
	}
	sort.SliceStable(muts, func(i, j int) bool { return dominates(muts[i], muts[j]) })
	args := []*Term{base}
	for _, m := range muts {
		cc := m.Common()
		var margs []*Term
		if cc.IsInvoke() {
			margs = append(margs, T("const", "self"))
		}
		for _, a := range cc.Args {
			if a == v {
				margs = append(margs, T("const", "self"))
			} else {
				margs = append(margs, s.objAt(a, m))
			}
		}
		args = append(args, &Term{Op: "call", Name: calleeName(cc), Args: margs, Site: m})
	}
	return &Term{Op: "obj", Args: args, Src: v}
}

// mutatorShape: a method call that can only matter through its effect on the
// receiver: no results, only an error, or results of the receiver's own type;
// and not a known accumulator handled elsewhere (hash.Hash, Builder).
func mutatorShape(ci ssa.CallInstruction, recv ssa.Value) bool {
	cc := ci.Common()
	name := calleeName(cc)
	if strings.HasPrefix(name, "(hash.Hash).") || strings.Contains(name, "cryptobyte.Builder).") || strings.Contains(name, "cryptobyte.String).") {
		return false
	}
	res := cc.Signature().Results()
	for i := 0; i < res.Len(); i++ {
		t := res.At(i).Type()
		if isErrorType(t) {
			continue
		}
		if types.Identical(t, recv.Type()) {
			// chaining style: only counts as a mutation if the result is unused
			if v, ok := ci.(ssa.Value); ok && v.Referrers() != nil {
				used := false
				for _, r := range *v.Referrers() {
					if _, dbg := r.(*ssa.DebugRef); !dbg {
						used = true
					}
				}
				if used {
					return false
				}
			}
			continue
		}
		return false
	}
	return true
}

// mkField: field selection, normalising p.f through an address term:
// (&x.g).f == x.g.f
func mkField(name string, base *Term) *Term {
	if base.Op == "fieldaddr" && len(base.Args) == 1 {
		base = mkField(base.Name, base.Args[0])
	}
	return T("field", name, base)
}

// hashAlgName: one canonical name per algorithm, whichever API spells it
// (sha512.Sum384(x) and sha512.New384()/Write/Sum(nil) are the same value).
func hashAlgName(ctor string) string {
	switch ctor {
	case "crypto/sha256.New":
		return "sha256"
	case "crypto/sha512.New384":
		return "sha384"
	case "crypto/sha512.New":
		return "sha512"
	case "crypto/sha1.New":
		return "sha1"
	case "crypto/sha256.New224":
		return "sha224"
	}
	return ctor
}

// bufferCat: a fresh buffer assembled piecewise - copy(buf[off:], x),
// binary.BigEndian.PutUintN(buf[off:], v), buf[off] = c - is the
// concatenation of the pieces when their offsets are the running sums of
// their lengths and they cover the buffer exactly (linear identities over
// lengths, no facts needed). Returns nil when that cannot be established.
type bufPart struct {
	off, ln Lin
	t       *Term
}

func (s *Sym) bufferCat(v ssa.Value) *Term {
	if s.inBufferCat {
		return nil
	}
	s.inBufferCat = true
	defer func() { s.inBufferCat = false }()
	rg := s.prog.rangeFor(s.fn)
	var total Lin
	switch x := v.(type) {
	case *ssa.MakeSlice:
		l, ok := rg.lin(x.Len)
		if !ok {
			return nil
		}
		total = l
	case *ssa.Slice:
		total = rg.lenOf(x)
	default:
		return nil
	}
	var parts []bufPart
	type copyRec struct {
		call    *ssa.Call
		off, ln Lin
	}
	var copies []copyRec
	bad := false
	var visit func(view ssa.Value, off Lin, high *Lin)
	visit = func(view ssa.Value, off Lin, high *Lin) {
		for _, r := range *view.Referrers() {
			switch x := r.(type) {
			case *ssa.Slice:
				if x.X != view {
					continue
				}
				o := off
				if x.Low != nil {
					l, ok := rg.lin(x.Low)
					if !ok {
						bad = true
						return
					}
					o = off.plus(l)
				}
				h := high
				if x.High != nil {
					l, ok := rg.lin(x.High)
					if !ok {
						bad = true
						return
					}
					hh := off.plus(l)
					h = &hh
				}
				visit(x, o, h)
			case *ssa.IndexAddr:
				if x.X != view {
					continue
				}
				il, ok := rg.lin(x.Index)
				if !ok {
					bad = true
					return
				}
				for _, u := range *x.Referrers() {
					if st, ok := u.(*ssa.Store); ok && st.Addr == x {
						parts = append(parts, bufPart{off.plus(il), linConst(1), T("u8", "", s.Of(st.Val))})
					}
				}
			case ssa.CallInstruction:
				cc := x.Common()
				if b, ok := cc.Value.(*ssa.Builtin); ok {
					if b.Name() == "copy" && cc.Args[0] == view {
						parts = append(parts, bufPart{off, rg.lenOf(cc.Args[1]), s.Of(cc.Args[1])})
						if cv, ok := x.(*ssa.Call); ok {
							copies = append(copies, copyRec{cv, off, rg.lenOf(cc.Args[1])})
						}
					}
					continue
				}
				name := calleeName(cc)
				isArg := false
				for _, a := range cc.Args {
					if a == view {
						isArg = true
					}
				}
				if !isArg || !fillerCallee(name) {
					continue
				}
				switch name {
				case "(encoding/binary.bigEndian).PutUint16":
					parts = append(parts, bufPart{off, linConst(2), T("u16", "", s.Of(cc.Args[2]))})
				case "(encoding/binary.bigEndian).PutUint32":
					parts = append(parts, bufPart{off, linConst(4), T("u32", "", s.Of(cc.Args[2]))})
				case "(encoding/binary.bigEndian).PutUint64":
					parts = append(parts, bufPart{off, linConst(8), T("u64", "", s.Of(cc.Args[2]))})
				default:
					// a filler of the whole view: only describable when the view's extent is known
					end := total
					if high != nil {
						end = *high
					}
					var args []*Term
					if cc.IsInvoke() {
						args = append(args, s.Of(cc.Value))
					}
					for _, a := range cc.Args {
						if a == view {
							args = append(args, T("const", "dst"))
						} else {
							args = append(args, s.Of(a))
						}
					}
					ln := end.minus(off)
					lt := linTerm(ln)
					if lt == nil {
						bad = true
						return
					}
					parts = append(parts, bufPart{off, ln, canonBigBytes(T("make", "", lt, &Term{Op: "fill", Name: name, Args: args, Site: x}))})
				}
			}
		}
	}
	visit(v, linConst(0), nil)
	if bad || len(parts) == 0 {
		return nil
	}
	if len(parts) == 1 {
		switch parts[0].t.Op {
		case "u8", "u16", "u32", "u64":
		default:
			// a buffer of exactly len(x) bytes filled by copy(buf, x) has the
			// content x (its freshness is a matter for the aliasing rules, which
			// work on SSA values, not on terms)
			d0, d1 := parts[0].off, parts[0].ln.minus(total)
			if len(copies) == 1 && len(d0.c) == 0 && d0.k.Sign() == 0 && len(d1.c) == 0 && d1.k.Sign() == 0 {
				return parts[0].t
			}
			return nil // one piece: the plain make(len, filler) form describes it
		}
	}
	// n := copy(buf[off:], x) copies all of x when the buffer has room for it:
	// then n == len(x) in later offsets
	for iter := 0; iter < 4; iter++ {
		changed := false
		for _, cp := range copies {
			name := rg.atom(cp.call).String()
			_ = name
			var an string
			for a := range rg.atom(cp.call).c {
				an = a
			}
			room := total.minus(cp.off).minus(cp.ln)
			if !rg.nonneg(room) {
				continue
			}
			for i := range parts {
				if c, ok := parts[i].off.c[an]; ok {
					parts[i].off = parts[i].off.add(linAtom(an), new(big.Rat).Neg(c)).add(cp.ln, c)
					changed = true
				}
			}
			for j := range copies {
				if c, ok := copies[j].off.c[an]; ok {
					copies[j].off = copies[j].off.add(linAtom(an), new(big.Rat).Neg(c)).add(cp.ln, c)
					changed = true
				}
			}
		}
		if !changed {
			break
		}
	}
	eq := func(a, b Lin) bool { d := a.minus(b); return len(d.c) == 0 && d.k.Sign() == 0 }
	cur := linConst(0)
	var out []*Term
	used := make([]bool, len(parts))
	for n := 0; n < len(parts); n++ {
		found := -1
		for i, pt := range parts {
			if !used[i] && eq(pt.off, cur) {
				if found >= 0 {
					return nil // two writes at the same offset
				}
				found = i
			}
		}
		if found < 0 {
			// an unwritten gap of a few bytes in a fresh buffer is zero bytes
			for i, pt := range parts {
				d := pt.off.minus(cur)
				if !used[i] && len(d.c) == 0 && d.k.IsInt() && d.k.Sign() > 0 && d.k.Cmp(big.NewRat(8, 1)) <= 0 {
					for z := int64(0); z < d.k.Num().Int64(); z++ {
						out = append(out, T("u8", "", T("const", "0")))
					}
					cur = pt.off
					found = i
					break
				}
			}
			if found < 0 {
				return nil
			}
		}
		used[found] = true
		out = append(out, parts[found].t)
		cur = cur.plus(parts[found].ln)
	}
	if !eq(cur, total) {
		return nil
	}
	return catTerms(out...)
}

// stridedFill: buf := make([]byte, n*E); for i := 0; i < n; i++ { copy(buf[i*E:(i+1)*E], x(i)) }
// (or buf[start:start+E] with start := i*E) is n fixed-width slots written back
// to back: each(make(E, copy(x(i)))) - the same term the slot-per-element form
// (slots[i] = make(E); copy(slots[i], x(i)); emit every slot) produces. Matched
// structurally on SSA: the only uses of buf besides reads are ONE slice
// expression inside a loop whose bounds are i*E and i*E+E for that loop's
// 0-based unit-step induction variable bounded by n, filled by ONE copy.
func (s *Sym) stridedFill(v ssa.Value) *Term {
	ms, ok := v.(*ssa.MakeSlice)
	if !ok || !isByteSliceOrString(ms.Type().Underlying()) {
		return nil
	}
	mul := func(x ssa.Value) (a, b ssa.Value, ok bool) {
		bo, isBo := x.(*ssa.BinOp)
		if !isBo || bo.Op != token.MUL {
			return nil, nil, false
		}
		return bo.X, bo.Y, true
	}
	la, lb, ok := mul(ms.Len)
	if !ok {
		return nil
	}
	var view *ssa.Slice
	for _, r := range *ms.Referrers() {
		switch x := r.(type) {
		case *ssa.Slice:
			if x.Low == nil && x.High == nil {
				continue // whole-buffer read view
			}
			if view != nil {
				return nil
			}
			view = x
		case *ssa.IndexAddr:
			for _, u := range *x.Referrers() {
				if st, isSt := u.(*ssa.Store); isSt && st.Addr == ssa.Value(x) {
					return nil
				}
			}
		case ssa.CallInstruction:
			cc := x.Common()
			if b, isB := cc.Value.(*ssa.Builtin); isB {
				if b.Name() == "copy" && cc.Args[0] == v {
					return nil
				}
				continue
			}
			if fillerCallee(calleeName(cc)) {
				return nil
			}
		}
	}
	if view == nil || view.Low == nil || view.High == nil {
		return nil
	}
	// the view is written by exactly one copy and nothing else
	var cp *ssa.Call
	for _, r := range *view.Referrers() {
		c, isCall := r.(*ssa.Call)
		if !isCall {
			if _, isDbg := r.(*ssa.DebugRef); isDbg {
				continue
			}
			return nil
		}
		b, isB := c.Call.Value.(*ssa.Builtin)
		if !isB || b.Name() != "copy" || c.Call.Args[0] != ssa.Value(view) || cp != nil {
			return nil
		}
		cp = c
	}
	if cp == nil {
		return nil
	}
	// low = i*E
	ia, ib, ok := mul(view.Low)
	if !ok {
		return nil
	}
	var iv *ssa.Phi
	var E ssa.Value
	if ph, isPhi := ia.(*ssa.Phi); isPhi {
		iv, E = ph, ib
	} else if ph, isPhi := ib.(*ssa.Phi); isPhi {
		iv, E = ph, ia
	} else {
		return nil
	}
	sameVal := func(a, b ssa.Value) bool {
		if a == b {
			return true
		}
		ca, ok1 := a.(*ssa.Const)
		cb, ok2 := b.(*ssa.Const)
		return ok1 && ok2 && ca.Value != nil && cb.Value != nil && ca.Value.ExactString() == cb.Value.ExactString()
	}
	// high = low + E  or  (i+1)*E
	okHigh := false
	if bo, isBo := view.High.(*ssa.BinOp); isBo {
		switch bo.Op {
		case token.ADD:
			okHigh = (bo.X == view.Low && sameVal(bo.Y, E)) || (bo.Y == view.Low && sameVal(bo.X, E))
		case token.MUL:
			for _, pr := range [][2]ssa.Value{{bo.X, bo.Y}, {bo.Y, bo.X}} {
				if inc, isInc := pr[0].(*ssa.BinOp); isInc && inc.Op == token.ADD && sameVal(pr[1], E) {
					if c, isC := inc.Y.(*ssa.Const); isC && inc.X == ssa.Value(iv) && c.Value != nil && c.Value.ExactString() == "1" {
						okHigh = true
					}
				}
			}
		}
	}
	if !okHigh {
		return nil
	}
	// i: 0-based, unit step, loop continues while i < n; buffer length n*E
	var loop *Loop
	for _, l := range naturalLoops(s.fn) {
		if l.Header == iv.Block() {
			loop = l
		}
	}
	if loop == nil || !loop.Blocks[cp.Block()] || len(iv.Edges) != 2 {
		return nil
	}
	for i, e := range iv.Edges {
		if loop.Blocks[iv.Block().Preds[i]] {
			inc, isInc := e.(*ssa.BinOp)
			if !isInc || inc.Op != token.ADD || inc.X != ssa.Value(iv) {
				return nil
			}
			if c, isC := inc.Y.(*ssa.Const); !isC || c.Value == nil || c.Value.ExactString() != "1" {
				return nil
			}
		} else if c, isC := e.(*ssa.Const); !isC || c.Value == nil || c.Value.ExactString() != "0" {
			return nil
		}
	}
	var n ssa.Value
	if ifi, isIf := iv.Block().Instrs[len(iv.Block().Instrs)-1].(*ssa.If); isIf {
		if bo, isBo := ifi.Cond.(*ssa.BinOp); isBo && bo.Op == token.LSS && bo.X == ssa.Value(iv) && loop.Blocks[iv.Block().Succs[0]] {
			n = bo.Y
		}
	}
	if n == nil {
		return nil
	}
	if !((sameVal(la, n) && sameVal(lb, E)) || (sameVal(lb, n) && sameVal(la, E))) {
		return nil
	}
	return T("each", "", T("make", "", s.Of(E), T("copy", "", s.Of(cp.Call.Args[1]))))
}

// slotForward: slots := make([][]byte, n); for i := 0; i < n; i++ { slots[i] = V(i) }
// ... slots[j] read in a later loop over the same n. When `slots` is a local
// slice of byte slices used only through slots[k] element addresses and len,
// with ONE store site whose loop runs k = 0..n-1 (n the make's own length), a
// later load of slots[j] is V(j). Returned with the store loop's own index
// variable in it (rules match element indices with a wildcard); the load must
// be outside the store loop and dominated by its exit.
func (s *Sym) slotForward(ia *ssa.IndexAddr, at *ssa.UnOp) *Term {
	ms, ok := ia.X.(*ssa.MakeSlice)
	if !ok {
		return nil
	}
	sl, ok := ms.Type().Underlying().(*types.Slice)
	if !ok {
		return nil
	}
	if s.keepSlots && isByteSliceOrString(sl.Elem().Underlying()) {
		return nil
	}
	var store *ssa.Store
	for _, r := range *ms.Referrers() {
		switch x := r.(type) {
		case *ssa.DebugRef:
		case *ssa.IndexAddr:
			for _, u := range *x.Referrers() {
				switch y := u.(type) {
				case *ssa.Store:
					if y.Addr != ssa.Value(x) || store != nil {
						return nil
					}
					store = y
				case *ssa.UnOp, *ssa.DebugRef:
				default:
					return nil
				}
			}
		case *ssa.Call:
			if b, isB := x.Call.Value.(*ssa.Builtin); !isB || (b.Name() != "len" && b.Name() != "cap") {
				return nil
			}
		case *ssa.Range, *ssa.Phi:
			// ranged over / merged: element reads only if nothing else stores (checked above)
			if _, isPhi := x.(*ssa.Phi); isPhi {
				return nil
			}
		default:
			return nil
		}
	}
	if store == nil {
		return nil
	}
	var loop *Loop
	for _, l := range naturalLoops(s.fn) {
		if l.Blocks[store.Block()] && (loop == nil || len(l.Blocks) < len(loop.Blocks)) {
			loop = l
		}
	}
	if loop == nil {
		return nil
	}
	if loop.Blocks[at.Block()] {
		// read back in the same iteration: same index value, after the store
		if ia.Index == store.Addr.(*ssa.IndexAddr).Index && dominates(store, at) {
			return s.Of(store.Val)
		}
		return nil
	}
	// every iteration stores (the store's block dominates the back edges), the
	// store index is the loop's 0-based unit counter, bounded by the make's length
	for _, latch := range loop.Latches {
		if !store.Block().Dominates(latch) {
			return nil
		}
	}
	six := store.Addr.(*ssa.IndexAddr).Index
	n := s.loopCountOf(loop, six)
	if n == nil || s.Of(n).String() != s.Of(ms.Len).String() {
		return nil
	}
	// the load happens after the loop: some exit block of the loop dominates it
	after := false
	for b := range loop.Blocks {
		for _, su := range b.Succs {
			if !loop.Blocks[su] && (su == at.Block() || su.Dominates(at.Block())) {
				after = true
			}
		}
	}
	if !after {
		return nil
	}
	val := s.Of(store.Val)
	// a slot holding a buffer may be filled through the slot (copy(slots[k], x)):
	// writers reached through loads of the slots
	var writers []ssa.Instruction
	for _, r := range *ms.Referrers() {
		x, ok := r.(*ssa.IndexAddr)
		if !ok {
			continue
		}
		for _, u := range *x.Referrers() {
			ld, ok := u.(*ssa.UnOp)
			if !ok {
				continue
			}
			for _, uu := range *ld.Referrers() {
				if viewWriter(uu, ld) {
					writers = append(writers, uu)
				}
				if sl, ok := uu.(*ssa.Slice); ok {
					for _, u3 := range *sl.Referrers() {
						if viewWriter(u3, sl) {
							writers = append(writers, u3)
						}
					}
				}
			}
		}
	}
	if len(writers) > 0 {
		inner, isMake := store.Val.(*ssa.MakeSlice)
		if len(writers) != 1 || !isMake {
			return nil
		}
		c, isCall := writers[0].(*ssa.Call)
		if !isCall || !loop.Blocks[c.Block()] || !dominates(store, c) {
			return nil
		}
		b, isB := c.Call.Value.(*ssa.Builtin)
		if !isB || b.Name() != "copy" {
			return nil
		}
		dst, isLd := c.Call.Args[0].(*ssa.UnOp)
		if !isLd {
			return nil
		}
		dia, isIA := dst.X.(*ssa.IndexAddr)
		if !isIA || dia.Index != six {
			return nil
		}
		val = T("make", "", s.Of(inner.Len), T("copy", "", s.Of(c.Call.Args[1])))
	}
	// V(k) with the store loop's index k renamed to the index read here
	return substTerm(val, s.Of(six).String(), s.Of(ia.Index))
}

// substTerm: t with every subterm printing as `from` replaced by `to`.
func substTerm(t *Term, from string, to *Term) *Term {
	if t == nil {
		return nil
	}
	if t.String() == from {
		return to
	}
	if len(t.Args) == 0 || !strings.Contains(t.String(), from) {
		return t
	}
	c := *t
	c.Args = make([]*Term, len(t.Args))
	for i, a := range t.Args {
		c.Args[i] = substTerm(a, from, to)
	}
	c.str = ""
	return &c
}

// loopCountOf: idx is the 0-based unit-step counter of loop l (a header phi
// 0, +1 tested `idx < n`, or the index of a range over a slice); returns n (the
// bound value, or the len(...) of the ranged slice as an SSA value when
// available), nil otherwise.
func (s *Sym) loopCountOf(l *Loop, idx ssa.Value) ssa.Value {
	switch x := idx.(type) {
	case *ssa.Phi:
		if x.Block() != l.Header || len(x.Edges) < 2 {
			return nil
		}
		for i, e := range x.Edges {
			if l.Blocks[x.Block().Preds[i]] {
				inc, ok := e.(*ssa.BinOp)
				if !ok || inc.Op != token.ADD || inc.X != ssa.Value(x) {
					return nil
				}
				if c, ok := inc.Y.(*ssa.Const); !ok || c.Value == nil || c.Value.ExactString() != "1" {
					return nil
				}
			} else if c, ok := e.(*ssa.Const); !ok || c.Value == nil || c.Value.ExactString() != "0" {
				return nil
			}
		}
		if ifi, ok := x.Block().Instrs[len(x.Block().Instrs)-1].(*ssa.If); ok {
			if bo, ok := ifi.Cond.(*ssa.BinOp); ok && bo.Op == token.LSS && bo.X == ssa.Value(x) && l.Blocks[x.Block().Succs[0]] {
				return bo.Y
			}
		}
	case *ssa.BinOp:
		// go/ssa's range-over-slice: idx = phi(-1, idx) + 1 tested `idx < len(s)`
		if x.Op != token.ADD {
			return nil
		}
		ph, ok := x.X.(*ssa.Phi)
		if !ok || ph.Block() != l.Header || len(ph.Edges) < 2 {
			return nil
		}
		if c, ok := x.Y.(*ssa.Const); !ok || c.Value == nil || c.Value.ExactString() != "1" {
			return nil
		}
		for i, e := range ph.Edges {
			if l.Blocks[ph.Block().Preds[i]] {
				if e != ssa.Value(x) {
					return nil
				}
			} else if c, ok := e.(*ssa.Const); !ok || c.Value == nil || c.Value.ExactString() != "-1" {
				return nil
			}
		}
		if x.Block() != l.Header {
			return nil
		}
		if ifi, ok := x.Block().Instrs[len(x.Block().Instrs)-1].(*ssa.If); ok {
			if bo, ok := ifi.Cond.(*ssa.BinOp); ok && bo.Op == token.LSS && bo.X == ssa.Value(x) && l.Blocks[x.Block().Succs[0]] {
				return bo.Y
			}
		}
	}
	return nil
}

// sumAccumulator: total := 0; for ... { total += len(x(i)) } - after the loop
// total is the length of the concatenation of the x(i): len(each(x(i))). Only
// for a header phi whose value is used outside its loop (inside, it is a
// partial sum).
func (s *Sym) sumAccumulator(ph *ssa.Phi) *Term {
	b, ok := ph.Type().Underlying().(*types.Basic)
	if !ok || b.Info()&types.IsInteger == 0 || len(ph.Edges) != 2 || s.inSumAcc[ph] {
		return nil
	}
	var loop *Loop
	for _, l := range naturalLoops(s.fn) {
		if l.Header == ph.Block() {
			loop = l
		}
	}
	if loop == nil {
		return nil
	}
	var step *ssa.BinOp
	for i, e := range ph.Edges {
		if loop.Blocks[ph.Block().Preds[i]] {
			bo, ok := e.(*ssa.BinOp)
			if !ok || bo.Op != token.ADD {
				return nil
			}
			step = bo
		} else if c, ok := e.(*ssa.Const); !ok || c.Value == nil || c.Value.ExactString() != "0" {
			return nil
		}
	}
	if step == nil {
		return nil
	}
	var add ssa.Value
	switch {
	case step.X == ssa.Value(ph):
		add = step.Y
	case step.Y == ssa.Value(ph):
		add = step.X
	default:
		return nil
	}
	for {
		if cv, ok := add.(*ssa.Convert); ok {
			add = cv.X
			continue
		}
		break
	}
	lc, ok := add.(*ssa.Call)
	if !ok {
		return nil
	}
	if bi, ok := lc.Call.Value.(*ssa.Builtin); !ok || bi.Name() != "len" {
		return nil
	}
	// every iteration adds (single back edge value is phi + len) and the phi is
	// used only by its own step inside the loop
	for _, r := range *ph.Referrers() {
		if r == ssa.Instruction(step) {
			continue
		}
		if _, isDbg := r.(*ssa.DebugRef); isDbg {
			continue
		}
		if loop.Blocks[r.Block()] {
			if _, isIf := r.(*ssa.If); isIf {
				continue
			}
			return nil
		}
	}
	for _, r := range *step.Referrers() {
		if r != ssa.Instruction(ph) {
			if _, isDbg := r.(*ssa.DebugRef); !isDbg {
				return nil
			}
		}
	}
	if s.inSumAcc == nil {
		s.inSumAcc = map[*ssa.Phi]bool{}
	}
	s.inSumAcc[ph] = true
	defer delete(s.inSumAcc, ph)
	x := s.Of(lc.Call.Args[0])
	return T("len", "", T("each", "", x))
}

// linTerm renders a constant linear form as a term (nil if not constant).
func linTerm(l Lin) *Term {
	if len(l.c) == 0 && l.k.IsInt() {
		return T("const", l.k.Num().String())
	}
	if len(l.c) == 1 && l.k.Sign() == 0 {
		for name, c := range l.c {
			if c.Cmp(big.NewRat(1, 1)) == 0 {
				return T("linatom", name)
			}
		}
	}
	return nil
}

// canonBigBytes: x.FillBytes(make([]byte, (x.BitLen()+7)>>3)) is x.Bytes()
// (the minimal big-endian encoding), by the documented contract of math/big.
func canonBigBytes(t *Term) *Term {
	if t.Op != "make" || len(t.Args) != 2 || t.Args[1].Op != "fill" || t.Args[1].Name != "(*math/big.Int).FillBytes" || len(t.Args[1].Args) != 2 {
		return t
	}
	x := t.Args[1].Args[0]
	xs := x.String()
	for _, ln := range []string{
		"bin<>>>(bin<+>(call<(*math/big.Int).BitLen>(" + xs + "), const:7), const:3)",
		"bin<>>>(bin<+>(const:7, call<(*math/big.Int).BitLen>(" + xs + ")), const:3)",
		"bin</>(bin<+>(call<(*math/big.Int).BitLen>(" + xs + "), const:7), const:8)",
		"bin</>(bin<+>(const:7, call<(*math/big.Int).BitLen>(" + xs + ")), const:8)",
	} {
		if t.Args[0].String() == ln || (t.Args[0].Op == "linatom" && t.Args[0].Name == ln) {
			return &Term{Op: "call", Name: "(*math/big.Int).Bytes", Args: []*Term{x}, Src: t.Src}
		}
	}
	return t
}

// cellReadOnly: the local cell holds a pointer stored once (by `init`); every
// use of the cell is a load whose value is used read-only, possibly inside a
// closure capturing the cell.
func cellReadOnly(cell *ssa.Alloc, init *ssa.Store, depth int, seen map[ssa.Value]bool) bool {
	var uses func(c ssa.Value) bool
	uses = func(c ssa.Value) bool {
		refs := c.Referrers()
		if refs == nil {
			return true
		}
		for _, r := range *refs {
			switch x := r.(type) {
			case *ssa.DebugRef:
			case *ssa.Store:
				if x != init {
					return false
				}
			case *ssa.UnOp:
				if !addrReadOnly(x, depth, seen) {
					return false
				}
			case *ssa.MakeClosure:
				fn, ok := x.Fn.(*ssa.Function)
				if !ok {
					return false
				}
				for i, b := range x.Bindings {
					if b == c {
						if i >= len(fn.FreeVars) || !uses(fn.FreeVars[i]) {
							return false
						}
					}
				}
			default:
				return false
			}
		}
		return true
	}
	return uses(cell)
}

// spilledParam: v is a parameter, or a load of a local cell (or of a closure's
// free variable bound to such a cell) that holds a parameter stored exactly once.
func spilledParam(v ssa.Value) *ssa.Parameter {
	for i := 0; i < 4; i++ {
		switch x := v.(type) {
		case *ssa.Parameter:
			return x
		case *ssa.UnOp:
			if x.Op != token.MUL {
				return nil
			}
			switch c := x.X.(type) {
			case *ssa.Alloc:
				var val ssa.Value
				n := 0
				for _, r := range *c.Referrers() {
					if st, ok := r.(*ssa.Store); ok && st.Addr == c {
						n++
						val = st.Val
					}
				}
				if n != 1 {
					return nil
				}
				v = val
			case *ssa.FreeVar:
				// find the binding in the enclosing function's MakeClosure
				fn := c.Parent()
				idx := -1
				for i, fv := range fn.FreeVars {
					if fv == c {
						idx = i
					}
				}
				par := fn.Parent()
				if idx < 0 || par == nil {
					return nil
				}
				var cell ssa.Value
				for _, b := range par.Blocks {
					for _, in := range b.Instrs {
						if mc, ok := in.(*ssa.MakeClosure); ok && mc.Fn == ssa.Value(fn) && idx < len(mc.Bindings) {
							cell = mc.Bindings[idx]
						}
					}
				}
				al, ok := cell.(*ssa.Alloc)
				if !ok {
					return nil
				}
				var val ssa.Value
				n := 0
				for _, r := range *al.Referrers() {
					if st, ok := r.(*ssa.Store); ok && st.Addr == al {
						n++
						val = st.Val
					}
				}
				if n != 1 {
					return nil
				}
				v = val
			default:
				return nil
			}
		default:
			return nil
		}
	}
	return nil
}

func isBuilderPtr(t types.Type) bool {
	return strings.HasSuffix(t.String(), "golang.org/x/crypto/cryptobyte.Builder") && strings.HasPrefix(t.String(), "*")
}

// termAnchors: unexported functions outside the forks that rules name as
// steps (they stay opaque calls in terms however small they become).
var termAnchors = map[string]bool{"unpadOriginName": true}

// cacheFillValue: v is a load of field f of some base; the function stores to
// that field exactly once, in a block guarded by `f == nil` (of the same base),
// and that store reaches the load: the value on the miss path.
func (s *Sym) cacheFillValue(v ssa.Value) *Term {
	u, ok := v.(*ssa.UnOp)
	if !ok || u.Op != token.MUL {
		return nil
	}
	fa, ok := u.X.(*ssa.FieldAddr)
	if !ok {
		return nil
	}
	var stores []*ssa.Store
	for _, b := range fa.Parent().Blocks {
		for _, in := range b.Instrs {
			if st, ok := in.(*ssa.Store); ok {
				if ofa, ok := st.Addr.(*ssa.FieldAddr); ok && ofa.Field == fa.Field && sameBase(ofa.X, fa.X) {
					stores = append(stores, st)
				}
			}
		}
	}
	if len(stores) != 1 || !reaches(stores[0], u) || dominates(stores[0], u) {
		return nil
	}
	guarded := false
	for _, a := range s.ff.At(stores[0].Block()) {
		if a.Kind == IsNil && a.Pol {
			if l, ok := a.V.(*ssa.UnOp); ok && l.Op == token.MUL {
				if fb, ok := l.X.(*ssa.FieldAddr); ok && fb.Field == fa.Field && sameBase(fb.X, fa.X) {
					guarded = true
				}
			}
		}
	}
	if !guarded {
		return nil
	}
	return s.objAt(stores[0].Val, stores[0])
}

// loopAccumulator: a byte-slice phi at a loop header whose back-edge value is
// the phi itself with bytes appended (append, quicwire.Append*, ...): the
// accumulated value is init || each(what one iteration appends).
func (s *Sym) loopAccumulator(ph *ssa.Phi) *Term {
	if !isByteSliceOrString(ph.Type().Underlying()) || len(ph.Edges) != 2 || s.inLoopAcc[ph] {
		return nil
	}
	b := ph.Block()
	back := -1
	for i, pr := range b.Preds {
		if b.Dominates(pr) {
			if back >= 0 {
				return nil
			}
			back = i
		}
	}
	if back < 0 {
		return nil
	}
	if s.inLoopAcc == nil {
		s.inLoopAcc = map[*ssa.Phi]bool{}
	}
	s.inLoopAcc[ph] = true
	defer delete(s.inLoopAcc, ph)
	marker := T("acc", ph.Name())
	tmp := *s
	tmp.memo = map[ssa.Value]*Term{ph: marker}
	step := tmp.Of(ph.Edges[back])
	if step.Op != "cat" || len(step.Args) < 2 || step.Args[0].String() != marker.String() {
		return nil
	}
	for _, a := range step.Args[1:] {
		if a.ContainsStr(marker.String()) {
			return nil
		}
	}
	init := s.Of(ph.Edges[1-back])
	return catTerms(init, T("each", "", catTerms(step.Args[1:]...)))
}

// decidedEdge: the phi merges the two arms of a branch whose condition is a
// constant in this evaluation context (a flag parameter of an inlined helper
// bound to true or false at the call): the edge of the arm taken.
func (s *Sym) decidedEdge(v *ssa.Phi) ssa.Value {
	b := v.Block()
	d := b.Idom()
	if d == nil || len(d.Instrs) == 0 || len(d.Succs) != 2 {
		return nil
	}
	ifi, ok := d.Instrs[len(d.Instrs)-1].(*ssa.If)
	if !ok {
		return nil
	}
	if _, isParamDep := ifi.Cond.(*ssa.Parameter); !isParamDep {
		// keep this cheap and predictable: flags only (a parameter, or its negation)
		u, ok := ifi.Cond.(*ssa.UnOp)
		if !ok || u.Op != token.NOT {
			return nil
		}
		if _, ok := u.X.(*ssa.Parameter); !ok {
			return nil
		}
	}
	ct := s.Of(ifi.Cond)
	if ct.Op == "not" && len(ct.Args) == 1 && ct.Args[0].Op == "const" {
		switch ct.Args[0].Name {
		case "true":
			ct = &Term{Op: "const", Name: "false"}
		case "false":
			ct = &Term{Op: "const", Name: "true"}
		}
	}
	if ct.Op != "const" || (ct.Name != "true" && ct.Name != "false") {
		return nil
	}
	taken, other := d.Succs[0], d.Succs[1]
	if ct.Name == "false" {
		taken, other = other, taken
	}
	var pick ssa.Value
	n := 0
	for i, p := range b.Preds {
		feasible := (p == d && b == taken) || (taken != b && taken.Dominates(p))
		infeasible := (p == d && b == other) || (other != b && other.Dominates(p))
		if feasible == infeasible {
			return nil
		}
		if feasible {
			pick = v.Edges[i]
			n++
		}
	}
	if n != 1 {
		return nil
	}
	return pick
}

// rangeWriteAll: ci is h.Write(P[i]) in a loop that runs i over every index
// of the slice P (0, 1, ..., len(P)-1): the concatenation of P's elements.
func (s *Sym) rangeWriteAll(ci ssa.CallInstruction) *Term {
	cc := ci.Common()
	if cc.Method == nil || cc.Method.Name() != "Write" || len(cc.Args) != 1 {
		return nil
	}
	ld, ok := cc.Args[0].(*ssa.UnOp)
	if !ok || ld.Op != token.MUL {
		return nil
	}
	ia, ok := ld.X.(*ssa.IndexAddr)
	if !ok {
		return nil
	}
	l := innermostLoop(naturalLoops(s.fn), ci.Block())
	if l == nil {
		return nil
	}
	bound := s.loopCountOf(l, ia.Index)
	if bound == nil {
		return nil
	}
	bc, ok := bound.(*ssa.Call)
	if !ok {
		return nil
	}
	if bi, ok := bc.Call.Value.(*ssa.Builtin); !ok || bi.Name() != "len" || bc.Call.Args[0] != ia.X {
		return nil
	}
	// nothing else in the loop touches the hash: the caller checked that this is
	// the only call on it that does not dominate the Sum
	pt := s.Of(ia.X)
	if pt.Op == "list" {
		return catTerms(pt.Args...)
	}
	return T("each", "", pt)
}
