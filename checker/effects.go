package main

// E5: which memory a function may write - through which parameter, or which
// package-level variable. Bottom-up may-write summaries over SSA,
// parameter-sensitive and field-insensitive, with a reviewed table for the
// standard library.

import (
	"fmt"
	"go/token"
	"go/types"
	"os"
	"sort"
	"strings"

	"golang.org/x/tools/go/ssa"
)

// dRoot: memory reached by loading a pointer stored in the memory parameter
// idx designates; field is the first struct field selected on the way (""
// when unknown). The field qualifier lets a caller see that a callee writes
// only what e.x points to, not everything a fresh *e embeds.
type dRoot struct {
	idx   int
	field string
}

// rootSet: s = parameters whose own memory (*p, p.f, p[k], slice array, map)
// a value may point into; d = deep roots; g = package-level variables.
type rootSet struct {
	s uint32
	d []dRoot
	g []*ssa.Global
}

const fvIdx = 31

func sRoot(i int) rootSet              { return rootSet{s: 1 << uint(i)} }
func dRootSet(i int, f string) rootSet { return rootSet{d: []dRoot{{i, f}}} }
func gRoot(g *ssa.Global) rootSet      { return rootSet{g: []*ssa.Global{g}} }

func (a rootSet) empty() bool { return a.s == 0 && len(a.d) == 0 && len(a.g) == 0 }

func (a rootSet) hasD(x dRoot) bool {
	for _, y := range a.d {
		if y == x {
			return true
		}
	}
	return false
}

func (a rootSet) union(b rootSet) rootSet {
	if b.empty() {
		return a
	}
	if a.empty() {
		return b
	}
	out := rootSet{s: a.s | b.s, d: a.d, g: a.g}
	copied := false
	for _, x := range b.d {
		if !out.hasD(x) {
			if !copied {
				out.d = append([]dRoot(nil), a.d...)
				copied = true
			}
			out.d = append(out.d, x)
		}
	}
	if copied {
		sort.Slice(out.d, func(i, j int) bool {
			if out.d[i].idx != out.d[j].idx {
				return out.d[i].idx < out.d[j].idx
			}
			return out.d[i].field < out.d[j].field
		})
	}
	copied = false
	for _, x := range b.g {
		found := false
		for _, y := range out.g {
			if x == y {
				found = true
			}
		}
		if !found {
			if !copied {
				out.g = append([]*ssa.Global(nil), a.g...)
				copied = true
			}
			out.g = append(out.g, x)
		}
	}
	if copied {
		sort.Slice(out.g, func(i, j int) bool { return out.g[i].RelString(nil) < out.g[j].RelString(nil) })
	}
	return out
}

func (a rootSet) equal(b rootSet) bool {
	if a.s != b.s || len(a.d) != len(b.d) || len(a.g) != len(b.g) {
		return false
	}
	for i := range a.d {
		if a.d[i] != b.d[i] {
			return false
		}
	}
	for i := range a.g {
		if a.g[i] != b.g[i] {
			return false
		}
	}
	return true
}

// deepen: the roots of a pointer loaded from memory with address roots `a`
// through field `f` ("" if no field selection was involved).
func deepen(a rootSet, f string) rootSet {
	out := rootSet{g: a.g}
	for i := 0; i < 32; i++ {
		if a.s&(1<<uint(i)) != 0 {
			out = out.union(dRootSet(i, f))
		}
	}
	out = out.union(rootSet{d: a.d})
	return out
}

func (a rootSet) String() string {
	var parts []string
	for i := 0; i < 32; i++ {
		if a.s&(1<<uint(i)) != 0 {
			parts = append(parts, fmt.Sprintf("S%d", i))
		}
	}
	for _, d := range a.d {
		parts = append(parts, fmt.Sprintf("D%d.%s", d.idx, d.field))
	}
	for _, g := range a.g {
		parts = append(parts, "G:"+g.Name())
	}
	return "{" + strings.Join(parts, ",") + "}"
}

// Witness records why a root is considered written.
type Witness struct {
	Site ssa.Instruction // the store / copy / append / map update
	Via  []*ssa.Function // call chain from the summarised function down to Site's function
}

// Summary of one function.
type Summary struct {
	WritesS    map[int]*Witness         // writes memory designated by parameter i
	WritesD    map[dRoot]*Witness       // writes memory reached through pointers stored in parameter i's memory
	WritesGlob map[*ssa.Global]*Witness // package-level variable (itself or reached through it)
	RetAddr    []rootSet                // per result: may point into these roots
	RetCont    []rootSet                // per result: may contain pointers into these roots
	RetContF   []map[string]rootSet     // per result, when it is a fresh struct: content per top-level field
	once       map[*ssa.Global]*Witness // global writes inside a sync.Once.Do closure
	// StoresF: pointers the function may store INTO the memory parameter i
	// designates, per top-level field ("*" unknown): afterwards that memory may
	// contain pointers into these (callee-side) roots.
	StoresF map[int]map[string]rootSet
	// All: every distinct (root, function containing the writing instruction)
	// pair, so that one root written at several places is reported at each.
	All map[wKey]*Witness
}

// wKey identifies one write: which root, and in which function the store is.
type wKey struct {
	kind   byte // 'S', 'D', 'G'
	idx    int
	field  string
	glob   *ssa.Global
	siteFn *ssa.Function
	op     string // what the writing instruction is: "store", "mapupdate", or the callee name
}

func (k wKey) root() rootSet {
	switch k.kind {
	case 'S':
		return sRoot(k.idx)
	case 'D':
		return dRootSet(k.idx, k.field)
	}
	return gRoot(k.glob)
}

func (k wKey) String() string {
	switch k.kind {
	case 'S':
		return fmt.Sprintf("S%d", k.idx)
	case 'D':
		return fmt.Sprintf("D%d.%s", k.idx, k.field)
	}
	return "G:" + k.glob.RelString(nil)
}

func newSummary(nres int) *Summary {
	return &Summary{WritesS: map[int]*Witness{}, WritesD: map[dRoot]*Witness{}, WritesGlob: map[*ssa.Global]*Witness{}, once: map[*ssa.Global]*Witness{}, All: map[wKey]*Witness{}, StoresF: map[int]map[string]rootSet{},
		RetAddr: make([]rootSet, nres), RetCont: make([]rootSet, nres), RetContF: make([]map[string]rootSet, nres)}
}

type Effects struct {
	p        *Prog
	sum      map[*ssa.Function]*Summary
	inWL     map[*ssa.Function]bool
	wl       []*ssa.Function
	callers  map[*ssa.Function]map[*ssa.Function]bool
	globCont map[*ssa.Global]rootSet
	Stats    struct{ Funcs, Iter int }
}

func pointerLike(t types.Type) bool {
	switch t := t.Underlying().(type) {
	case *types.Pointer, *types.Slice, *types.Map, *types.Chan, *types.Interface, *types.Signature:
		return true
	case *types.Struct:
		for i := 0; i < t.NumFields(); i++ {
			if pointerLike(t.Field(i).Type()) {
				return true
			}
		}
	case *types.Array:
		return pointerLike(t.Elem())
	case *types.Tuple:
		for i := 0; i < t.Len(); i++ {
			if pointerLike(t.At(i).Type()) {
				return true
			}
		}
	}
	return false
}

// addrLike: the value itself designates memory (as opposed to an aggregate
// value that merely contains pointers).
func addrLike(t types.Type) bool {
	switch t.Underlying().(type) {
	case *types.Pointer, *types.Slice, *types.Map, *types.Chan, *types.Interface, *types.Signature:
		return true
	}
	return false
}

// stdWrites: reviewed table of standard-library callees that write the memory
// an argument designates. Index is the position in the SSA argument list
// (receiver first for methods). Std callees not listed are assumed not to
// write through their arguments (documented contracts).
var stdWrites = map[string][]int{
	"io.ReadFull":                              {1},
	"io.ReadAtLeast":                           {1},
	"crypto/rand.Read":                         {0},
	"encoding/hex.Decode":                      {0},
	"encoding/hex.Encode":                      {0},
	"crypto/subtle.ConstantTimeCopy":           {1},
	"crypto/subtle.XORBytes":                   {0},
	"(*crypto/cipher.StreamReader).Read":       {1},
	"(crypto/cipher.StreamReader).Read":        {1},
	"(*math/big.Int).FillBytes":                {1},
	"encoding/binary.Read":                     {2},
	"(encoding/binary.bigEndian).PutUint16":    {1},
	"(encoding/binary.bigEndian).PutUint32":    {1},
	"(encoding/binary.bigEndian).PutUint64":    {1},
	"(encoding/binary.littleEndian).PutUint16": {1},
	"(encoding/binary.littleEndian).PutUint32": {1},
	"(encoding/binary.littleEndian).PutUint64": {1},
}

// stdInvokeWrites: interface methods (by "(iface).Method") writing the memory
// an argument designates (index counts the receiver as 0).
var stdInvokeWrites = map[string][]int{
	"(io.Reader).Read":                      {1},
	"(crypto/cipher.Stream).XORKeyStream":   {1},
	"(crypto/cipher.AEAD).Seal":             {1},
	"(crypto/cipher.AEAD).Open":             {1},
	"(crypto/cipher.Block).Encrypt":         {1},
	"(crypto/cipher.Block).Decrypt":         {1},
	"(hash.Hash).Sum":                       {1},
	"(hash.Hash).Write":                     {0},
	"(hash.Hash).Reset":                     {0},
	"(io.Writer).Write":                     {0},
	"(crypto/cipher.BlockMode).CryptBlocks": {1},
}

func isStdOrTable(f *ssa.Function) bool {
	pk := fnPkgPath(f)
	if pk == "" {
		return true
	}
	if strings.Contains(pk, ".") {
		return strings.HasPrefix(pk, "golang.org/x/crypto/cryptobyte")
	}
	return true
}

// tableSummary: summary of a std / cryptobyte function.
func tableSummary(f *ssa.Function) *Summary {
	s := newSummary(f.Signature.Results().Len())
	name := f.RelString(nil)
	if w, ok := stdWrites[name]; ok {
		for _, i := range w {
			s.WritesS[i] = &Witness{}
		}
	}
	recv := f.Signature.Recv()
	pk := fnPkgPath(f)
	if recv != nil {
		if _, isPtr := recv.Type().(*types.Pointer); isPtr {
			switch {
			case strings.HasPrefix(pk, "golang.org/x/crypto/cryptobyte") && strings.Contains(name, "cryptobyte.String)"):
				// a String is a view: its methods move the view, never the bytes
				if !readOnlyStdMethod(f) {
					s.WritesS[0] = &Witness{}
				}
			case pk == "math/big", pk == "bytes" && strings.Contains(name, "Buffer"), pk == "strings" && strings.Contains(name, "Builder"),
				strings.HasPrefix(pk, "golang.org/x/crypto/cryptobyte"), pk == "crypto/sha256", pk == "crypto/sha512", pk == "hash":
				if !readOnlyStdMethod(f) {
					s.WritesS[0] = &Witness{}
					s.WritesD[dRoot{0, ""}] = &Witness{}
				}
			}
		}
	}
	if strings.HasPrefix(pk, "golang.org/x/crypto/cryptobyte") && recv != nil && strings.Contains(name, "String).Read") {
		for i := 1; i < len(f.Params); i++ {
			switch f.Params[i].Type().Underlying().(type) {
			case *types.Pointer, *types.Interface:
				s.WritesS[i] = &Witness{}
			}
		}
	}
	if pk == "sync" && recv != nil {
		switch name {
		case "(*sync.Pool).Put", "(*sync.Map).Store", "(*sync.Map).Delete", "(*sync.Map).LoadOrStore", "(*sync.Map).LoadAndDelete", "(*sync.Map).Swap", "(*sync.Map).CompareAndSwap", "(*sync.Map).CompareAndDelete", "(*sync.Map).Clear":
			s.WritesS[0] = &Witness{}
			for i := 1; i < len(f.Params); i++ {
				if s.StoresF[0] == nil {
					s.StoresF[0] = map[string]rootSet{}
				}
				s.StoresF[0]["*"] = s.StoresF[0]["*"].union(sRoot(i)).union(dRootSet(i, ""))
			}
		}
		switch name {
		case "(*sync.Pool).Get", "(*sync.Map).Load", "(*sync.Map).LoadOrStore", "(*sync.Map).LoadAndDelete", "(*sync.Map).Swap":
			// hands out what the shared container holds
			if len(s.RetAddr) > 0 {
				s.RetAddr[0] = dRootSet(0, "")
				s.RetCont[0] = dRootSet(0, "")
			}
			if name == "(*sync.Pool).Get" {
				s.WritesS[0] = &Witness{} // removes the item from the pool
			}
		}
	}
	if strings.HasPrefix(pk, "sync/atomic") && recv != nil {
		switch f.Name() {
		case "Store", "Swap", "CompareAndSwap", "Add", "And", "Or":
			s.WritesS[0] = &Witness{}
		}
	}
	switch name {
	case "golang.org/x/crypto/cryptobyte.NewBuilder", "golang.org/x/crypto/cryptobyte.NewFixedBuilder":
		// the builder writes into the buffer it was given (behind its len, and
		// in place when the buffer has room): the builder holds that storage
		if len(s.RetCont) > 0 {
			s.RetCont[0] = sRoot(0).union(dRootSet(0, ""))
		}
	case "(*golang.org/x/crypto/cryptobyte.Builder).Bytes", "(*golang.org/x/crypto/cryptobyte.Builder).BytesOrPanic":
		// hands out the builder's own storage
		s.RetAddr[0] = dRootSet(0, "")
		s.RetCont[0] = dRootSet(0, "")
	case "(*bytes.Buffer).Bytes", "(*bytes.Buffer).Next", "(*bytes.Buffer).AvailableBuffer":
		// a view of the buffer's own storage
		s.RetAddr[0] = dRootSet(0, "")
		s.RetCont[0] = dRootSet(0, "")
	}
	if pk == "math/big" && recv != nil && len(s.RetAddr) > 0 {
		// z.Op(...) returns z; Bytes/Append/Text/... return fresh storage;
		// FillBytes returns the buffer it was given
		if _, isPtr := f.Signature.Results().At(0).Type().(*types.Pointer); isPtr {
			s.RetAddr[0] = sRoot(0)
			s.RetCont[0] = dRootSet(0, "")
		} else if f.Name() == "FillBytes" || f.Name() == "Append" {
			s.RetAddr[0] = sRoot(1)
			s.RetCont[0] = dRootSet(1, "")
		}
	}
	return s
}

func readOnlyStdMethod(f *ssa.Function) bool {
	switch f.Name() {
	case "Sign", "Cmp", "CmpAbs", "Bytes", "BitLen", "Bit", "Int64", "Uint64", "IsInt64", "IsUint64", "String", "Text", "Bits", "TrailingZeroBits", "ProbablyPrime",
		"Len", "Cap", "Size", "BlockSize", "Empty", "PeekASN1Tag", "FillBytes", "Append", "Format", "MarshalText", "MarshalJSON", "GobEncode", "IsInt", "Float64", "BytesOrPanic":
		return true
	}
	return false
}

var debugEffectsFn = os.Getenv("DEBUG_EFFECTS_FN")

func (p *Prog) NewEffects() *Effects {
	return &Effects{p: p, sum: map[*ssa.Function]*Summary{}, inWL: map[*ssa.Function]bool{}, callers: map[*ssa.Function]map[*ssa.Function]bool{}}
}

func (e *Effects) get(f *ssa.Function, caller *ssa.Function) *Summary {
	if f == nil {
		return newSummary(0)
	}
	if caller != nil {
		if e.callers[f] == nil {
			e.callers[f] = map[*ssa.Function]bool{}
		}
		e.callers[f][caller] = true
	}
	if s, ok := e.sum[f]; ok {
		return s
	}
	if f.Blocks == nil || isStdOrTable(f) {
		s := tableSummary(f)
		e.sum[f] = s
		return s
	}
	s := newSummary(f.Signature.Results().Len())
	e.sum[f] = s
	e.push(f)
	return s
}

func (e *Effects) push(f *ssa.Function) {
	if !e.inWL[f] {
		e.inWL[f] = true
		e.wl = append(e.wl, f)
	}
}

// Solve computes summaries for the given functions and everything they call.
func (e *Effects) Solve(entries ...*ssa.Function) {
	for _, f := range entries {
		e.get(f, nil)
	}
	for len(e.wl) > 0 {
		f := e.wl[len(e.wl)-1]
		e.wl = e.wl[:len(e.wl)-1]
		e.inWL[f] = false
		e.Stats.Iter++
		if e.analyse(f) {
			for c := range e.callers[f] {
				if c.Blocks != nil && !isStdOrTable(c) {
					e.push(c)
				}
			}
		}
	}
	e.Stats.Funcs = len(e.sum)
}

func (e *Effects) Summary(f *ssa.Function) *Summary { return e.sum[f] }

// fnState: per-function dataflow facts.
type fnState struct {
	a, c    map[ssa.Value]rootSet            // address roots / content roots of values
	cont    map[ssa.Value]rootSet            // where pointers stored in a fresh object (Alloc, MakeSlice, MakeMap) point
	contD   map[ssa.Value]rootSet            // what is reachable beyond those pointers
	contF   map[ssa.Value]map[string]rootSet // per-field version of cont (allocs and fresh call results)
	contFD  map[ssa.Value]map[string]rootSet // per-field version of contD
	changed bool
}

func (st *fnState) A(v ssa.Value) rootSet {
	switch v := v.(type) {
	case *ssa.Global:
		return gRoot(v)
	case *ssa.Const, *ssa.Function, *ssa.Builtin:
		return rootSet{}
	}
	return st.a[v]
}

func (st *fnState) C(v ssa.Value) rootSet {
	switch v := v.(type) {
	case *ssa.Global:
		return gRoot(v)
	case *ssa.Const, *ssa.Function, *ssa.Builtin:
		return rootSet{}
	case *ssa.Alloc, *ssa.MakeSlice, *ssa.MakeMap:
		return st.reach(st.cont[v], st.contD[v])
	}
	return st.c[v]
}

// reach: everything reachable from an object whose stored pointers point to
// `a` with `d` beyond them.
func (st *fnState) reach(a, d rootSet) rootSet {
	return a.union(d).union(deepen(rootSet{s: a.s}, ""))
}

func (st *fnState) setA(v ssa.Value, rs rootSet) {
	if rs.empty() {
		return
	}
	if n := st.a[v].union(rs); !n.equal(st.a[v]) {
		st.a[v] = n
		st.changed = true
	}
}

func (st *fnState) setC(v ssa.Value, rs rootSet) {
	if rs.empty() {
		return
	}
	switch v.(type) {
	case *ssa.Alloc, *ssa.MakeSlice, *ssa.MakeMap:
		if n := st.contD[v].union(rs); !n.equal(st.contD[v]) {
			st.contD[v] = n
			st.changed = true
		}
		return
	}
	if n := st.c[v].union(rs); !n.equal(st.c[v]) {
		st.c[v] = n
		st.changed = true
	}
}

// storeInto records that a pointer-like value with address roots a and
// content roots c is stored into fresh object obj (field fld, "" = unknown).
func (st *fnState) storeInto(obj ssa.Value, fld string, a, c rootSet) {
	if n := st.cont[obj].union(a); !n.equal(st.cont[obj]) {
		st.cont[obj] = n
		st.changed = true
	}
	if n := st.contD[obj].union(c); !n.equal(st.contD[obj]) {
		st.contD[obj] = n
		st.changed = true
	}
	if fld == "" {
		fld = "*"
	}
	st.setCF(obj, fld, a)
	m := st.contFD[obj]
	if m == nil {
		m = map[string]rootSet{}
		st.contFD[obj] = m
	}
	if n := m[fld].union(c); !n.equal(m[fld]) {
		m[fld] = n
		st.changed = true
	}
}

// fieldOf: (address roots, content roots) of what field fld of tracked fresh
// object obj holds.
func (st *fnState) fieldOf(obj ssa.Value, fld string) (rootSet, rootSet) {
	var a, d rootSet
	match := func(k string) bool {
		return k == fld || strings.HasPrefix(k, fld+".") || strings.HasPrefix(fld, k+".")
	}
	for k, rs := range st.contF[obj] {
		if k == "*" {
			a = a.union(qualify(rs, fld))
		} else if match(k) {
			a = a.union(rs)
		}
	}
	for k, rs := range st.contFD[obj] {
		if k == "*" {
			d = d.union(qualify(rs, fld))
		} else if match(k) {
			d = d.union(rs)
		}
	}
	return a, st.reach(a, d)
}

func (st *fnState) setCF(obj ssa.Value, field string, rs rootSet) {
	m := st.contF[obj]
	if m == nil {
		m = map[string]rootSet{}
		st.contF[obj] = m
	}
	if n := m[field].union(rs); !n.equal(m[field]) {
		m[field] = n
		st.changed = true
	}
}

// cellTarget: v is a load of a local pointer variable (spill cell) that is
// assigned exactly once, with a fresh local object: returns that object.
func cellTarget(v ssa.Value) ssa.Value {
	ld, ok := v.(*ssa.UnOp)
	if !ok || ld.Op != token.MUL {
		return nil
	}
	cell, ok := ld.X.(*ssa.Alloc)
	if !ok {
		return nil
	}
	var val ssa.Value
	n := 0
	for _, r := range *cell.Referrers() {
		if st, ok := r.(*ssa.Store); ok && st.Addr == cell {
			n++
			val = st.Val
		}
	}
	if n != 1 {
		return nil
	}
	switch val.(type) {
	case *ssa.Alloc, *ssa.MakeSlice, *ssa.MakeMap:
		return val
	}
	return nil
}

// baseObj follows address arithmetic to the fresh object an address lies in,
// returning also the first (outermost) struct field selected on the way.
func joinPath(outer, inner string) string {
	if inner == "" {
		return outer
	}
	return outer + "." + inner
}

func baseObj(v ssa.Value) (ssa.Value, string) {
	field := ""
	for i := 0; i < 16; i++ {
		if t := cellTarget(v); t != nil {
			return t, field
		}
		switch x := v.(type) {
		case *ssa.FieldAddr:
			field = joinPath(fieldName(x.X.Type(), x.Field), field)
			v = x.X
		case *ssa.IndexAddr:
			v = x.X
		case *ssa.Slice:
			v = x.X
		case *ssa.ChangeType:
			v = x.X
		case *ssa.Alloc, *ssa.MakeSlice, *ssa.MakeMap:
			return v, field
		default:
			return nil, ""
		}
	}
	return nil, ""
}

// firstField: the outermost struct field of an address chain, and its root value.
func firstField(v ssa.Value) (ssa.Value, string) {
	field := ""
	for i := 0; i < 16; i++ {
		switch x := v.(type) {
		case *ssa.FieldAddr:
			field = joinPath(fieldName(x.X.Type(), x.Field), field)
			v = x.X
		case *ssa.IndexAddr:
			v = x.X
		default:
			return v, field
		}
	}
	return v, field
}

// freshOf: the value through which per-field content of the object v points to
// is known (a local allocation or a fresh call result), following casts.
func (st *fnState) freshOf(v ssa.Value) ssa.Value {
	for i := 0; i < 8; i++ {
		if _, ok := st.contF[v]; ok && st.A(v).empty() {
			return v
		}
		switch x := v.(type) {
		case *ssa.MakeInterface:
			v = x.X
		case *ssa.ChangeInterface:
			v = x.X
		case *ssa.ChangeType:
			v = x.X
		case *ssa.TypeAssert:
			v = x.X
		case *ssa.Extract:
			// handled by the key itself (contF is keyed by the Extract)
			return nil
		case *ssa.Phi:
			return nil
		default:
			return nil
		}
	}
	return nil
}

// analyse recomputes f's summary; reports whether it grew.
func (e *Effects) analyse(f *ssa.Function) bool {
	s := e.sum[f]
	st := &fnState{a: map[ssa.Value]rootSet{}, c: map[ssa.Value]rootSet{}, cont: map[ssa.Value]rootSet{}, contD: map[ssa.Value]rootSet{}, contF: map[ssa.Value]map[string]rootSet{}, contFD: map[ssa.Value]map[string]rootSet{}}
	for i, prm := range f.Params {
		if i >= fvIdx || !pointerLike(prm.Type()) {
			continue
		}
		if addrLike(prm.Type()) {
			st.a[prm] = sRoot(i)
		}
		st.c[prm] = dRootSet(i, "")
	}
	for _, fv := range f.FreeVars {
		st.a[fv] = sRoot(fvIdx)
		st.c[fv] = dRootSet(fvIdx, "")
	}
	grew := false
	addW := func(rs rootSet, site ssa.Instruction, via []*ssa.Function) {
		var sf *ssa.Function
		if site != nil {
			sf = site.Parent()
		}
		op := ""
		switch x := site.(type) {
		case *ssa.Store:
			op = "store"
		case *ssa.MapUpdate:
			op = "mapupdate"
		case ssa.CallInstruction:
			op = calleeName(x.Common())
		}
		rec := func(k wKey) {
			k.siteFn = sf
			k.op = op
			if _, ok := s.All[k]; !ok {
				s.All[k] = &Witness{Site: site, Via: via}
				grew = true
			}
		}
		for i := 0; i < 32; i++ {
			if rs.s&(1<<uint(i)) != 0 {
				rec(wKey{kind: 'S', idx: i})
				if _, ok := s.WritesS[i]; !ok {
					s.WritesS[i] = &Witness{Site: site, Via: via}
					grew = true
				}
			}
		}
		for _, d := range rs.d {
			rec(wKey{kind: 'D', idx: d.idx, field: d.field})
			if _, ok := s.WritesD[d]; !ok {
				s.WritesD[d] = &Witness{Site: site, Via: via}
				grew = true
			}
		}
		for _, g := range rs.g {
			rec(wKey{kind: 'G', glob: g})
			if _, ok := s.WritesGlob[g]; !ok {
				s.WritesGlob[g] = &Witness{Site: site, Via: via}
				grew = true
			}
		}
	}
	both := func(dst, src ssa.Value) {
		st.setA(dst, st.A(src))
		st.setC(dst, st.C(src))
	}
	// loadFrom: roots of a pointer-like value loaded from address `addr`
	loadFrom := func(dst ssa.Value, addr ssa.Value) {
		root, field := firstField(addr)
		if obj, f2 := baseObj(addr); obj != nil {
			// local object: its (per-field) content
			if _, ok := st.contF[obj]; ok && f2 != "" {
				a, c := st.fieldOf(obj, f2)
				st.setA(dst, a)
				st.setC(dst, c)
				return
			}
			st.setA(dst, st.cont[obj])
			st.setC(dst, st.reach(st.cont[obj], st.contD[obj]))
			return
		}
		// fresh call result with per-field content
		if fr := st.freshOf(root); fr != nil && field != "" {
			a, c := st.fieldOf(fr, field)
			st.setA(dst, a)
			st.setC(dst, c)
			return
		}
		ar := st.A(addr)
		d := deepen(ar, field).union(st.C(addr))
		// if the address is already deep, keep qualifiers; generic content otherwise
		if ar.s != 0 {
			d = deepen(rootSet{s: ar.s}, field).union(rootSet{d: ar.d, g: ar.g})
		}
		st.setA(dst, d)
		st.setC(dst, d)
	}
	for iter := 0; iter < 30; iter++ {
		st.changed = false
		for _, b := range f.Blocks {
			for _, in := range b.Instrs {
				switch in := in.(type) {
				case *ssa.FieldAddr:
					both(in, in.X)
				case *ssa.IndexAddr:
					both(in, in.X)
				case *ssa.Slice:
					both(in, in.X)
				case *ssa.ChangeType:
					both(in, in.X)
				case *ssa.ChangeInterface:
					both(in, in.X)
				case *ssa.SliceToArrayPointer:
					both(in, in.X)
				case *ssa.TypeAssert:
					both(in, in.X)
				case *ssa.MakeInterface:
					if pointerLike(in.X.Type()) {
						both(in, in.X)
					}
				case *ssa.Convert:
					if pointerLike(in.Type()) && pointerLike(in.X.Type()) {
						_, fromStr := in.X.Type().Underlying().(*types.Basic)
						_, toStr := in.Type().Underlying().(*types.Basic)
						if !fromStr && !toStr {
							both(in, in.X)
						}
					}
				case *ssa.Field:
					if pointerLike(in.Type()) {
						// field (chain) of a struct value
						root, path := ssa.Value(in), ""
						for {
							f, ok := root.(*ssa.Field)
							if !ok {
								break
							}
							path = joinPath(fieldName(f.X.Type(), f.Field), path)
							root = f.X
						}
						if ld, ok := root.(*ssa.UnOp); ok && ld.Op == token.MUL {
							// struct value loaded from a tracked local/fresh object
							if obj, pre := baseObj(ld.X); obj != nil {
								if _, ok := st.contF[obj]; ok {
									a, c := st.fieldOf(obj, joinPath(pre, path))
									if pre == "" {
										a, c = st.fieldOf(obj, path)
									}
									st.setA(in, a)
									st.setC(in, c)
									break
								}
							}
						}
						if _, ok := st.contF[root]; ok && st.A(root).empty() {
							a, c := st.fieldOf(root, path)
							st.setA(in, a)
							st.setC(in, c)
							break
						}
						cx := st.C(root)
						q := qualify(cx, path)
						st.setA(in, q)
						st.setC(in, q)
					}
				case *ssa.Index:
					if pointerLike(in.Type()) {
						st.setA(in, st.C(in.X))
						st.setC(in, st.C(in.X))
					}
				case *ssa.Lookup:
					if pointerLike(in.Type()) {
						st.setA(in, st.C(in.X))
						st.setC(in, st.C(in.X))
					}
				case *ssa.Range:
					both(in, in.X)
				case *ssa.Next:
					st.setA(in, st.C(in.Iter))
					st.setC(in, st.C(in.Iter))
				case *ssa.Extract:
					// for calls, per-index roots are set at the call; other tuples
					// (comma-ok lookups, type assertions, range steps) propagate
					if _, isCall := in.Tuple.(*ssa.Call); !isCall && pointerLike(in.Type()) {
						both(in, in.Tuple)
					}
				case *ssa.Phi:
					for _, ed := range in.Edges {
						both(in, ed)
					}
				case *ssa.UnOp:
					if in.Op == token.MUL && pointerLike(in.Type()) {
						loadFrom(in, in.X)
					}
				case *ssa.MakeClosure:
					for _, bnd := range in.Bindings {
						st.setC(in, st.A(bnd).union(st.C(bnd)))
					}
				case *ssa.Store:
					if ar := st.A(in.Addr); !ar.empty() {
						addW(ar, in, nil)
						if pointerLike(in.Val.Type()) && ar.s != 0 {
							_, fld := firstField(in.Addr)
							if fld == "" {
								fld = "*"
							}
							if recordStore(s, ar.s, fld, st.A(in.Val).union(st.C(in.Val))) {
								grew = true
							}
						}
					}
					if pointerLike(in.Val.Type()) {
						if bo, fld := baseObj(in.Addr); bo != nil {
							va, vc := st.A(in.Val), st.C(in.Val)
							if !addrLike(in.Val.Type()) {
								// aggregate value: the pointers it contains
								va = vc
							}
							st.storeInto(bo, fld, va, vc)
						}
					} else if bo, fld := baseObj(in.Addr); bo != nil && fld != "" {
						st.setCF(bo, fld, rootSet{}) // mark object as field-tracked
					}
				case *ssa.MapUpdate:
					if mr := st.A(in.Map); !mr.empty() {
						addW(mr, in, nil)
					}
					if pointerLike(in.Value.Type()) || pointerLike(in.Key.Type()) {
						if bo, _ := baseObj(in.Map); bo != nil {
							st.storeInto(bo, "", st.A(in.Value).union(st.A(in.Key)), st.C(in.Value).union(st.C(in.Key)))
						}
					}
				case ssa.CallInstruction:
					e.call(f, in, st, addW)
				}
			}
		}
		if !st.changed {
			break
		}
	}
	if debugEffectsFn != "" && f.RelString(nil) == debugEffectsFn {
		fmt.Printf("== effects state of %s\n", f.RelString(nil))
		for _, b := range f.Blocks {
			for _, in := range b.Instrs {
				if c, ok := in.(ssa.CallInstruction); ok {
					cc := c.Common()
					fmt.Printf("  call %s @%s\n", calleeName(cc), e.p.InstrPos(in))
					if cc.IsInvoke() {
						fmt.Printf("     recv A=%s C=%s\n", st.A(cc.Value), st.C(cc.Value))
					}
					for i, a := range cc.Args {
						fmt.Printf("     arg%d A=%s C=%s F=%v\n", i, st.A(a), st.C(a), st.contF[a])
					}
					if v, ok := in.(ssa.Value); ok {
						fmt.Printf("     result A=%s C=%s F=%v\n", st.A(v), st.C(v), st.contF[v])
					}
				}
			}
		}
	}
	// returns
	for _, b := range f.Blocks {
		for _, in := range b.Instrs {
			r, ok := in.(*ssa.Return)
			if !ok {
				continue
			}
			for i, v := range r.Results {
				if i >= len(s.RetAddr) || !pointerLike(v.Type()) {
					continue
				}
				va := st.A(v)
				if !addrLike(v.Type()) {
					va = rootSet{} // an aggregate value is not an address
				}
				na, nc := s.RetAddr[i].union(va), s.RetCont[i].union(st.C(v))
				if !na.equal(s.RetAddr[i]) || !nc.equal(s.RetCont[i]) {
					s.RetAddr[i], s.RetCont[i] = na, nc
					grew = true
				}
				// fresh struct result: per-field content
				obj := v
				if mi, ok := v.(*ssa.MakeInterface); ok {
					obj = mi.X
				}
				if u, ok := obj.(*ssa.UnOp); ok && u.Op == token.MUL {
					obj = u.X // struct value loaded from a local
				}
				if m0, ok := st.contF[obj]; ok && st.A(obj).empty() {
					if s.RetContF[i] == nil {
						s.RetContF[i] = map[string]rootSet{}
					}
					m := map[string]rootSet{}
					for fld := range m0 {
						_, c := st.fieldOf(obj, fld)
						if fld == "*" {
							c = st.reach(st.contF[obj]["*"], st.contFD[obj]["*"])
						}
						m[fld] = c
					}
					for fld, rs := range m {
						if n := s.RetContF[i][fld].union(rs); !n.equal(s.RetContF[i][fld]) || !hasKey(s.RetContF[i], fld) {
							s.RetContF[i][fld] = n
							grew = true
						}
					}
				} else if !st.C(v).empty() {
					// content not field-tracked: applies to every field
					if s.RetContF[i] == nil {
						s.RetContF[i] = map[string]rootSet{}
					}
					if n := s.RetContF[i]["*"].union(st.C(v)); !n.equal(s.RetContF[i]["*"]) {
						s.RetContF[i]["*"] = n
						grew = true
					}
				}
			}
		}
	}
	return grew
}

// qualify attaches field f to deep roots that carry no field yet.
func qualify(rs rootSet, f string) rootSet {
	if f == "" || len(rs.d) == 0 {
		return rs
	}
	out := rootSet{s: rs.s, g: rs.g}
	for _, d := range rs.d {
		if d.field == "" {
			out = out.union(dRootSet(d.idx, f))
		} else {
			out = out.union(rootSet{d: []dRoot{d}})
		}
	}
	return out
}

// recordStore notes that pointers with roots rs are stored into the memory of
// the parameters in bitmask sbits, field fld.
func recordStore(s *Summary, sbits uint32, fld string, rs rootSet) bool {
	if rs.empty() {
		return false
	}
	grew := false
	for i := 0; i < 31; i++ {
		if sbits&(1<<uint(i)) == 0 {
			continue
		}
		if s.StoresF[i] == nil {
			s.StoresF[i] = map[string]rootSet{}
		}
		// a parameter's own roots stored into itself add nothing
		add := rs
		if n := s.StoresF[i][fld].union(add); !n.equal(s.StoresF[i][fld]) {
			s.StoresF[i][fld] = n
			grew = true
		}
	}
	return grew
}

func hasKey(m map[string]rootSet, k string) bool { _, ok := m[k]; return ok }

// call handles one call instruction inside f.
func (e *Effects) call(f *ssa.Function, in ssa.CallInstruction, st *fnState, addW func(rootSet, ssa.Instruction, []*ssa.Function)) {
	cc := in.Common()
	val, _ := in.(ssa.Value)
	if b, ok := cc.Value.(*ssa.Builtin); ok {
		switch b.Name() {
		case "copy":
			if r := st.A(cc.Args[0]); !r.empty() {
				addW(r, in, nil)
			}
			if sl, ok := cc.Args[0].Type().Underlying().(*types.Slice); ok && pointerLike(sl.Elem()) {
				if bo, _ := baseObj(cc.Args[0]); bo != nil {
					st.storeInto(bo, "", st.C(cc.Args[1]), st.C(cc.Args[1]))
				}
			}
		case "append":
			base := st.A(cc.Args[0])
			if !base.empty() && !capClipped(cc.Args[0]) {
				addW(base, in, nil) // may write the base's spare capacity in place
			}
			if val != nil {
				st.setA(val, base)
				st.setC(val, st.C(cc.Args[0]))
				if len(cc.Args) > 1 {
					if sl, ok := cc.Args[1].Type().Underlying().(*types.Slice); ok && pointerLike(sl.Elem()) {
						st.setC(val, st.C(cc.Args[1]))
					}
				}
			}
		case "delete", "clear":
			if r := st.A(cc.Args[0]); !r.empty() {
				addW(r, in, nil)
			}
		}
		return
	}
	var args []ssa.Value
	if cc.IsInvoke() {
		args = append(args, cc.Value)
	}
	args = append(args, cc.Args...)

	callees, _ := e.p.Callees(in)
	name := calleeName(cc)
	if cc.IsInvoke() {
		if w, ok := stdInvokeWrites[name]; ok {
			for _, i := range w {
				if i < len(args) {
					if r := st.A(args[i]); !r.empty() {
						addW(r, in, nil)
					}
				}
			}
		}
	}
	if sc := cc.StaticCallee(); sc != nil && sc.RelString(nil) == "(*sync.Once).Do" {
		s := e.sum[f]
		for _, g := range callees {
			gs := e.get(g, f)
			for gl, w := range gs.WritesGlob {
				if _, ok := s.once[gl]; !ok {
					s.once[gl] = w
				}
			}
			for gl, w := range gs.once {
				if _, ok := s.once[gl]; !ok {
					s.once[gl] = w
				}
			}
		}
		return
	}
	argOf := func(i int) ssa.Value {
		if i == fvIdx {
			return cc.Value
		}
		if i < len(args) {
			return args[i]
		}
		return nil
	}
	// M maps a callee-side root set to caller-side roots
	M := func(rs rootSet) rootSet {
		out := rootSet{g: rs.g}
		for i := 0; i < 32; i++ {
			if rs.s&(1<<uint(i)) == 0 {
				continue
			}
			if a := argOf(i); a != nil {
				if i == fvIdx {
					out = out.union(st.C(a))
				} else {
					out = out.union(st.A(a))
				}
			}
		}
		for _, d := range rs.d {
			a := argOf(d.idx)
			if a == nil {
				continue
			}
			// a fresh, field-tracked object: only the named field's content
			if d.field != "" && d.idx != fvIdx {
				var fr ssa.Value
				if obj, _ := baseObj(a); obj != nil {
					if _, ok := st.contF[obj]; ok {
						fr = obj
					}
				} else {
					fr = st.freshOf(a)
				}
				if fr != nil {
					fa, _ := st.fieldOf(fr, d.field)
					out = out.union(fa)
					continue
				}
			}
			// otherwise everything reachable from the argument; keep the
			// qualifier when the argument itself is a parameter's memory
			ca := st.C(a)
			if d.field != "" {
				q := rootSet{s: 0, g: ca.g}
				agg := !addrLike(a.Type())
				for _, x := range ca.d {
					switch {
					case x.field == "":
						q = q.union(dRootSet(x.idx, d.field))
					case agg:
						// the argument is an aggregate value (part of our own
						// parameter's aggregate): field paths compose
						q = q.union(dRootSet(x.idx, joinPath(x.field, d.field)))
					default:
						q = q.union(rootSet{d: []dRoot{x}})
					}
				}
				ca = q
			}
			out = out.union(ca)
		}
		return out
	}
	// cryptobyte.String.Read*(&out, ...): the value written to *out is a view of
	// the bytes the String covers
	if strings.HasPrefix(name, "(*golang.org/x/crypto/cryptobyte.String).Read") && len(args) > 1 {
		view := st.C(args[0])
		if !view.empty() {
			for i := 1; i < len(args); i++ {
				a := args[i]
				if mi, ok := a.(*ssa.MakeInterface); ok {
					a = mi.X
				}
				if _, isPtr := a.Type().Underlying().(*types.Pointer); !isPtr {
					continue
				}
				if bo, fld := baseObj(a); bo != nil {
					st.storeInto(bo, fld, view, rootSet{})
				} else if ar := st.A(a); ar.s != 0 {
					_, fld := firstField(a)
					if fld == "" {
						fld = "*"
					}
					if recordStore(e.sum[f], ar.s, fld, view) {
						st.changed = true
					}
				}
			}
		}
	}
	nres := cc.Signature().Results().Len()
	resA := make([]rootSet, nres)
	resC := make([]rootSet, nres)
	resF := make([]map[string]rootSet, nres)
	freshRes := make([]bool, nres)
	for i := range freshRes {
		freshRes[i] = true
	}
	for _, g := range callees {
		gs := e.get(g, f)
		wit := func(w *Witness) (ssa.Instruction, []*ssa.Function) {
			site := w.Site
			if site == nil {
				site = in
			}
			return site, append([]*ssa.Function{g}, w.Via...)
		}
		if len(gs.All) > 0 {
			for k, w := range gs.All {
				if r := M(k.root()); !r.empty() {
					site, via := wit(w)
					addW(r, site, via)
				}
			}
		} else {
			for i, w := range gs.WritesS {
				if r := M(sRoot(i)); !r.empty() {
					site, via := wit(w)
					addW(r, site, via)
				}
			}
			for d, w := range gs.WritesD {
				if r := M(rootSet{d: []dRoot{d}}); !r.empty() {
					site, via := wit(w)
					addW(r, site, via)
				}
			}
			for gl, w := range gs.WritesGlob {
				site, via := wit(w)
				addW(gRoot(gl), site, via)
			}
		}
		s := e.sum[f]
		for gl, w := range gs.once {
			if _, ok := s.once[gl]; !ok {
				s.once[gl] = w
			}
		}
		// pointers the callee stores into an argument's memory
		for i, m := range gs.StoresF {
			a := argOf(i)
			if a == nil {
				continue
			}
			for fld, rs := range m {
				mapped := M(rs)
				if mapped.empty() {
					continue
				}
				if bo, _ := baseObj(a); bo != nil {
					st.storeInto(bo, fld, mapped, rootSet{})
				} else if fr := st.freshOf(a); fr != nil {
					st.storeInto(fr, fld, mapped, rootSet{})
				} else if ar := st.A(a); ar.s != 0 {
					// argument is itself (part of) one of our parameters: transitive
					if recordStore(s, ar.s, fld, mapped) {
						st.changed = true
					}
				} else if gl := st.A(a).g; len(gl) > 0 {
					// stored into a package-level container: remembered as content
					// of that global (loads from it yield these roots)
					for _, g := range gl {
						if e.globCont == nil {
							e.globCont = map[*ssa.Global]rootSet{}
						}
						// only global-rooted content can be expressed across functions
						e.globCont[g] = e.globCont[g].union(rootSet{g: mapped.g})
					}
				}
			}
		}
		for i := 0; i < nres && i < len(gs.RetAddr); i++ {
			resA[i] = resA[i].union(M(gs.RetAddr[i]))
			resC[i] = resC[i].union(M(gs.RetCont[i]))
			if gs.RetContF[i] != nil {
				if resF[i] == nil {
					resF[i] = map[string]rootSet{}
				}
				for fld, rs := range gs.RetContF[i] {
					resF[i][fld] = resF[i][fld].union(M(rs))
				}
			} else if !gs.RetCont[i].empty() {
				if resF[i] == nil {
					resF[i] = map[string]rootSet{}
				}
				resF[i]["*"] = resF[i]["*"].union(M(gs.RetCont[i]))
			}
		}
	}
	if val == nil {
		return
	}
	// chaining style: every callee returns exactly its own parameter j and
	// that argument is a fresh, field-tracked object: the result is that object
	if nres == 1 && len(callees) > 0 && pointerLike(val.Type()) {
		j := -1
		same := true
		for _, g := range callees {
			gs := e.get(g, f)
			if len(gs.RetAddr) != 1 || len(gs.RetAddr[0].d) != 0 || len(gs.RetAddr[0].g) != 0 {
				same = false
				break
			}
			k := -1
			for i := 0; i < 31; i++ {
				if gs.RetAddr[0].s == 1<<uint(i) {
					k = i
				}
			}
			if k < 0 || (j >= 0 && j != k) {
				same = false
				break
			}
			j = k
		}
		if same && j >= 0 && j < len(args) && st.A(args[j]).empty() {
			var fr ssa.Value
			if obj, _ := baseObj(args[j]); obj != nil {
				fr = obj
			} else {
				fr = st.freshOf(args[j])
			}
			if fr != nil {
				if m, ok := st.contF[fr]; ok {
					if _, had := st.contF[val]; !had {
						st.changed = true
					}
					st.contF[val] = m
					st.setC(val, st.C(args[j]))
					return
				}
			}
		}
	}
	if nres == 1 {
		if pointerLike(val.Type()) {
			st.setA(val, resA[0])
			st.setC(val, resC[0])
			if resA[0].empty() && resF[0] != nil {
				for fld, rs := range resF[0] {
					st.setCF(val, fld, rs)
				}
			}
		}
		return
	}
	for _, ref := range *val.Referrers() {
		ex, ok := ref.(*ssa.Extract)
		if !ok || ex.Index >= nres || !pointerLike(ex.Type()) {
			continue
		}
		st.setA(ex, resA[ex.Index])
		st.setC(ex, resC[ex.Index])
		if resA[ex.Index].empty() && resF[ex.Index] != nil {
			for fld, rs := range resF[ex.Index] {
				st.setCF(ex, fld, rs)
			}
		}
	}
}

// capClipped: x[a:b:c] three-index slices cannot be appended to in place.
func capClipped(v ssa.Value) bool {
	sl, ok := v.(*ssa.Slice)
	return ok && sl.Max != nil
}

func (e *Effects) describe(w *Witness) string {
	if w == nil {
		return "?"
	}
	var via []string
	for _, f := range w.Via {
		via = append(via, shortName(f))
	}
	pos := "-"
	what := "table"
	if w.Site != nil {
		pos = e.p.InstrPos(w.Site)
		what = fmt.Sprintf("%T", w.Site)
		if f := w.Site.Parent(); f != nil {
			what += " in " + shortName(f)
		}
	}
	if len(via) > 0 {
		return fmt.Sprintf("%s at %s via %s", what, pos, strings.Join(via, " -> "))
	}
	return fmt.Sprintf("%s at %s", what, pos)
}
