package main

// Semantic decision of the digest-to-integer conversion (ecdsa.hashToInt),
// used by C12/C13 when the function is not syntactically identical to the
// reference in GOROOT crypto/ecdsa.
//
// The reference computes, for a digest h and a group order of OB bits,
//
//	K = min(len(h), ceil(OB/8));  S = max(0, 8K - OB);  ret = int(h[:K]) >> S
//
// The function is loop free, so every path from its entry to a return is
// enumerated; along each path integers are affine forms over the atoms
// len(hash) and OB (quotients by 8 get an atom with the two division axioms),
// byte slices are windows [lo,hi) of the hash parameter, and big integers are
// (window, shift) pairs. On each path the linear prover must show that the
// returned integer is (h[0:K], S) with K and S equal to the reference values
// under the branch conditions of that path. Any instruction outside this small
// vocabulary makes the result undecided, never accepted.

import (
	"fmt"
	"go/token"
	"go/types"

	"golang.org/x/tools/go/ssa"
)

type htiKind int

const (
	htiInt htiKind = iota
	htiView
	htiBig
	htiFresh // a new(big.Int) not yet set
	htiOpaque
)

type htiVal struct {
	kind   htiKind
	l      Lin // htiInt
	lo, hi Lin // htiView, htiBig
	shift  Lin // htiBig
	cell   ssa.Value
}

type htiState struct {
	env   map[ssa.Value]htiVal
	big   map[ssa.Value]htiVal // contents of *big.Int cells, keyed by the Alloc
	facts []Lin
}

func (s *htiState) fork() *htiState {
	n := &htiState{env: map[ssa.Value]htiVal{}, big: map[ssa.Value]htiVal{}}
	for k, v := range s.env {
		n.env[k] = v
	}
	for k, v := range s.big {
		n.big[k] = v
	}
	n.facts = append([]Lin(nil), s.facts...)
	return n
}

type htiRun struct {
	p       *Prog
	fn      *ssa.Function
	rg      *Range
	hash    *ssa.Parameter
	paths   int
	fail    string
	undecid string
}

// hashToIntSemantic: (decided, ok, detail).
func hashToIntSemantic(p *Prog, fn *ssa.Function) (bool, bool, string) {
	if fn == nil || len(fn.Params) != 2 || len(fn.Blocks) == 0 {
		return false, false, "no SSA for hashToInt(hash, curve)"
	}
	if len(naturalLoops(fn)) > 0 {
		return false, false, "function has a loop"
	}
	h := &htiRun{p: p, fn: fn, rg: p.NewRange(fn), hash: fn.Params[0]}
	// axioms: LEN >= 0, OB >= 1
	h.rg.axiom(linAtom("LEN"))
	h.rg.axiom(linAtom("OB").addConst(-1))
	st := &htiState{env: map[ssa.Value]htiVal{}, big: map[ssa.Value]htiVal{}}
	st.env[h.hash] = htiVal{kind: htiView, lo: linConst(0), hi: linAtom("LEN")}
	h.exec(fn.Blocks[0], nil, 0, st, 0)
	if h.undecid != "" {
		return false, false, h.undecid
	}
	if h.fail != "" {
		return true, false, h.fail
	}
	if h.paths == 0 {
		return false, false, "no returning path"
	}
	return true, true, fmt.Sprintf("%d paths: returned integer is hash[:min(len(hash),ceil(OB/8))] >> max(0, 8K-OB) on each", h.paths)
}

func (h *htiRun) quo8(x Lin) Lin {
	name := "quo8(" + x.String() + ")"
	q := linAtom(name)
	// 8q <= x <= 8q+7
	h.rg.axiom(x.minus(q.scale(8)))
	h.rg.axiom(q.scale(8).addConst(7).minus(x))
	return q
}

func (h *htiRun) isOrderBits(v ssa.Value) bool {
	c, ok := v.(*ssa.Call)
	if !ok || c.Call.IsInvoke() {
		return false
	}
	cal := c.Call.StaticCallee()
	if cal == nil || cal.String() != "(*math/big.Int).BitLen" || len(c.Call.Args) != 1 {
		return false
	}
	// the receiver is <curve param>.Params().N
	u, ok := c.Call.Args[0].(*ssa.UnOp)
	if !ok || u.Op != token.MUL {
		return false
	}
	fa, ok := u.X.(*ssa.FieldAddr)
	if !ok {
		return false
	}
	st, ok := fa.X.Type().Underlying().(*types.Pointer)
	if !ok {
		return false
	}
	sst, ok := st.Elem().Underlying().(*types.Struct)
	if !ok || sst.Field(fa.Field).Name() != "N" {
		return false
	}
	pc, ok := fa.X.(*ssa.Call)
	if !ok || !pc.Call.IsInvoke() || pc.Call.Method.Name() != "Params" || pc.Call.Value != h.fn.Params[1] {
		return false
	}
	return true
}

func (h *htiRun) intOf(st *htiState, v ssa.Value) (Lin, bool) {
	if c, ok := v.(*ssa.Const); ok {
		if n, ok := constIntOf(c); ok {
			return linConst(n), true
		}
		return Lin{}, false
	}
	if x, ok := st.env[v]; ok && x.kind == htiInt {
		return x.l, true
	}
	return Lin{}, false
}

func (h *htiRun) exec(b *ssa.BasicBlock, pred *ssa.BasicBlock, idx int, st *htiState, depth int) {
	if h.undecid != "" || h.fail != "" {
		return
	}
	if depth > 64 {
		h.undecid = "path too long"
		return
	}
	for i := idx; i < len(b.Instrs); i++ {
		switch in := b.Instrs[i].(type) {
		case *ssa.DebugRef:
		case *ssa.Phi:
			var e ssa.Value
			for k, pb := range b.Preds {
				if pb == pred {
					e = in.Edges[k]
				}
			}
			if e == nil {
				h.undecid = "phi without the predecessor"
				return
			}
			if c, ok := e.(*ssa.Const); ok {
				if n, ok := constIntOf(c); ok {
					st.env[in] = htiVal{kind: htiInt, l: linConst(n)}
				} else {
					st.env[in] = htiVal{kind: htiOpaque}
				}
			} else if x, ok := st.env[e]; ok {
				st.env[in] = x
			} else {
				st.env[in] = htiVal{kind: htiOpaque}
			}
		case *ssa.Alloc:
			if isBigIntPtr(in.Type()) {
				st.env[in] = htiVal{kind: htiFresh, cell: in}
			} else {
				h.undecid = "allocation of " + in.Type().String() + " at " + h.p.Pos(in.Pos())
				return
			}
		case *ssa.FieldAddr:
			st.env[in] = htiVal{kind: htiOpaque}
		case *ssa.UnOp:
			if in.Op == token.MUL {
				if _, isFA := in.X.(*ssa.FieldAddr); isFA {
					st.env[in] = htiVal{kind: htiOpaque}
					continue
				}
				h.undecid = "load at " + h.p.Pos(in.Pos())
				return
			}
			if in.Op == token.SUB {
				if l, ok := h.intOf(st, in.X); ok {
					st.env[in] = htiVal{kind: htiInt, l: l.scale(-1)}
					continue
				}
			}
			st.env[in] = htiVal{kind: htiOpaque}
		case *ssa.Convert:
			if l, ok := h.intOf(st, in.X); ok {
				// int <-> uint conversions of non-negative quantities; the
				// shift count is required to be >= 0 where it is used
				st.env[in] = htiVal{kind: htiInt, l: l}
			} else {
				st.env[in] = htiVal{kind: htiOpaque}
			}
		case *ssa.ChangeType:
			if x, ok := st.env[in.X]; ok {
				st.env[in] = x
			} else {
				st.env[in] = htiVal{kind: htiOpaque}
			}
		case *ssa.BinOp:
			x, okx := h.intOf(st, in.X)
			y, oky := h.intOf(st, in.Y)
			switch in.Op {
			case token.ADD:
				if okx && oky {
					st.env[in] = htiVal{kind: htiInt, l: x.plus(y)}
					continue
				}
			case token.SUB:
				if okx && oky {
					st.env[in] = htiVal{kind: htiInt, l: x.minus(y)}
					continue
				}
			case token.MUL:
				if okx && oky && y.isConst() && y.k.IsInt() {
					st.env[in] = htiVal{kind: htiInt, l: x.scale(y.k.Num().Int64())}
					continue
				}
				if okx && oky && x.isConst() && x.k.IsInt() {
					st.env[in] = htiVal{kind: htiInt, l: y.scale(x.k.Num().Int64())}
					continue
				}
			case token.SHL:
				if okx && oky && y.isConst() && y.k.IsInt() && y.k.Num().Int64() >= 0 && y.k.Num().Int64() < 32 {
					st.env[in] = htiVal{kind: htiInt, l: x.scale(1 << uint(y.k.Num().Int64()))}
					continue
				}
			case token.QUO, token.SHR:
				// x/8 and x>>3 for x >= 0
				if okx && oky && y.isConst() && ((in.Op == token.QUO && y.k.Cmp(linConst(8).k) == 0) || (in.Op == token.SHR && y.k.Cmp(linConst(3).k) == 0)) {
					if h.rg.entails(st.facts, x) {
						st.env[in] = htiVal{kind: htiInt, l: h.quo8(x)}
						continue
					}
				}
			}
			st.env[in] = htiVal{kind: htiOpaque}
		case *ssa.Slice:
			x, ok := st.env[in.X]
			if !ok || x.kind != htiView {
				h.undecid = "slice of something other than the digest at " + h.p.Pos(in.Pos())
				return
			}
			nv := htiVal{kind: htiView, lo: x.lo, hi: x.hi}
			if in.Low != nil {
				l, ok := h.intOf(st, in.Low)
				if !ok {
					h.undecid = "slice bound not affine at " + h.p.Pos(in.Pos())
					return
				}
				nv.lo = x.lo.plus(l)
			}
			if in.High != nil {
				l, ok := h.intOf(st, in.High)
				if !ok {
					h.undecid = "slice bound not affine at " + h.p.Pos(in.Pos())
					return
				}
				nv.hi = x.lo.plus(l)
			}
			if in.Max != nil {
				h.undecid = "three-index slice at " + h.p.Pos(in.Pos())
				return
			}
			st.env[in] = nv
		case *ssa.Call:
			if !h.call(b, i, in, st, depth) {
				return
			}
			if h.undecid != "" || h.fail != "" {
				return
			}
			if _, forked := st.env[forkMarker]; forked {
				return
			}
		case *ssa.If:
			tf, ff := h.condFacts(st, in.Cond)
			s1 := st.fork()
			s1.facts = append(s1.facts, tf...)
			h.exec(b.Succs[0], b, 0, s1, depth+1)
			s2 := st.fork()
			s2.facts = append(s2.facts, ff...)
			h.exec(b.Succs[1], b, 0, s2, depth+1)
			return
		case *ssa.Jump:
			h.exec(b.Succs[0], b, 0, st, depth+1)
			return
		case *ssa.Return:
			h.ret(in, st)
			return
		case *ssa.Panic:
			return
		default:
			h.undecid = fmt.Sprintf("instruction %T at %s outside the modelled vocabulary", in, h.p.Pos(in.Pos()))
			return
		}
	}
}

// forkMarker is set in a state's env by call() when it continued execution
// itself in forked states (min/max case split).
var forkMarker ssa.Value = &ssa.Const{}

func isBigIntPtr(t types.Type) bool {
	pt, ok := t.Underlying().(*types.Pointer)
	if !ok {
		return false
	}
	n, ok := pt.Elem().(*types.Named)
	return ok && n.Obj().Pkg() != nil && n.Obj().Pkg().Path() == "math/big" && n.Obj().Name() == "Int"
}

func (h *htiRun) condFacts(st *htiState, c ssa.Value) (t, f []Lin) {
	if u, ok := c.(*ssa.UnOp); ok && u.Op == token.NOT {
		f2, t2 := h.condFacts(st, u.X)
		return t2, f2
	}
	bo, ok := c.(*ssa.BinOp)
	if !ok {
		return nil, nil
	}
	x, okx := h.intOf(st, bo.X)
	y, oky := h.intOf(st, bo.Y)
	if !okx || !oky {
		return nil, nil
	}
	d := x.minus(y) // x - y
	switch bo.Op {
	case token.GTR: // x > y : d-1 >= 0 ; else -d >= 0
		return []Lin{d.addConst(-1)}, []Lin{d.scale(-1)}
	case token.GEQ:
		return []Lin{d}, []Lin{d.scale(-1).addConst(-1)}
	case token.LSS:
		return []Lin{d.scale(-1).addConst(-1)}, []Lin{d}
	case token.LEQ:
		return []Lin{d.scale(-1)}, []Lin{d.addConst(-1)}
	case token.EQL:
		return []Lin{d, d.scale(-1)}, nil
	case token.NEQ:
		return nil, []Lin{d, d.scale(-1)}
	}
	return nil, nil
}

// call models one call; returns false when execution of this path stopped.
func (h *htiRun) call(b *ssa.BasicBlock, i int, in *ssa.Call, st *htiState, depth int) bool {
	if h.isOrderBits(in) {
		st.env[in] = htiVal{kind: htiInt, l: linAtom("OB")}
		return true
	}
	if in.Call.IsInvoke() {
		if in.Call.Method.Name() == "Params" && in.Call.Value == h.fn.Params[1] && len(in.Call.Args) == 0 {
			st.env[in] = htiVal{kind: htiOpaque}
			return true
		}
		h.undecid = "interface call " + in.Call.Method.Name() + " at " + h.p.Pos(in.Pos())
		return false
	}
	if bi, ok := in.Call.Value.(*ssa.Builtin); ok {
		switch bi.Name() {
		case "len":
			if x, ok := st.env[in.Call.Args[0]]; ok && x.kind == htiView {
				st.env[in] = htiVal{kind: htiInt, l: x.hi.minus(x.lo)}
				return true
			}
		case "min", "max":
			if len(in.Call.Args) == 2 {
				x, okx := h.intOf(st, in.Call.Args[0])
				y, oky := h.intOf(st, in.Call.Args[1])
				if okx && oky {
					// case x <= y: min is x, max is y; case x > y: the other way
					r1, r2 := x, y
					if bi.Name() == "max" {
						r1, r2 = y, x
					}
					s1 := st.fork()
					s1.facts = append(s1.facts, y.minus(x))
					s1.env[in] = htiVal{kind: htiInt, l: r1}
					h.exec(b, nil, i+1, s1, depth+1)
					s2 := st.fork()
					s2.facts = append(s2.facts, x.minus(y).addConst(-1))
					s2.env[in] = htiVal{kind: htiInt, l: r2}
					h.exec(b, nil, i+1, s2, depth+1)
					st.env[forkMarker] = htiVal{}
					return true
				}
			}
		}
		h.undecid = "builtin " + bi.Name() + " at " + h.p.Pos(in.Pos())
		return false
	}
	cal := in.Call.StaticCallee()
	if cal == nil {
		h.undecid = "dynamic call at " + h.p.Pos(in.Pos())
		return false
	}
	args := in.Call.Args
	switch cal.String() {
	case "(*math/big.Int).SetBytes":
		z, okz := st.env[args[0]]
		v, okv := st.env[args[1]]
		if okz && (z.kind == htiFresh || z.kind == htiBig) && okv && v.kind == htiView {
			nv := htiVal{kind: htiBig, lo: v.lo, hi: v.hi, shift: linConst(0), cell: z.cell}
			st.big[z.cell] = nv
			st.env[in] = nv
			return true
		}
	case "(*math/big.Int).Rsh":
		z, okz := st.env[args[0]]
		x, okx := st.env[args[1]]
		n, okn := h.intOf(st, args[2])
		if okz && okx && okn && (z.kind == htiFresh || z.kind == htiBig) && x.kind == htiBig {
			cur := st.big[x.cell]
			if !h.rg.entails(st.facts, n) {
				h.fail = "shift count " + n.Short() + " not shown non-negative at " + h.p.Pos(in.Pos())
				return false
			}
			nv := htiVal{kind: htiBig, lo: cur.lo, hi: cur.hi, shift: cur.shift.plus(n), cell: z.cell}
			st.big[z.cell] = nv
			st.env[in] = nv
			return true
		}
	case "math/big.NewInt":
		// not a digest-derived value
	}
	h.undecid = "call to " + cal.String() + " at " + h.p.Pos(in.Pos())
	return false
}

func (h *htiRun) eq(st *htiState, a, b Lin) bool {
	return h.rg.entails(st.facts, a.minus(b)) && h.rg.entails(st.facts, b.minus(a))
}

func (h *htiRun) ret(in *ssa.Return, st *htiState) {
	// an infeasible path proves everything; count it but do not report on it
	if len(in.Results) != 1 {
		h.undecid = "result arity"
		return
	}
	v, ok := st.env[in.Results[0]]
	if !ok || v.kind != htiBig {
		if h.pathInfeasible(st) {
			return
		}
		h.fail = "returned value is not an integer built from the digest at " + h.p.Pos(in.Pos())
		return
	}
	cur := st.big[v.cell]
	h.paths++
	LEN, OB := linAtom("LEN"), linAtom("OB")
	q := h.quo8(OB.addConst(7))
	K := cur.hi
	at := h.p.Pos(in.Pos())
	if !h.eq(st, cur.lo, linConst(0)) {
		h.fail = "digest window does not start at byte 0 (lo=" + cur.lo.Short() + ") on a path returning at " + at
		return
	}
	if !(h.rg.entails(st.facts, LEN.minus(K)) && h.rg.entails(st.facts, q.minus(K)) && (h.rg.entails(st.facts, K.minus(LEN)) || h.rg.entails(st.facts, K.minus(q)))) {
		h.fail = "bytes kept K=" + K.Short() + " not shown equal to min(len(hash), ceil(orderBits/8)) on a path returning at " + at + " under " + factsShort(st.facts)
		return
	}
	ex := K.scale(8).minus(OB)
	S := cur.shift
	if !(h.rg.entails(st.facts, S) && h.rg.entails(st.facts, S.minus(ex)) && (h.rg.entails(st.facts, S.scale(-1)) || h.rg.entails(st.facts, ex.minus(S)))) {
		h.fail = "right shift S=" + S.Short() + " not shown equal to max(0, 8K-orderBits) with K=" + K.Short() + " on a path returning at " + at + " under " + factsShort(st.facts)
		return
	}
}

func (h *htiRun) pathInfeasible(st *htiState) bool {
	// facts ⊢ LEN - LEN - 1 >= 0 is only provable from inconsistent facts; the
	// goal must mention an atom for the prover to look at the facts
	g := linAtom("LEN").scale(-1).addConst(-1)
	return h.rg.entails(st.facts, g)
}

func factsShort(fs []Lin) string {
	s := "{"
	for i, f := range fs {
		if i > 0 {
			s += "; "
		}
		s += f.Short() + ">=0"
	}
	return s + "}"
}
