package main

// C13 - the ECDSA fork accepts and produces exactly standard ECDSA.

import (
	"fmt"
	"go/ast"
	"go/constant"
	"go/token"
	"path/filepath"
	"strings"

	"golang.org/x/tools/go/ssa"
)

func init() { props["C13"] = c13 }

// bounds derives, from the facts, integer bounds on the value whose term
// string is x: comparisons of x with constants.
func boundsOf(s *Sym, facts []Atom, x string) (lo, hi *int64) {
	set := func(p **int64, v int64, max bool) {
		if *p == nil || (max && v > **p) || (!max && v < **p) {
			nv := v
			*p = &nv
		}
	}
	for _, a := range s.prog.expandFacts(s, facts, 0) {
		s := a.S
		if a.Kind != Truth {
			continue
		}
		b, ok := a.V.(*ssa.BinOp)
		if !ok {
			continue
		}
		op := b.Op
		xs, ys := b.X, b.Y
		var cv *ssa.Const
		if c, ok := ys.(*ssa.Const); ok {
			cv = c
		} else if c, ok := xs.(*ssa.Const); ok {
			cv = c
			xs = ys
			// flip
			switch op {
			case token.LSS:
				op = token.GTR
			case token.GTR:
				op = token.LSS
			case token.LEQ:
				op = token.GEQ
			case token.GEQ:
				op = token.LEQ
			}
		}
		if cv == nil || cv.Value == nil || cv.Value.Kind() != constant.Int || s.Of(xs).String() != x {
			continue
		}
		c := cv.Int64()
		if !a.Pol {
			switch op {
			case token.LSS:
				op = token.GEQ
			case token.GTR:
				op = token.LEQ
			case token.LEQ:
				op = token.GTR
			case token.GEQ:
				op = token.LSS
			case token.EQL:
				op = token.NEQ
			case token.NEQ:
				op = token.EQL
			}
		}
		switch op {
		case token.LSS:
			set(&hi, c-1, false)
		case token.LEQ:
			set(&hi, c, false)
		case token.GTR:
			set(&lo, c+1, true)
		case token.GEQ:
			set(&lo, c, true)
		case token.EQL:
			set(&lo, c, true)
			set(&hi, c, false)
		}
	}
	return
}

func c13(p *Prog, r *Report) {
	r.Explanation = "Structural necessary conditions of ECDSA compatibility decided on SSA and syntax: (1) the verification core is reached only behind 0<r,s<N; (2) the ASN.1 entry point reaches Verify only behind a checked SEQUENCE{INTEGER,INTEGER} parse with no trailing data inside or outside; (3) fail-closed entropy: in every signing/key-generation entry point success is dominated by io.ReadFull(rand)=ok, failure returns carry nil results, and the rand parameter flows nowhere else; (4) the hedged-nonce construction SHA-512(d||entropy||digest)[:32] -> AES-CTR(IV) is the only source of k; (5) signatures are encoded as ASN.1 SEQUENCE{INTEGER r, INTEGER s}; (6) reference agreement: hashToInt is identical to GOROOT crypto/ecdsa (ecdsa_legacy.go) or is proved, path by path with the linear prover, to keep min(len(hash), ceil(orderBits/8)) bytes and shift right by max(0, 8K-orderBits), and the statements of the reference verifyLegacy/signLegacy cores embed, in order, in verifyGeneric/signGeneric."
	r.NotDecided = "verdict equality with crypto/ecdsa on every (r,s) and byte string and acceptance of produced signatures by the standard library (equivalence of two arithmetic implementations: nistec/bigmod vs math/big); the s390x assembly variant (not buildable outside GOROOT)."
	r.Assumptions = append(r.Assumptions, "io.ReadFull returns an error on every short read", "math/big, crypto/elliptic, cryptobyte ASN.1 behave as documented", "GOROOT's crypto/ecdsa/ecdsa_legacy.go is the reference for the math/big code path")
	r.Trusted = append(r.Trusted, "go/types, go/ssa dominators", "term evaluator, reader extractor, AST matcher of this checker", "GOROOT source of the default toolchain")

	const R1 = "C13.range-checks-before-core"
	const R2 = "C13.der-strict-parse"
	const R3 = "C13.entropy-fail-closed"
	const R4 = "C13.hedged-nonce-structure"
	const R5 = "C13.signature-encoding"
	const R6 = "C13.reference-agreement"
	r.Rule(R1, "the call to the verification core in Verify is dominated by r.Sign()>0, s.Sign()>0, r.Cmp(N)<0, s.Cmp(N)<0 with N = pub.Curve.Params().N", 4)
	r.Rule(R2, "VerifyASN1 reaches Verify only behind checked ReadASN1(SEQUENCE), outer Empty, two ReadASN1Integer into the very r and s passed on, inner Empty", 1)
	r.Rule(R3, "entropy fail-closed: success dominated by io.ReadFull(rand)=ok; failure returns nil results; rand flows only to ReadFull/MaybeReadByte/in-module rand parameters", 12)
	r.Rule(R4, "nonce stream = AES-CTR(key=SHA-512(D||entropy||hash)[:32], IV const) over zeros; k is read from that stream only", 3)
	r.Rule(R5, "PrivateKey.Sign returns ASN.1 SEQUENCE{INTEGER r, INTEGER s} of the (r,s) Sign produced", 1)
	r.Rule(R6, "hashToInt identical to GOROOT crypto/ecdsa (or proved on every path to compute the same truncation and shift); reference verify/sign core statements embed in order in verifyGeneric/signGeneric", 3)

	ecdsaVerifyRangeChecks(p, r, R1)

	// ---- R2
	if fn := anchor(p, r, R2, "~/ecdsa.VerifyASN1"); fn != nil {
		r.List("functions", shortName(fn))
		s := p.NewSym(fn)
		rps := s.ff.RetPoints(verdictIndex(fn))
		n := 0
		for i := range rps {
			rp := &rps[i]
			if rp.Outcome == Fails {
				continue
			}
			n++
			key := "VerifyASN1 accepting path"
			// must forward Verify(pub, hash, r, s)
			var vcall *ssa.Call
			if c, ok := rp.Vals[0].(*ssa.Call); ok && calleeName(c.Common()) == nmVerify {
				vcall = c
			}
			if vcall == nil {
				r.Fail(R2, key, p.Pos(rp.Ret.Pos()), "accepting return is not the verdict of Verify(pub, hash, r, s): "+clip(s.Of(rp.Vals[0]).String(), 200))
				continue
			}
			items := p.ReadSequence(s, rp)
			var got []string
			var probs []string
			// the parse moved into a helper (r, s, ok) := parse(sig): analyse the
			// helper's accepting return, require its verdict to dominate, and r, s
			// to be its first two results in order
			rs, hrp := s, rp
			rVal, sVal := vcall.Call.Args[2], vcall.Call.Args[3]
			if len(items) == 0 {
				if e0, ok := rVal.(*ssa.Extract); ok {
					if e1, ok := sVal.(*ssa.Extract); ok && e0.Tuple == e1.Tuple && e0.Index == 0 && e1.Index == 1 {
						if hc, ok := e0.Tuple.(*ssa.Call); ok {
							if h := hc.Call.StaticCallee(); h != nil && InModule(h) && h.Blocks != nil {
								okDom := false
								for _, a := range rp.Facts {
									if c, isCall, succ := callOfAtom(a); isCall && succ && c == hc {
										okDom = true
									}
								}
								hs := s.child(h)
								s.bindArgs(hs, h, hc.Call.Args, hc)
								var hrps []RetPoint
								for _, x := range hs.ff.RetPoints(verdictIndex(h)) {
									if x.Outcome != Fails {
										hrps = append(hrps, x)
									}
								}
								if okDom && len(hrps) == 1 && len(hrps[0].Vals) >= 2 && len(hc.Call.Args) == 1 && s.Of(hc.Call.Args[0]).String() == "param:2" {
									rs, hrp = hs, &hrps[0]
									items = p.ReadSequence(rs, hrp)
									rVal, sVal = hrp.Vals[0], hrp.Vals[1]
								}
							}
						}
					}
				}
			}
			for _, it := range items {
				if !it.Checked {
					probs = append(probs, "unchecked "+it.String())
				}
				res := ""
				if it.Op == "empty" {
					res = fmt.Sprintf("=%v", it.Result)
				} else if !it.Result {
					probs = append(probs, it.String()+" failed on the accepting path")
				}
				got = append(got, it.Op+res+"@"+it.Reader)
			}
			if len(items) != 5 {
				probs = append(probs, fmt.Sprintf("expected 5 reader operations, found %d", len(items)))
			} else {
				outer, inner := items[0].Reader, items[2].Reader
				wantSeq := []string{"asn1@" + outer, "empty=true@" + outer, "asn1int@" + inner, "asn1int@" + inner, "empty=true@" + inner}
				if strings.Join(got, " ") != strings.Join(wantSeq, " ") {
					probs = append(probs, "read sequence is "+strings.Join(got, " ")+", required "+strings.Join(wantSeq, " "))
				}
				if items[0].N != "const:48" {
					probs = append(probs, "outer element tag is "+items[0].N+", required SEQUENCE (48)")
				}
				if items[0].Dst != strings.TrimPrefix(inner, "") && items[0].Dst != inner {
					probs = append(probs, "integers are not read from the SEQUENCE's content: outer read stores into "+items[0].Dst+", integers read from "+inner)
				}
				// the integers read are the r and s passed to Verify
				rArg, sArg := rootOfIface(rVal), rootOfIface(sVal)
				r0, s0 := rootOfIface(items[2].Call.Common().Args[1]), rootOfIface(items[3].Call.Common().Args[1])
				if rArg == nil || rArg != r0 || sArg == nil || sArg != s0 || r0 == s0 {
					probs = append(probs, "the integers parsed are not (in order) the r and s handed to Verify")
				}
			}
			ct := s.callTerm(vcall)
			if why := firstNonEmpty(want("public key", arg(ct, 0), "param:0"), want("hash", arg(ct, 1), "param:1")); why != "" {
				probs = append(probs, why)
			}
			if len(probs) > 0 {
				r.Fail(R2, key, p.Pos(rp.Ret.Pos()), strings.Join(probs, "; "))
			} else {
				r.OK(R2, key, p.Pos(rp.Ret.Pos()), "reads: "+strings.Join(got, " "))
			}
		}
		if n == 0 {
			r.Fail(R2, "VerifyASN1 accepting path", p.Pos(fn.Pos()), "no accepting path")
		}
	}

	// ---- R3
	type ent struct {
		name    string
		randIdx int
	}
	for _, e := range []ent{
		{"~/ecdsa.GenerateKey", 1}, {"~/ecdsa.Sign", 0}, {"~/ecdsa.SignASN1", 0}, {"(*~/ecdsa.PrivateKey).Sign", 1},
		{"~/ecdsa.BlindKeySignWithContext", 0}, {"~/ecdsa.BlindKeySign", 0},
	} {
		fn := anchor(p, r, R3, e.name)
		if fn == nil {
			continue
		}
		r.List("functions", shortName(fn))
		randT := fmt.Sprintf("param:%d", e.randIdx)
		p.RequireOnSuccess(r, R3, fn, CallReq{Desc: "io.ReadFull(rand, buf) err == nil", Callee: "io.ReadFull", Check: func(t *Term) string {
			return want("reader", arg(t, 0), randT)
		}})
		// failure returns carry nil results
		bad := p.nonNilOnFailure(fn, map[*ssa.Function]bool{})
		r.Check(len(bad) == 0, R3, shortName(fn)+": failure returns carry no key/signature", p.Pos(fn.Pos()), "all non-error results are nil on every failing return", strings.Join(bad, " | "))
		// rand flows only to allowed sinks
		leaks := p.randLeaks(fn, fn.Params[e.randIdx], map[*ssa.Parameter]bool{})
		r.Check(len(leaks) == 0, R3, shortName(fn)+": rand flows only to ReadFull/MaybeReadByte", p.Pos(fn.Pos()), "every use of the entropy reader is io.ReadFull, MaybeReadByte or an in-module rand parameter", strings.Join(leaks, " | "))
	}

	// ---- R4
	if fn := anchor(p, r, R4, "~/ecdsa.Sign"); fn != nil {
		s := p.NewSym(fn)
		entropy := "make(const:32, fill<io.ReadFull>(param:0, const:dst))"
		key := "slice(hash<sha512>(cat(call<(*math/big.Int).Bytes>(param:1.D), " + entropy + ", param:2)), const:0, const:32)"
		sites := sitesIn(fn, func(n string) bool { return n == "crypto/aes.NewCipher" })
		if len(sites) != 1 {
			r.Fail(R4, "Sign keys AES once", p.Pos(fn.Pos()), fmt.Sprintf("%d calls to aes.NewCipher", len(sites)))
		} else {
			ct := s.callTerm(sites[0])
			r.Check(arg(ct, 0).String() == key, R4, "AES key = SHA-512(D || entropy || hash)[:32]", p.InstrPos(sites[0]), key, "AES key is "+clip(arg(ct, 0).String(), 400)+", required "+key)
		}
		core := sitesIn(fn, func(n string) bool { return n == "ecdsa.sign" })
		if len(core) != 1 {
			r.Fail(R4, "Sign calls the signing core once", p.Pos(fn.Pos()), fmt.Sprintf("%d calls to ecdsa.sign", len(core)))
		} else {
			ct := s.callTerm(core[0])
			wantCS := "ref(struct<crypto/cipher.StreamReader>(kv<R>(load(global:github.com/cloudflare/pat-go/ecdsa.zeroReader)), kv<S>(call<crypto/cipher.NewCTR>(extract<0>(call<crypto/aes.NewCipher>(" + key + ")), lit:\"IV for ECDSA CTR\"))))"
			got := arg(ct, 1).String()
			// the struct is a local whose address is passed
			r.Check(got == wantCS || got == strings.Replace(wantCS, "ref(", "addr(", 1), R4, "csprng = StreamReader{zeros, AES-CTR(key, IV)}", p.InstrPos(core[0]), "nonce stream bound", "csprng is "+clip(got, 500)+", required "+clip(wantCS, 500))
			why := firstNonEmpty(want("private key", arg(ct, 0), "param:1"), want("hash", arg(ct, 3), "param:2"))
			r.Check(why == "", R4, "signing core receives the caller's key and hash", p.InstrPos(core[0]), "sign(priv, csprng, curve, hash)", why)
		}
	}
	if fn := anchor(p, r, R4, "~/ecdsa.signGeneric"); fn != nil {
		s := p.NewSym(fn)
		sites := p.deepSites(s, func(n string) bool { return n == "ecdsa.randFieldElement" })
		ok := len(sites) == 1
		why := fmt.Sprintf("%d calls to randFieldElement", len(sites))
		if ok {
			ct := sites[0].S.callTerm(sites[0].Site)
			if a := arg(ct, 1).String(); a != "load(param:1)" && a != "param:1" && !strings.HasPrefix(a, "load(param:1") {
				ok = false
				why = "k is drawn from " + clip(a, 200) + ", required the csprng parameter"
			}
		}
		r.Check(ok, R4, "k is drawn from the csprng parameter only", p.Pos(fn.Pos()), "randFieldElement(c, *csprng)", why)
	}

	// ---- R5
	if fn := anchor(p, r, R5, "(*~/ecdsa.PrivateKey).Sign"); fn != nil {
		sig := "call<ecdsa.Sign>(param:1, param:0, param:2)"
		wantEnc := "asn1(const:48, cat(asn1bigint(extract<0>(" + sig + ")), asn1bigint(extract<1>(" + sig + "))))"
		retValueIs(p, r, R5, fn, "SEQUENCE{INTEGER r, INTEGER s}", wantEnc)
	}

	ecdsaReferenceAgreement(p, r, R6)
}

// ecdsaReferenceAgreement: E7 on ecdsa/ecdsa.go against GOROOT crypto/ecdsa.
func ecdsaReferenceAgreement(p *Prog, r *Report, R6 string) {
	gr := goroot()
	refDir := filepath.Join(gr, "src", "crypto", "ecdsa")
	ref, err := parseDir(refDir, func(n string) bool { return strings.Contains(n, "s390x") || n == "boring.go" })
	fork, err2 := parseDir(filepath.Join(p.Repo, "ecdsa"), func(n string) bool { return strings.Contains(n, "s390x") })
	if err != nil || err2 != nil || ref.funcs["hashToInt"] == nil {
		r.Fail(R6, "reference source available", "-", fmt.Sprintf("cannot read reference crypto/ecdsa from GOROOT %q (%v %v)", gr, err, err2))
		return
	}
	r.List("reference", refDir+"/ecdsa_legacy.go")
	if f := fork.funcs["hashToInt"]; f == nil {
		r.Fail(R6, "hashToInt == GOROOT crypto/ecdsa.hashToInt", "-", "fork has no hashToInt")
	} else {
		ok, diff := funcsAgree(f, ref.funcs["hashToInt"])
		good := "identical modulo renaming/comments"
		if !ok {
			// not the reference text: decide the conversion itself
			decided, sok, detail := hashToIntSemantic(p, p.Func("~/ecdsa.hashToInt"))
			if decided && sok {
				ok, good = true, "differs textually from the reference; "+detail
			} else if decided {
				diff += "; and the conversion itself differs: " + detail
			} else {
				diff += "; and the conversion could not be decided semantically: " + detail
			}
		}
		r.Check(ok, R6, "hashToInt == GOROOT crypto/ecdsa.hashToInt", p.Pos(token.NoPos)+"ecdsa/"+fork.fileOf["hashToInt"], good, "digest-to-integer conversion differs from the standard library's: "+diff)
	}
	astHelpers = fork.funcs
	defer func() { astHelpers = nil }()
	embed := func(forkName, refName, from string, minStmts int) {
		ff, rf := fork.funcs[forkName], ref.funcs[refName]
		key := forkName + " embeds the core of GOROOT " + refName
		if ff == nil || rf == nil {
			r.Fail(R6, key, "-", "function missing on one side")
			return
		}
		embedResultNames = nil
		if ff.Type.Results != nil {
			for _, f := range ff.Type.Results.List {
				if len(f.Names) == 0 {
					embedResultNames = append(embedResultNames, "")
				}
				for _, n := range f.Names {
					embedResultNames = append(embedResultNames, n.Name)
				}
			}
		}
		defer func() { embedResultNames = nil }()
		// reference statements from the one starting with `from` to the end,
		// excluding reference-only statements (signature parsing/encoding)
		var rs []ast.Stmt
		started := false
		var flat []ast.Stmt
		flattenStmts(rf.Body.List, &flat)
		for _, st := range flat {
			if !started {
				if as, ok := st.(*ast.AssignStmt); ok && len(as.Lhs) > 0 && selString(as.Lhs[0]) == from {
					started = true
				} else {
					continue
				}
			}
			switch st := st.(type) {
			case *ast.ForStmt, *ast.IfStmt, *ast.DeclStmt:
				continue // compound statements are matched through their parts
			case *ast.ReturnStmt:
				if len(st.Results) > 0 {
					if c, ok := st.Results[0].(*ast.CallExpr); ok && selString(c.Fun) == "encodeSignature" {
						continue
					}
					if id, ok := st.Results[0].(*ast.Ident); ok && (id.Name == "nil" || id.Name == "false" || id.Name == "true") {
						continue // a constant verdict: where it sits is decided by the guard rules, not by statement order
					}
				}
			case *ast.AssignStmt:
				// the reference computes ModInverse unconditionally; the fork
				// does the same in the non-accelerated branch (kept)
			}
			rs = append(rs, st)
		}
		ok, diff := embedsInOrder(ff.Body, rs)
		r.Check(ok && len(rs) >= minStmts, R6, key, "ecdsa/"+fork.fileOf[forkName], fmt.Sprintf("%d reference statements found in order", len(rs)), fmt.Sprintf("%s (of %d reference statements)", diff, len(rs)))
	}
	embed("verifyGeneric", "verifyLegacy", "e", 9)
	embed("signGeneric", "signLegacy", "e", 6)
}

func rootOfIface(v ssa.Value) ssa.Value {
	for {
		switch x := v.(type) {
		case *ssa.MakeInterface:
			v = x.X
		case *ssa.ChangeType:
			v = x.X
		default:
			return v
		}
	}
}

// nonNilOnFailure lists failing return points of fn whose non-verdict results
// are not nil.
func (p *Prog) nonNilOnFailure(fn *ssa.Function, seen map[*ssa.Function]bool) []string {
	if seen[fn] {
		return nil
	}
	seen[fn] = true
	var bad []string
	vi := verdictIndex(fn)
	ff := p.Facts(fn)
	for _, rp := range ff.RetPoints(vi) {
		if rp.Outcome == Succeeds {
			continue
		}
		for i, v := range rp.Vals {
			if i == vi {
				continue
			}
			if isNilConst(v) {
				continue
			}
			if i > 0 && isNilConst(rp.Vals[0]) {
				// (nil, x, err): not a key or signature; the companion value may
				// be a stale loop variable (signGeneric's s after `r = nil`)
				continue
			}
			if rp.Outcome == Maybe {
				// forwarded results of a callee: the callee must be fail-closed
				if ex, ok := v.(*ssa.Extract); ok {
					if c, ok := ex.Tuple.(*ssa.Call); ok {
						if g := c.Call.StaticCallee(); g != nil && InModule(g) {
							bad = append(bad, p.nonNilOnFailure(g, seen)...)
							continue
						}
					}
				}
				if c, ok := v.(*ssa.Call); ok {
					if g := c.Call.StaticCallee(); g != nil && (InModule(g) || g.RelString(nil) == "(*golang.org/x/crypto/cryptobyte.Builder).Bytes") {
						continue
					}
				}
				continue
			}
			bad = append(bad, fmt.Sprintf("%s: failing return at %s carries a non-nil result #%d", shortName(fn), p.Pos(rp.Ret.Pos()), i))
		}
	}
	return bad
}

// randLeaks lists uses of an entropy-reader parameter other than the allowed
// sinks.
func (p *Prog) randLeaks(fn *ssa.Function, prm *ssa.Parameter, seen map[*ssa.Parameter]bool) []string {
	if seen[prm] {
		return nil
	}
	seen[prm] = true
	var leaks []string
	var visit func(v ssa.Value)
	visit = func(v ssa.Value) {
		refs := v.Referrers()
		if refs == nil {
			return
		}
		for _, ref := range *refs {
			switch ref := ref.(type) {
			case *ssa.DebugRef:
			case *ssa.MakeInterface:
				visit(ref)
			case *ssa.ChangeInterface:
				visit(ref)
			case *ssa.Store:
				// spill of the parameter into its own cell (captured/addressed)
				if al, ok := ref.Addr.(*ssa.Alloc); ok && ref.Val == v {
					for _, lr := range *al.Referrers() {
						if ld, ok := lr.(*ssa.UnOp); ok && ld.Op == token.MUL {
							visit(ld)
						}
					}
					continue
				}
				leaks = append(leaks, "stored at "+p.InstrPos(ref))
			case ssa.CallInstruction:
				cc := ref.Common()
				name := calleeName(cc)
				idx := -1
				for i, a := range cc.Args {
					if a == v {
						idx = i
					}
				}
				switch {
				case name == "io.ReadFull" && idx == 0:
				case name == "ecdsa.MaybeReadByte" && idx == 0:
				case name == "(io.Reader).Read" && cc.IsInvoke() && cc.Value == v && fn.Name() == "MaybeReadByte":
				default:
					g := cc.StaticCallee()
					if g != nil && InModule(g) && idx >= 0 && idx < len(g.Params) {
						leaks = append(leaks, p.randLeaks(g, g.Params[idx], seen)...)
					} else {
						leaks = append(leaks, "passed to "+name+" at "+p.InstrPos(ref))
					}
				}
			default:
				leaks = append(leaks, fmt.Sprintf("used by %T at %s", ref, p.InstrPos(ref)))
			}
		}
	}
	visit(prm)
	return leaks
}

// ecdsaVerifyRangeChecks: the verification core is reached only behind
// 0 < r,s < N (shared with C03: with s = 0 the modular inverse is nil and the
// core dereferences it).
func ecdsaVerifyRangeChecks(p *Prog, r *Report, R1 string) {
	if fn := anchor(p, r, R1, "~/ecdsa.Verify"); fn != nil {
		r.List("functions", shortName(fn))
		s := p.NewSym(fn)
		sites := sitesIn(fn, func(n string) bool { return n == "ecdsa.verify" })
		if len(sites) != 1 {
			r.Fail(R1, "Verify calls the core exactly once", p.Pos(fn.Pos()), fmt.Sprintf("found %d calls to ecdsa.verify", len(sites)))
		} else {
			site := sites[0]
			facts := s.ff.At(site.Block())
			N := "call<(crypto/elliptic.Curve).Params>(param:0.Curve).N"
			ct := s.callTerm(site)
			okArgs := firstNonEmpty(want("public key", arg(ct, 0), "param:0"), want("hash", arg(ct, 2), "param:1"), want("r", arg(ct, 3), "param:2"), want("s", arg(ct, 4), "param:3"))
			r.Check(okArgs == "", R1, "core receives the checked r and s", p.InstrPos(site), "verify(pub, curve, hash, r, s) with the function's own arguments", okArgs)
			for _, v := range []struct{ name, prm string }{{"r", "param:2"}, {"s", "param:3"}} {
				lo, _ := boundsOf(s, facts, "call<(*math/big.Int).Sign>("+v.prm+")")
				r.Check(lo != nil && *lo >= 1, R1, v.name+".Sign() > 0 before the core", p.InstrPos(site), "dominating fact "+v.name+".Sign() >= 1", "the verification core is reachable with "+v.name+" <= 0 (no dominating "+v.name+".Sign() > 0)")
				_, hi := boundsOf(s, facts, "call<(*math/big.Int).Cmp>("+v.prm+", "+N+")")
				r.Check(hi != nil && *hi <= -1, R1, v.name+".Cmp(N) < 0 before the core", p.InstrPos(site), "dominating fact "+v.name+" < N", "the verification core is reachable with "+v.name+" >= N (no dominating "+v.name+".Cmp(N) < 0 with N = pub.Curve.Params().N)")
			}
		}
	}

}
