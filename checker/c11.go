package main

// C11 - issuance with fixed blinds is reproducible and the token ignores the blind.

import (
	"fmt"
	"golang.org/x/tools/go/ssa"
	"strings"
)

func init() { props["C11"] = c11 }

func c11(p *Prog, r *Report) {
	r.Explanation = "Reachability and dependency analysis of the three deterministic entry points (type-1/type-2 CreateTokenRequestWithBlind, type-5 CreateTokenRequestWithBlinds): (1) no entropy source (crypto/rand, math/rand, time.Now, a load of rand.Reader) is reachable in the whole-program call graph (VTA, sync.Once.Do resolved at the site) - the randomised siblings do reach one, which is the rule's positive control in the same run; (2) the supplied blind and salt parameters are live: they are the blind(s)/salt handed to DeterministicBlind / FixedBlind, element i with input i; (3) no mutable package-level variable is read or written on these paths (request creation is a function of its arguments); (4) the token input kept in the state, from which the token is later decoded, has no blind or salt parameter in its term."
	r.NotDecided = "that unblinding cancels every blind (token independent of the blind) and byte-for-byte agreement with the Rust vectors: both need evaluation of the arithmetic, which static analysis does not do; the shipped vector file is not consulted."
	r.Assumptions = append(r.Assumptions, "standard library functions outside the sink list are deterministic")
	r.Trusted = append(r.Trusted, "go/ssa, VTA call graph with Once.Do resolved at the site", "effects.go (mutable-global query)", "term evaluator")
	const R1 = "C11.no-entropy-reachable"
	const R2 = "C11.blind-and-salt-are-used"
	const R3 = "C11.no-mutable-global-state"
	const R4 = "C11.token-input-independent-of-blind"
	r.Rule(R1, "no entropy source reachable from the deterministic entry points; the randomised siblings reach one (positive control)", 6)
	r.Rule(R2, "blind/salt parameters are the blinds handed to DeterministicBlind/FixedBlind (element i with input i)", 3)
	r.Rule(R3, "no mutable package-level variable touched on the deterministic paths", 3)
	r.Rule(R4, "state token input contains no blind/salt parameter", 3)

	const R5 = "C11.outcome-independent-of-blind-value"
	r.Rule(R5, "no rejecting branch of the deterministic request constructors is decided by the bytes of a blind/salt argument other than through the dependency's own scalar decoder / blinding call (lengths may be checked)", 3)

	mut := p.mutableGlobals()
	det := []struct {
		fn, sibling string
		blindParams []string
	}{
		{"(~/tokens/type1.BasicPrivateClient).CreateTokenRequestWithBlind", "(~/tokens/type1.BasicPrivateClient).CreateTokenRequest", []string{"param:5"}},
		{"(~/tokens/type2.BasicPublicClient).CreateTokenRequestWithBlind", "(~/tokens/type2.BasicPublicClient).CreateTokenRequest", []string{"param:5", "param:6"}},
		{"(~/tokens/type5.BatchedPrivateClient).CreateTokenRequestWithBlinds", "(~/tokens/type5.BatchedPrivateClient).CreateTokenRequest", []string{"param:5"}},
	}
	for _, d := range det {
		fn := anchor(p, r, R1, d.fn)
		sib := anchor(p, r, R1, d.sibling)
		if fn == nil || sib == nil {
			continue
		}
		r.List("functions", shortName(fn))
		hits := p.entropyReach(fn)
		r.Check(len(hits) == 0, R1, shortName(fn)+": no entropy source reachable", p.Pos(fn.Pos()), "0 paths to an entropy source", "entropy reachable on the deterministic path: "+strings.Join(hits, " | "))
		sh := p.entropyReach(sib)
		r.Check(len(sh) > 0, R1, shortName(sib)+": positive control reaches entropy", p.Pos(sib.Pos()), clip(strings.Join(sh, " | "), 200), "the randomised sibling reaches no entropy source: the sink list or the call graph no longer sees crypto/rand (rule dead)")

		var g []string
		for _, x := range p.globalsTouched(fn, mut) {
			if strings.Contains(x, "(once: ") {
				continue
			}
			g = append(g, x)
		}
		r.Check(len(g) == 0, R3, shortName(fn)+": no mutable package-level state", p.Pos(fn.Pos()), "none touched", strings.Join(g, "; "))

		// R5: "under every blind": the constructor refuses no blind for its value
		{
			why, nEdges := "", 0
			for _, bp := range d.blindParams {
				var k int
				fmt.Sscanf(bp, "param:%d", &k)
				if k >= len(fn.Params) {
					why = "blind parameter " + bp + " not found"
					break
				}
				w, n := verdictIndependentOf(p, fn, fn.Params[k], []string{
					"group.Scalar).UnmarshalBinary", "oprf.client).DeterministicBlind", "blindrsa.Verifier).FixedBlind", "builtin.copy", "builtin.append",
				})
				nEdges += n
				if w != "" {
					why = w
					break
				}
			}
			r.Check(why == "", R5, shortName(fn)+": no blind is refused for its value", p.Pos(fn.Pos()), fmt.Sprintf("%d rejecting branches, none decided by the bytes of a blind/salt argument", nEdges), why+": some blinds are refused, so the token is not the same under every blind")
		}

		// R4
		s := p.NewSym(fn)
		okAll, n := true, 0
		detail := ""
		for _, rp := range s.ff.RetPoints(verdictIndex(fn)) {
			if rp.Outcome == Fails {
				continue
			}
			n++
			st := s.Of(rp.Vals[0])
			for _, f := range []string{"tokenInput", "tokenInputs"} {
				if st.Op != "struct" {
					continue
				}
				v := structField(st, f)
				if v == nil {
					continue
				}
				for _, bp := range d.blindParams {
					if v.ContainsStr(bp) {
						okAll = false
						detail = "state." + f + " depends on " + bp + ": " + clip(v.String(), 200)
					}
				}
			}
		}
		// the state keeps its own serialized token input (type || nonce ||
		// SHA-256(challenge) || key id), from which the token is later decoded:
		// a private copy, not views of caller buffers that may change before
		// finalization
		for _, rp := range s.ff.RetPoints(verdictIndex(fn)) {
			if rp.Outcome == Fails {
				continue
			}
			st := s.Of(rp.Vals[0])
			if st.Op != "struct" {
				okAll = false
				detail = "state is not a struct literal"
				continue
			}
			ti, tis := structField(st, "tokenInput"), structField(st, "tokenInputs")
			switch {
			case ti != nil:
				if !glob("cat(u16(const:*), param:2, hash<sha256>(param:1), param:3)", ti.String()) {
					okAll = false
					detail = "state.tokenInput is " + clip(ti.String(), 200) + ", required the serialized type||nonce||SHA-256(challenge)||key id"
				}
			case tis != nil:
				if tis.String() != "make(len(param:2))" {
					okAll = false
					detail = "state.tokenInputs is " + clip(tis.String(), 200)
				}
			default:
				okAll = false
				detail = "the state keeps no serialized token input: the token would be rebuilt at finalization from values that may have changed since the request was created"
			}
		}
		r.Check(okAll && n > 0, R4, shortName(fn)+": token input independent of the blind", p.Pos(fn.Pos()), "no blind/salt parameter in the token input term", detail)
	}

	// R2
	if fn := anchor(p, r, R2, det[0].fn); fn != nil {
		s := p.NewSym(fn)
		sites := sitesIn(fn, func(n string) bool { return strings.HasSuffix(n, "oprf.client).DeterministicBlind") })
		ok := len(sites) == 1
		why := "expected one DeterministicBlind call"
		if ok {
			t := s.callTerm(sites[0])
			ti := tokenInputTerm("1", "param:2", "param:1", "param:3")
			why = firstNonEmpty(
				want("inputs", arg(t, 1), "list("+ti+")"),
				want("blinds", arg(t, 2), "list(obj(call<(github.com/cloudflare/circl/group.Group).NewScalar>(load(global:github.com/cloudflare/circl/group.P384)), call<(github.com/cloudflare/circl/group.Scalar).UnmarshalBinary>(const:self, param:5)))"),
			)
			ok = why == ""
		}
		r.Check(ok, R2, "type 1: the supplied blind is the blind used", p.Pos(fn.Pos()), "DeterministicBlind([input], [scalar(blindEnc)])", why)
	}
	if fn := anchor(p, r, R2, det[1].fn); fn != nil {
		s := p.NewSym(fn)
		sites := sitesIn(fn, func(n string) bool { return strings.HasSuffix(n, "blindrsa.Verifier).FixedBlind") })
		ok := len(sites) == 1
		why := "expected one FixedBlind call"
		if ok {
			t := s.callTerm(sites[0])
			why = firstNonEmpty(want("message", arg(t, 1), tokenInputTerm("2", "param:2", "param:1", "param:3")), want("blind", arg(t, 2), "param:5"), want("salt", arg(t, 3), "param:6"))
			ok = why == ""
		}
		r.Check(ok, R2, "type 2: the supplied blind and salt are used", p.Pos(fn.Pos()), "FixedBlind(input, blind, salt)", why)
	}
	if fn := anchor(p, r, R2, det[2].fn); fn != nil {
		s := p.NewSym(fn)
		// blinds[i] = NewScalar(); blinds[i].UnmarshalBinary(encodedBlinds[i]) with the same i as tokenInputs[i] (nonces[i])
		found := false
		var seen []string
		for _, site := range sitesIn(fn, func(n string) bool { return n == "(github.com/cloudflare/circl/group.Scalar).UnmarshalBinary" }) {
			t := s.callTerm(site)
			recv, src := arg(t, 0), arg(t, 1)
			seen = append(seen, clip(recv.String()+" <- "+src.String(), 200))
			if src.Op == "index" && src.Args[0].String() == "param:5" && recv.Op == "index" && recv.Args[1].String() == src.Args[1].String() && strings.HasPrefix(recv.Args[0].String(), "make(len(param:2)") {
				// and DeterministicBlind receives that slice as blinds
				for _, db := range sitesIn(fn, func(n string) bool { return strings.HasSuffix(n, "oprf.client).DeterministicBlind") }) {
					if arg(s.callTerm(db), 2).String() == recv.Args[0].String() && s.factsHaveCallSuccessAny(db, site) {
						found = true
					}
				}
			}
		}
		// or: blind := NewScalar(); blind.UnmarshalBinary(encodedBlinds[i]); blinds[i] = blind
		for _, site := range sitesIn(fn, func(n string) bool { return n == "(github.com/cloudflare/circl/group.Scalar).UnmarshalBinary" }) {
			cc := site.Common()
			src := s.Of(cc.Args[0])
			if src.Op != "index" || src.Args[0].String() != "param:5" {
				continue
			}
			for _, b := range fn.Blocks {
				for _, in := range b.Instrs {
					st, ok := in.(*ssa.Store)
					if !ok || st.Val != cc.Value {
						continue
					}
					ia, ok := st.Addr.(*ssa.IndexAddr)
					if !ok || s.Of(ia.Index).String() != src.Args[1].String() || !strings.HasPrefix(s.Of(ia.X).String(), "make(len(param:2)") {
						continue
					}
					// the scalar object must be created per iteration: its allocation
					// site lies in the loop that stores it (one hoisted object would
					// make every blinds[i] the same pointer, holding the last blind)
					alloc, isInstr := cc.Value.(ssa.Instruction)
					loop := innermostLoop(naturalLoops(fn), st.Block())
					if !isInstr || loop == nil || !loop.Blocks[alloc.Block()] {
						seen = append(seen, "scalar stored into blinds[i] is allocated outside the loop")
						continue
					}
					for _, db := range sitesIn(fn, func(n string) bool { return strings.HasSuffix(n, "oprf.client).DeterministicBlind") }) {
						if arg(s.callTerm(db), 2).String() == s.Of(ia.X).String() {
							found = true
						}
					}
				}
			}
		}
		r.Check(found, R2, "type 5: blind i is decoded from encodedBlinds[i] and handed to DeterministicBlind", p.Pos(fn.Pos()), "blinds[i].UnmarshalBinary(encodedBlinds[i]); DeterministicBlind(inputs, blinds)", "no per-index decoding of encodedBlinds[i] into the blinds slice passed to DeterministicBlind; seen: "+strings.Join(seen, " ; "))
	}
}
