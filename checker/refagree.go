package main

// E7: agreement of a forked function with its reference in GOROOT, on syntax
// trees, modulo comments, formatting, consistent renaming of local
// identifiers, import aliases and a small table of reviewed helper
// equivalences.

import (
	"fmt"
	"go/ast"
	"go/parser"
	"go/printer"
	"go/token"
	"os"
	"os/exec"
	"path/filepath"
	"sort"
	"strings"
)

type srcPkg struct {
	dir    string
	fset   *token.FileSet
	files  []*ast.File
	funcs  map[string]*ast.FuncDecl // "Recv.Name" or "Name"
	decls  map[string]ast.Expr      // package-level var/const initialisers by name
	typs   map[string]ast.Expr
	fileOf map[string]string
}

func goroot() string {
	if g := os.Getenv("PATCHECK_GOROOT"); g != "" {
		return g
	}
	cmd := exec.Command("go", "env", "GOROOT")
	cmd.Env = goEnv("")
	out, err := cmd.Output()
	if err != nil {
		return ""
	}
	return strings.TrimSpace(string(out))
}

// parseDir parses the non-test Go files of dir that apply to the default
// configuration (files with an explicit build constraint excluding amd64 or
// requiring unusual tags are skipped by name/constraint heuristics).
func parseDir(dir string, skip func(name string) bool) (*srcPkg, error) {
	ents, err := os.ReadDir(dir)
	if err != nil {
		return nil, err
	}
	sp := &srcPkg{dir: dir, fset: token.NewFileSet(), funcs: map[string]*ast.FuncDecl{}, decls: map[string]ast.Expr{}, typs: map[string]ast.Expr{}, fileOf: map[string]string{}}
	var names []string
	for _, e := range ents {
		n := e.Name()
		if !strings.HasSuffix(n, ".go") || strings.HasSuffix(n, "_test.go") {
			continue
		}
		if skip != nil && skip(n) {
			continue
		}
		names = append(names, n)
	}
	sort.Strings(names)
	for _, n := range names {
		f, err := parser.ParseFile(sp.fset, filepath.Join(dir, n), nil, parser.SkipObjectResolution)
		if err != nil {
			return nil, err
		}
		sp.files = append(sp.files, f)
		for _, d := range f.Decls {
			switch d := d.(type) {
			case *ast.FuncDecl:
				key := d.Name.Name
				if d.Recv != nil && len(d.Recv.List) > 0 {
					key = recvName(d.Recv.List[0].Type) + "." + key
				}
				sp.funcs[key] = d
				sp.fileOf[key] = n
			case *ast.GenDecl:
				for _, s := range d.Specs {
					switch s := s.(type) {
					case *ast.ValueSpec:
						for i, nm := range s.Names {
							if i < len(s.Values) {
								sp.decls[nm.Name] = s.Values[i]
								if d.Tok == token.CONST {
									constRegistry[nm.Name] = append(constRegistry[nm.Name], s.Values[i])
								}
							}
						}
					case *ast.TypeSpec:
						sp.typs[s.Name.Name] = s.Type
					}
				}
			}
		}
	}
	return sp, nil
}

func recvName(e ast.Expr) string {
	switch e := e.(type) {
	case *ast.StarExpr:
		return recvName(e.X)
	case *ast.Ident:
		return e.Name
	case *ast.IndexExpr:
		return recvName(e.X)
	}
	return "?"
}

// matcher compares two ASTs with a consistent local-identifier bijection.
type matcher struct {
	l2r, r2l map[string]string
	// selector equivalences: fork "binary.LittleEndian.Uint64" == ref "byteorder.LeUint64"
	selEq map[string]string
	diff  string
}

func newMatcher() *matcher {
	return &matcher{l2r: map[string]string{}, r2l: map[string]string{}, selEq: map[string]string{
		"binary.LittleEndian.Uint64":    "byteorder.LeUint64",
		"binary.LittleEndian.PutUint64": "byteorder.LePutUint64",
	}}
}

func (m *matcher) clone() *matcher {
	c := &matcher{l2r: map[string]string{}, r2l: map[string]string{}, selEq: m.selEq}
	for k, v := range m.l2r {
		c.l2r[k] = v
	}
	for k, v := range m.r2l {
		c.r2l[k] = v
	}
	return c
}

func (m *matcher) fail(format string, a ...any) bool {
	if m.diff == "" {
		m.diff = fmt.Sprintf(format, a...)
	}
	return false
}

func selString(e ast.Expr) string {
	switch e := e.(type) {
	case *ast.Ident:
		return e.Name
	case *ast.SelectorExpr:
		return selString(e.X) + "." + e.Sel.Name
	}
	return ""
}

func (m *matcher) ident(a, b *ast.Ident) bool {
	if a.Name == b.Name {
		// still record the mapping so that it stays consistent
		if r, ok := m.l2r[a.Name]; ok && r != b.Name {
			return m.fail("identifier %s maps to both %s and %s", a.Name, r, b.Name)
		}
		if l, ok := m.r2l[b.Name]; ok && l != a.Name {
			return m.fail("identifier %s maps from both %s and %s", b.Name, l, a.Name)
		}
		m.l2r[a.Name] = b.Name
		m.r2l[b.Name] = a.Name
		return true
	}
	// different names: allowed only as a consistent renaming of locals
	// (lower-case, not predeclared)
	if ast.IsExported(a.Name) || ast.IsExported(b.Name) || predeclared[a.Name] || predeclared[b.Name] {
		return m.fail("identifier %s vs %s", a.Name, b.Name)
	}
	if r, ok := m.l2r[a.Name]; ok {
		if r != b.Name {
			return m.fail("identifier %s vs %s", a.Name, b.Name)
		}
		return true
	}
	if _, ok := m.r2l[b.Name]; ok {
		return m.fail("identifier %s vs %s", a.Name, b.Name)
	}
	m.l2r[a.Name] = b.Name
	m.r2l[b.Name] = a.Name
	return true
}

var predeclared = map[string]bool{"nil": true, "true": true, "false": true, "len": true, "cap": true, "copy": true, "append": true, "make": true, "new": true, "panic": true,
	"uint8": true, "uint16": true, "uint32": true, "uint64": true, "int8": true, "int16": true, "int32": true, "int64": true, "int": true, "uint": true, "byte": true, "bool": true, "string": true, "error": true, "uintptr": true, "iota": true}

func (m *matcher) exprs(a, b []ast.Expr) bool {
	if len(a) != len(b) {
		return m.fail("expression list length %d vs %d", len(a), len(b))
	}
	for i := range a {
		if !m.expr(a[i], b[i]) {
			return false
		}
	}
	return true
}

func (m *matcher) expr(a, b ast.Expr) bool {
	if a == nil || b == nil {
		if a == nil && b == nil {
			return true
		}
		return m.fail("expression present on one side only")
	}
	// strip parens
	for {
		if p, ok := a.(*ast.ParenExpr); ok {
			a = p.X
			continue
		}
		break
	}
	for {
		if p, ok := b.(*ast.ParenExpr); ok {
			b = p.X
			continue
		}
		break
	}
	// reviewed selector equivalences
	if sa, sb := selString(a), selString(b); sa != "" && sb != "" && sa != sb {
		if m.selEq[sa] == sb {
			return true
		}
	}
	// a named package-level constant and the literal of its value are the same
	// expression (constants are compared by value)
	if id, ok := a.(*ast.Ident); ok {
		if lit, ok := b.(*ast.BasicLit); ok && constIdentIs(id.Name, lit) {
			return true
		}
	}
	if id, ok := b.(*ast.Ident); ok {
		if lit, ok := a.(*ast.BasicLit); ok && constIdentIs(id.Name, lit) {
			return true
		}
	}
	switch a := a.(type) {
	case *ast.Ident:
		bb, ok := b.(*ast.Ident)
		if !ok {
			return m.fail("ident %s vs %T", a.Name, b)
		}
		return m.ident(a, bb)
	case *ast.BasicLit:
		bb, ok := b.(*ast.BasicLit)
		if !ok || a.Kind != bb.Kind || normLit(a.Value) != normLit(bb.Value) {
			return m.fail("literal %s differs", a.Value)
		}
		return true
	case *ast.SelectorExpr:
		bb, ok := b.(*ast.SelectorExpr)
		if !ok {
			return m.fail("selector .%s vs %T", a.Sel.Name, b)
		}
		if a.Sel.Name != bb.Sel.Name {
			return m.fail("selector .%s vs .%s", a.Sel.Name, bb.Sel.Name)
		}
		return m.expr(a.X, bb.X)
	case *ast.CallExpr:
		bb, ok := b.(*ast.CallExpr)
		if !ok {
			return m.fail("call vs %T", b)
		}
		return m.expr(a.Fun, bb.Fun) && m.exprs(a.Args, bb.Args) && (a.Ellipsis.IsValid() == bb.Ellipsis.IsValid() || m.fail("ellipsis differs"))
	case *ast.BinaryExpr:
		bb, ok := b.(*ast.BinaryExpr)
		if !ok || a.Op != bb.Op {
			return m.fail("binary operator %s differs", a.Op)
		}
		return m.expr(a.X, bb.X) && m.expr(a.Y, bb.Y)
	case *ast.UnaryExpr:
		bb, ok := b.(*ast.UnaryExpr)
		if !ok || a.Op != bb.Op {
			return m.fail("unary operator %s differs", a.Op)
		}
		return m.expr(a.X, bb.X)
	case *ast.StarExpr:
		bb, ok := b.(*ast.StarExpr)
		if !ok {
			return m.fail("star vs %T", b)
		}
		return m.expr(a.X, bb.X)
	case *ast.IndexExpr:
		bb, ok := b.(*ast.IndexExpr)
		if !ok {
			return m.fail("index vs %T", b)
		}
		return m.expr(a.X, bb.X) && m.expr(a.Index, bb.Index)
	case *ast.SliceExpr:
		bb, ok := b.(*ast.SliceExpr)
		if !ok || a.Slice3 != bb.Slice3 {
			return m.fail("slice expression differs")
		}
		return m.expr(a.X, bb.X) && m.expr(a.Low, bb.Low) && m.expr(a.High, bb.High) && m.expr(a.Max, bb.Max)
	case *ast.CompositeLit:
		bb, ok := b.(*ast.CompositeLit)
		if !ok {
			return m.fail("composite literal vs %T", b)
		}
		return m.expr(a.Type, bb.Type) && m.exprs(a.Elts, bb.Elts)
	case *ast.KeyValueExpr:
		bb, ok := b.(*ast.KeyValueExpr)
		if !ok {
			return m.fail("key-value vs %T", b)
		}
		// struct field keys are plain names: compare textually
		ka, kb := selString(a.Key), selString(bb.Key)
		if ka != "" && ka == kb {
			return m.expr(a.Value, bb.Value)
		}
		return m.expr(a.Key, bb.Key) && m.expr(a.Value, bb.Value)
	case *ast.ArrayType:
		bb, ok := b.(*ast.ArrayType)
		if !ok {
			return m.fail("array type vs %T", b)
		}
		return m.expr(a.Len, bb.Len) && m.expr(a.Elt, bb.Elt)
	case *ast.TypeAssertExpr:
		bb, ok := b.(*ast.TypeAssertExpr)
		if !ok {
			return m.fail("type assertion vs %T", b)
		}
		return m.expr(a.X, bb.X) && m.expr(a.Type, bb.Type)
	case *ast.FuncLit:
		bb, ok := b.(*ast.FuncLit)
		if !ok {
			return m.fail("func literal vs %T", b)
		}
		return m.fieldList(a.Type.Params, bb.Type.Params) && m.fieldList(a.Type.Results, bb.Type.Results) && m.block(a.Body, bb.Body)
	case *ast.Ellipsis:
		bb, ok := b.(*ast.Ellipsis)
		if !ok {
			return m.fail("ellipsis vs %T", b)
		}
		return m.expr(a.Elt, bb.Elt)
	case *ast.MapType:
		bb, ok := b.(*ast.MapType)
		return ok && m.expr(a.Key, bb.Key) && m.expr(a.Value, bb.Value) || m.fail("map type differs")
	case *ast.StructType:
		bb, ok := b.(*ast.StructType)
		return ok && m.fieldList(a.Fields, bb.Fields) || m.fail("struct type differs")
	case *ast.InterfaceType, *ast.FuncType, *ast.ChanType:
		return fmt.Sprintf("%T", a) == fmt.Sprintf("%T", b) || m.fail("type expression differs")
	}
	return m.fail("unsupported expression %T", a)
}

func normLit(s string) string {
	s = strings.ReplaceAll(s, "_", "")
	return strings.ToLower(s)
}

func (m *matcher) fieldList(a, b *ast.FieldList) bool {
	if a == nil || b == nil {
		if (a == nil || len(a.List) == 0) && (b == nil || len(b.List) == 0) {
			return true
		}
		return m.fail("parameter list present on one side only")
	}
	// flatten names
	type fld struct {
		name *ast.Ident
		typ  ast.Expr
	}
	flat := func(l *ast.FieldList) []fld {
		var out []fld
		for _, f := range l.List {
			if len(f.Names) == 0 {
				out = append(out, fld{nil, f.Type})
			}
			for _, n := range f.Names {
				out = append(out, fld{n, f.Type})
			}
		}
		return out
	}
	fa, fb := flat(a), flat(b)
	if len(fa) != len(fb) {
		return m.fail("field count %d vs %d", len(fa), len(fb))
	}
	for i := range fa {
		if (fa[i].name == nil) != (fb[i].name == nil) {
			return m.fail("named vs unnamed field")
		}
		if fa[i].name != nil && !m.ident(fa[i].name, fb[i].name) {
			return false
		}
		if !m.expr(fa[i].typ, fb[i].typ) {
			return false
		}
	}
	return true
}

func (m *matcher) block(a, b *ast.BlockStmt) bool {
	if a == nil || b == nil {
		if a == nil && b == nil {
			return true
		}
		return m.fail("block present on one side only")
	}
	return m.stmts(a.List, b.List)
}

// dropDeferredWipes removes `defer clear(x)` / `defer clear(x[:])` for a plain
// local x that no return statement of the list mentions: the wipe runs when
// the function returns, after every use, and x is not part of the result, so
// no observable value depends on it.
func dropDeferredWipes(list []ast.Stmt) []ast.Stmt {
	returned := map[string]bool{}
	bare := false
	for _, st := range list {
		ast.Inspect(st, func(n ast.Node) bool {
			if r, ok := n.(*ast.ReturnStmt); ok {
				if len(r.Results) == 0 {
					bare = true // named results: any local may be a result
				}
				for _, e := range r.Results {
					ast.Inspect(e, func(n ast.Node) bool {
						if id, ok := n.(*ast.Ident); ok {
							returned[id.Name] = true
						}
						return true
					})
				}
			}
			return true
		})
	}
	if bare {
		return list
	}
	var out []ast.Stmt
	for _, st := range list {
		if d, ok := st.(*ast.DeferStmt); ok {
			if fn, ok := d.Call.Fun.(*ast.Ident); ok && fn.Name == "clear" && len(d.Call.Args) == 1 {
				arg := d.Call.Args[0]
				if sl, ok := arg.(*ast.SliceExpr); ok && sl.Low == nil && sl.High == nil && sl.Max == nil {
					arg = sl.X
				}
				if id, ok := arg.(*ast.Ident); ok && !returned[id.Name] {
					continue
				}
			}
		}
		out = append(out, st)
	}
	return out
}

// hoistIfInit rewrites `if init; cond { .. }` as `init; if cond { .. }`: the
// two differ only in the scope of the names init declares, which matching
// modulo renaming does not observe.
func hoistIfInit(list []ast.Stmt) []ast.Stmt {
	var out []ast.Stmt
	for _, st := range list {
		if is, ok := st.(*ast.IfStmt); ok && is.Init != nil {
			c := *is
			c.Init = nil
			out = append(out, is.Init, &c)
			continue
		}
		out = append(out, st)
	}
	return out
}

func (m *matcher) stmts(a, b []ast.Stmt) bool {
	a, b = dropDeferredWipes(a), dropDeferredWipes(b)
	a, b = hoistIfInit(a), hoistIfInit(b)
	if len(a) != len(b) {
		return m.fail("statement count %d vs %d", len(a), len(b))
	}
	for i := range a {
		if !m.stmt(a[i], b[i]) {
			return false
		}
	}
	return true
}

func (m *matcher) stmt(a, b ast.Stmt) bool {
	if a == nil || b == nil {
		if a == nil && b == nil {
			return true
		}
		return m.fail("statement present on one side only")
	}
	switch a := a.(type) {
	case *ast.ExprStmt:
		bb, ok := b.(*ast.ExprStmt)
		return ok && m.expr(a.X, bb.X) || m.fail("expression statement differs")
	case *ast.AssignStmt:
		bb, ok := b.(*ast.AssignStmt)
		if !ok || a.Tok != bb.Tok {
			return m.fail("assignment differs")
		}
		return m.exprs(a.Rhs, bb.Rhs) && m.exprs(a.Lhs, bb.Lhs)
	case *ast.ReturnStmt:
		bb, ok := b.(*ast.ReturnStmt)
		return ok && m.exprs(a.Results, bb.Results) || m.fail("return differs")
	case *ast.IfStmt:
		bb, ok := b.(*ast.IfStmt)
		if !ok {
			return m.fail("if vs %T", b)
		}
		return m.stmt(a.Init, bb.Init) && m.expr(a.Cond, bb.Cond) && m.block(a.Body, bb.Body) && m.stmt(a.Else, bb.Else)
	case *ast.BlockStmt:
		bb, ok := b.(*ast.BlockStmt)
		return ok && m.block(a, bb) || m.fail("block differs")
	case *ast.ForStmt:
		bb, ok := b.(*ast.ForStmt)
		if !ok {
			return m.fail("for vs %T", b)
		}
		return m.stmt(a.Init, bb.Init) && m.expr(a.Cond, bb.Cond) && m.stmt(a.Post, bb.Post) && m.block(a.Body, bb.Body)
	case *ast.RangeStmt:
		bb, ok := b.(*ast.RangeStmt)
		if !ok || a.Tok != bb.Tok {
			return m.fail("range differs")
		}
		return m.expr(a.Key, bb.Key) && m.expr(a.Value, bb.Value) && m.expr(a.X, bb.X) && m.block(a.Body, bb.Body)
	case *ast.IncDecStmt:
		bb, ok := b.(*ast.IncDecStmt)
		return ok && a.Tok == bb.Tok && m.expr(a.X, bb.X) || m.fail("inc/dec differs")
	case *ast.DeclStmt:
		bb, ok := b.(*ast.DeclStmt)
		if !ok {
			return m.fail("declaration vs %T", b)
		}
		ga, ok1 := a.Decl.(*ast.GenDecl)
		gb, ok2 := bb.Decl.(*ast.GenDecl)
		if !ok1 || !ok2 || ga.Tok != gb.Tok || len(ga.Specs) != len(gb.Specs) {
			return m.fail("declaration differs")
		}
		for i := range ga.Specs {
			va, ok1 := ga.Specs[i].(*ast.ValueSpec)
			vb, ok2 := gb.Specs[i].(*ast.ValueSpec)
			if !ok1 || !ok2 || len(va.Names) != len(vb.Names) {
				return m.fail("declaration spec differs")
			}
			for j := range va.Names {
				if !m.ident(va.Names[j], vb.Names[j]) {
					return false
				}
			}
			if !m.expr(va.Type, vb.Type) || !m.exprs(va.Values, vb.Values) {
				return false
			}
		}
		return true
	case *ast.SwitchStmt:
		bb, ok := b.(*ast.SwitchStmt)
		if !ok {
			return m.fail("switch vs %T", b)
		}
		return m.stmt(a.Init, bb.Init) && m.expr(a.Tag, bb.Tag) && m.block(a.Body, bb.Body)
	case *ast.CaseClause:
		bb, ok := b.(*ast.CaseClause)
		return ok && m.exprs(a.List, bb.List) && m.stmts(a.Body, bb.Body) || m.fail("case clause differs")
	case *ast.BranchStmt:
		bb, ok := b.(*ast.BranchStmt)
		return ok && a.Tok == bb.Tok || m.fail("branch differs")
	case *ast.EmptyStmt:
		_, ok := b.(*ast.EmptyStmt)
		return ok || m.fail("empty statement differs")
	case *ast.DeferStmt:
		bb, ok := b.(*ast.DeferStmt)
		return ok && m.expr(a.Call, bb.Call) || m.fail("defer differs")
	case *ast.GoStmt:
		bb, ok := b.(*ast.GoStmt)
		return ok && m.expr(a.Call, bb.Call) || m.fail("go differs")
	case *ast.LabeledStmt:
		bb, ok := b.(*ast.LabeledStmt)
		return ok && m.stmt(a.Stmt, bb.Stmt) || m.fail("label differs")
	}
	return m.fail("unsupported statement %T", a)
}

// funcsAgree: exact agreement of two function declarations (signature + body).
func funcsAgree(fork, ref *ast.FuncDecl) (bool, string) {
	m := newMatcher()
	if fork.Recv != nil || ref.Recv != nil {
		if !m.fieldList(fork.Recv, ref.Recv) {
			return false, "receiver: " + m.diff
		}
	}
	if !m.fieldList(fork.Type.Params, ref.Type.Params) {
		return false, "parameters: " + m.diff
	}
	if !m.fieldList(fork.Type.Results, ref.Type.Results) {
		return false, "results: " + m.diff
	}
	if !m.block(fork.Body, ref.Body) {
		return false, m.diff
	}
	return true, ""
}

// flattenStmts lists the simple statements of a body in source order,
// descending into blocks, if/else, for and switch bodies.
func flattenStmts(list []ast.Stmt, out *[]ast.Stmt) {
	for _, s := range list {
		switch s := s.(type) {
		case *ast.BlockStmt:
			flattenStmts(s.List, out)
		case *ast.IfStmt:
			*out = append(*out, s) // the if itself (for whole-statement matches)
			flattenStmts(s.Body.List, out)
			if s.Else != nil {
				flattenStmts([]ast.Stmt{s.Else}, out)
			}
		case *ast.ForStmt:
			*out = append(*out, s)
			flattenStmts(s.Body.List, out)
		case *ast.RangeStmt:
			*out = append(*out, s)
			flattenStmts(s.Body.List, out)
		case *ast.SwitchStmt:
			*out = append(*out, s)
			flattenStmts(s.Body.List, out)
		case *ast.TypeSwitchStmt:
			*out = append(*out, s)
			flattenStmts(s.Body.List, out)
		case *ast.CaseClause:
			flattenStmts(s.Body, out)
		default:
			*out = append(*out, s)
		}
	}
}

// stmtLoose compares statements allowing `x := e` in the reference to match
// `x = e` in the fork (the fork hoists declarations out of added branches).
func (m *matcher) stmtLoose(a, b ast.Stmt) bool {
	aa, ok1 := a.(*ast.AssignStmt)
	bb, ok2 := b.(*ast.AssignStmt)
	if ok1 && ok2 && aa.Tok != bb.Tok && (aa.Tok == token.ASSIGN || aa.Tok == token.DEFINE) && (bb.Tok == token.ASSIGN || bb.Tok == token.DEFINE) {
		return m.exprs(aa.Rhs, bb.Rhs) && m.exprs(aa.Lhs, bb.Lhs)
	}
	return m.stmt(a, b)
}

// embedsInOrder: every listed reference statement occurs in the fork body, in
// the same relative order, under one consistent identifier mapping.
func embedsInOrder(forkBody *ast.BlockStmt, refStmts []ast.Stmt) (bool, string) {
	var fl0, fl []ast.Stmt
	flattenStmts(forkBody.List, &fl0)
	for _, st := range fl0 {
		if a, b := unchain(st); a != nil {
			fl = append(fl, a, b) // the two statements a big.Int method chain abbreviates
		}
		fl = append(fl, st)
		if lt := lookThrough(st); lt != nil {
			fl = append(fl, lt) // the same assignment with a one-expression helper looked through
		}
	}
	m := newMatcher()
	pos := 0
	for i, rs := range refStmts {
		found := false
		for j := pos; j < len(fl); j++ {
			c := m.clone()
			if c.stmtLoose(fl[j], rs) || breakIsReturn(fl[j], rs) {
				m = c
				pos = j + 1
				found = true
				break
			}
		}
		if !found {
			var sb strings.Builder
			_ = printer.Fprint(&sb, token.NewFileSet(), rs)
			txt := strings.Join(strings.Fields(sb.String()), " ")
			if len(txt) > 80 {
				txt = txt[:80] + "..."
			}
			return false, fmt.Sprintf("reference statement #%d (%s) has no counterpart (in order) in the fork", i+1, txt)
		}
	}
	return true, ""
}

// constRegistry: initialisers of package-level constants of every parsed
// package (fork and reference), by name.
var constRegistry = map[string][]ast.Expr{}

// constIdentIs: every registered constant of that name is initialised with a
// literal equal to lit.
func constIdentIs(name string, lit *ast.BasicLit) bool {
	inits := constRegistry[name]
	if len(inits) == 0 {
		return false
	}
	for _, e := range inits {
		for {
			if p, ok := e.(*ast.ParenExpr); ok {
				e = p.X
				continue
			}
			break
		}
		l, ok := e.(*ast.BasicLit)
		if !ok || l.Kind != lit.Kind || normLit(l.Value) != normLit(lit.Value) {
			return false
		}
	}
	return true
}

// embedResultNames: the named results of the fork function whose body is being
// compared (set by the caller of embedsInOrder), "" for unnamed ones.
var embedResultNames []string

// breakIsReturn: the reference leaves its retry loop with `break` and then
// returns its named results; a fork that returns those results on the spot
// (`return r, s, nil`: the named results in order, nil for an error that is
// nil there because every earlier failure returned) does the same thing.
func breakIsReturn(forkStmt, refStmt ast.Stmt) bool {
	br, ok := refStmt.(*ast.BranchStmt)
	if !ok || br.Tok != token.BREAK || br.Label != nil {
		return false
	}
	ret, ok := forkStmt.(*ast.ReturnStmt)
	if !ok || len(embedResultNames) == 0 || len(ret.Results) != len(embedResultNames) {
		return false
	}
	for i, e := range ret.Results {
		id, ok := e.(*ast.Ident)
		if !ok {
			return false
		}
		want := embedResultNames[i]
		if id.Name == want && want != "" {
			continue
		}
		if id.Name == "nil" && i == len(ret.Results)-1 {
			continue // the error result
		}
		return false
	}
	return true
}
