package main

// Mutable package-level state: which globals are written after
// initialisation, and which functions touch them.

import (
	"sort"

	"golang.org/x/tools/go/ssa"
)

// Effects returns (computing once) the may-write summaries of every pat-go
// function and everything reachable from them.
func (p *Prog) Effects() *Effects {
	if p.eff == nil {
		p.eff = p.NewEffects()
		p.eff.Solve(p.ModuleFuncs()...)
	}
	return p.eff
}

// mutableGlobals returns the package-level variables of pat-go packages that
// some function other than a package initialiser may write (directly or
// through a callee that writes through a pointer to them). Writes inside a
// sync.Once.Do closure are reported with the "once:" prefix.
func (p *Prog) mutableGlobals() map[*ssa.Global]string {
	e := p.Effects()
	out := map[*ssa.Global]string{}
	for _, f := range p.ModuleFuncs() {
		if f.Name() == "init" && f.Parent() == nil {
			continue
		}
		s := e.Summary(f)
		if s == nil {
			continue
		}
		for g, w := range s.WritesGlob {
			if InModulePkg(g) {
				if _, ok := out[g]; !ok {
					out[g] = "written by " + shortName(f) + ": " + e.describe(w)
				}
			}
		}
		for g, w := range s.once {
			if InModulePkg(g) {
				if _, ok := out[g]; !ok {
					out[g] = "once: written inside sync.Once.Do by " + shortName(f) + ": " + e.describe(w)
				}
			}
		}
	}
	return out
}

func InModulePkg(g *ssa.Global) bool {
	if g.Pkg == nil {
		return false
	}
	pp := g.Pkg.Pkg.Path()
	return pp == modPath || len(pp) > len(modPath) && pp[:len(modPath)+1] == modPath+"/"
}

// globalsTouched lists mutable pat-go globals referenced from fn or the
// in-module functions reachable from it.
func (p *Prog) globalsTouched(fn *ssa.Function, mutable map[*ssa.Global]string) []string {
	reach := p.Reach([]*ssa.Function{fn}, InModule)
	seen := map[string]bool{}
	for g := range reach {
		if g.Blocks == nil {
			continue
		}
		for _, b := range g.Blocks {
			for _, in := range b.Instrs {
				for _, op := range in.Operands(nil) {
					if op == nil || *op == nil {
						continue
					}
					if gl, ok := (*op).(*ssa.Global); ok {
						if why, m := mutable[gl]; m {
							seen[gl.RelString(nil)+" ("+why+"; used in "+shortName(g)+")"] = true
						}
					}
				}
			}
		}
	}
	var out []string
	for k := range seen {
		out = append(out, k)
	}
	sort.Strings(out)
	return out
}
