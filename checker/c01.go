package main

// C01 - honest issuance over the wire always yields a valid, correctly bound token.

import (
	"fmt"
	"strings"

	"golang.org/x/tools/go/ssa"
)

func init() { props["C01"] = c01 }

func c01(p *Prog, r *Report) {
	r.Explanation = "Writer/reader layout agreement and parameter agreement across the two ends of each issuance protocol, extracted symbolically from the code: (1) each request encoder and the decoder the issuer uses agree on the layout, with fixed widths equal to the length of what the client stores (Ne = 49 for the compressed P-384 element, Nk = 256 for the blinded RSA message, 32-byte ristretto255 elements); (2) each issuer's response layout is what the client splits: element || proof at the group's CompressedElementLength (type 1), raw blind signature (type 2), nonce[max(Nk,Nn)] || AEAD ciphertext with key/nonce derived from the same labels and the same exported secret on both sides (type 3), varint-framed element list || proof (type 5); (3) the token is type || nonce || SHA-256(challenge) || key id || authenticator with authenticator widths 48/256/256/64, and is decoded from state token input || finalize output; (4) the token input the client blinds is built from the type constant, the nonce, SHA-256(challenge) and the key id it was given; (5) client and issuer name the same suite, hash, info strings and labels."
	r.NotDecided = "that blind/evaluate/finalize, HPKE and blind RSA compute what their RFCs say for every key and input (the dependencies' contract); that the produced token verifies (cryptographic correctness); value-level round trips beyond layout agreement."
	r.Assumptions = append(r.Assumptions, "circl oprf/blindrsa/group, go-hpke, crypto/* behave as documented", "cryptobyte and quicwire primitives (C19)")
	r.Trusted = append(r.Trusted, "go/types constants, go/ssa", "term evaluator and reader extractor of this checker", "layout table (c04.go)")
	const R1 = "C01.request-and-token-layout"
	const R2 = "C01.response-layout-agreement"
	const R3 = "C01.token-construction-binding"
	const R4 = "C01.same-parameters-both-sides"
	const R5 = "C01.client-stores-what-the-width-says"
	r.Rule(R1, "request encoders/decoders of types 1,2,3,5 and the token encoder/decoders agree with the layout table (widths by constant value: Ne, Nk, 32, 49, 96; authenticators 48/256/256/64)", 18)
	r.Rule(R2, "issuer response layout = what the client splits and parses (4 protocols)", 7)
	r.Rule(R3, "token input = type constant || nonce || SHA-256(challenge) || key id; token = decode(state token input || finalize output); state pinned by the constructors", 30)
	r.Rule(R4, "client and issuer use the same suite / hash / info strings / labels / exported-secret length", 8)
	const R6 = "C01.origin-name-survives-padding"
	r.Rule(R6, "type 3: the issuer's unpadding inverts the client's padding (padded length 32*max(1,ceil(n/32)), name || zeros; unpadding strips exactly the trailing zeros) - shared with C20", 38)
	if pad, unpad := anchor(p, r, R6, "~/tokens/type3.padOriginName"), anchor(p, r, R6, "~/tokens/type3.unpadOriginName"); pad != nil && unpad != nil {
		c20Pad(p, r, R6, pad)
		c20Unpad(p, r, R6, unpad)
	}
	const R8 = "C01.registry-keys-agree"
	r.Rule(R8, "every table held in a struct field (origin index keys, attester maps, batch issuer lists) is stored and looked up under the same spelling of its key (function chain applied to the key, conversions and proven decoders aside)", 2)
	registryKeysAgree(p, r, R8)
	const R7 = "C01.varint-length-prefixes-exact"
	r.Rule(R7, "type 5 and batch messages carry QUIC-varint length prefixes: encoder and decoder are exact inverses with the shortest form (the rules of C19, evaluated here as one obligation per rule)", 5)
	c19AsSubRule(p, r, R7)
	r.Rule(R5, "the request field holds the library output whose length the decoder's fixed width names (compressed element / blinded message)", 6)

	ne1, ok1 := p.constInt("~/tokens/type1", "Ne")
	nk1, ok2 := p.constInt("~/tokens/type1", "Nk")
	nk2, ok3 := p.constInt("~/tokens/type2", "Nk")
	if !ok1 || !ok2 || !ok3 {
		r.Fail(R1, "width constants", "-", "unresolved anchor: type1.Ne, type1.Nk, type2.Nk")
		return
	}
	c := func(v int64) string { return fmt.Sprintf("const:%d", v) }
	tokenReads := func(w int64) []string {
		return []string{"u16->*.TokenType", "bytes[const:32]->*.Nonce", "bytes[const:32]->*.Context", "bytes[const:32]->*.KeyID", "bytes[" + c(w) + "]->*.Authenticator"}
	}
	specs := []layoutSpec{
		{name: "Token (type 1)", writer: "(~/tokens.Token).Marshal", wterm: "cat(u16(param:0.TokenType), param:0.Nonce, param:0.Context, param:0.KeyID, param:0.Authenticator)", reader: "~/tokens/type1.UnmarshalPrivateToken", reads: tokenReads(nk1)},
		{name: "Token (type 2)", reader: "~/tokens/type2.UnmarshalToken", reads: tokenReads(nk2)},
		{name: "Token (type 3)", reader: "~/tokens/type3.UnmarshalToken", reads: tokenReads(nk2)},
		{name: "Token (type 5)", reader: "~/tokens/type5.UnmarshalBatchedPrivateToken", reads: tokenReads(64)},
		{name: "Token authenticator input", writer: "(~/tokens.Token).AuthenticatorInput", wterm: "cat(u16(param:0.TokenType), param:0.Nonce, param:0.Context, param:0.KeyID)"},
		{name: "TokenRequest type 1", writer: "(*~/tokens/type1.BasicPrivateTokenRequest).Marshal", wterm: "cat(u16(const:1), u8(param:0.TokenKeyID), param:0.BlindedReq)",
			reader: "(*~/tokens/type1.BasicPrivateTokenRequest).Unmarshal", reads: []string{"u16->local:*", "u8->param:0.TokenKeyID", "bytes[" + c(ne1) + "]->param:0.BlindedReq"}, tag: "1"},
		{name: "TokenRequest type 2", writer: "(*~/tokens/type2.BasicPublicTokenRequest).Marshal", wterm: "cat(u16(const:2), u8(param:0.TokenKeyID), param:0.BlindedReq)",
			reader: "(*~/tokens/type2.BasicPublicTokenRequest).Unmarshal", reads: []string{"u16->local:*", "u8->param:0.TokenKeyID", "bytes[" + c(nk2) + "]->param:0.BlindedReq"}, tag: "2"},
		{name: "TokenRequest type 3", writer: "(*~/tokens/type3.RateLimitedTokenRequest).Marshal", wterm: "cat(u16(const:3), param:0.RequestKey, param:0.NameKeyID, lp16(param:0.EncryptedTokenRequest), param:0.Signature)",
			reader: "(*~/tokens/type3.RateLimitedTokenRequest).Unmarshal", reads: []string{"u16->local:*", "bytes[const:49]->param:0.RequestKey", "bytes[const:32]->param:0.NameKeyID", "lp16->local:*", "bytes[const:96]->param:0.Signature"}, tag: "3", noTrail: true},
		{name: "InnerTokenRequest", writer: "(*~/tokens/type3.InnerTokenRequest).Marshal", wterm: "cat(u8(param:0.tokenKeyId), param:0.blindedMsg, lp16(param:0.paddedOrigin))",
			reader: "(*~/tokens/type3.InnerTokenRequest).Unmarshal", reads: []string{"u8->param:0.tokenKeyId", "bytes[" + c(nk2) + "]->param:0.blindedMsg", "lp16->local:*"}},
	}
	for _, sp := range specs {
		checkWriter(p, r, R1, sp)
		if sp.reader != "" {
			fn, s, _ := checkReader(p, r, R1, sp)
			if fn != nil {
				switch sp.name {
				case "TokenRequest type 3":
					copiedInto(p, r, R1, sp.name, fn, s, 0, "EncryptedTokenRequest")
				case "InnerTokenRequest":
					copiedInto(p, r, R1, sp.name, fn, s, 0, "paddedOrigin")
				}
			}
		}
	}
	c04Type5Request(p, r, R1)

	// R3: construction binding and token building (shared with C02)
	c02Body(p, r, R3, R3, R3, R3, R3)

	// R5: what the client stores in the fixed-width request fields
	reqField := func(fnName, field, pat string) {
		fn := anchor(p, r, R5, fnName)
		if fn == nil {
			return
		}
		s := p.NewSym(fn)
		for _, rp := range s.ff.RetPoints(verdictIndex(fn)) {
			if rp.Outcome == Fails {
				continue
			}
			st := s.Of(rp.Vals[0])
			got := "<none>"
			if st.Op == "struct" {
				if rq := structField(st, "request"); rq != nil && rq.Op == "ref" {
					if v := structField(rq.Args[0], field); v != nil {
						got = v.String()
					}
				}
			}
			r.Check(glob(pat, got), R5, shortName(fn)+": request."+field, p.Pos(rp.Ret.Pos()), clip(pat, 160), "request."+field+" is "+clip(got, 300)+", required "+clip(pat, 300))
		}
	}
	el := "extract<0>(call<(github.com/cloudflare/circl/oprf.Blinded).MarshalBinaryCompress>(index(extract<1>(call<(github.com/cloudflare/circl/oprf.client).*Blind>(call<github.com/cloudflare/circl/oprf.NewVerifiableClient>(load(global:github.com/cloudflare/circl/oprf.SuiteP384), param:4).client, *)).Elements, const:0)))"
	reqField("(~/tokens/type1.BasicPrivateClient).CreateTokenRequest", "BlindedReq", el)
	reqField("(~/tokens/type1.BasicPrivateClient).CreateTokenRequestWithBlind", "BlindedReq", el)
	bm := "extract<0>(call<(github.com/cloudflare/circl/blindsign/blindrsa.Verifier).*Blind>(call<github.com/cloudflare/circl/blindsign/blindrsa.NewVerifier>(param:4, const:6), *))"
	reqField("(~/tokens/type2.BasicPublicClient).CreateTokenRequest", "BlindedReq", bm)
	reqField("(~/tokens/type2.BasicPublicClient).CreateTokenRequestWithBlind", "BlindedReq", bm)
	reqField("(~/tokens/type5.BatchedPrivateClient).CreateTokenRequest", "BlindedReq", "make(len(param:2))")
	reqField("(~/tokens/type5.BatchedPrivateClient).CreateTokenRequestWithBlinds", "BlindedReq", "make(len(param:2))")

	// R2: responses
	// type 1
	if fn := anchor(p, r, R2, "(~/tokens/type1.BasicPrivateIssuer).Evaluate"); fn != nil {
		srv := "call<github.com/cloudflare/circl/oprf.NewVerifiableServer>(load(global:github.com/cloudflare/circl/oprf.SuiteP384), param:0.tokenKey)"
		ev := "extract<0>(call<(github.com/cloudflare/circl/oprf.VerifiableServer).Evaluate>(" + srv + ", *))"
		retValueIs(p, r, R2, fn, "compressed evaluated element || DLEQ proof", "cat(extract<0>(call<(github.com/cloudflare/circl/oprf.Evaluated).MarshalBinaryCompress>(index("+ev+".Elements, const:0))), extract<0>(call<(*github.com/cloudflare/circl/zk/dleq.Proof).MarshalBinary>("+ev+".Proof)))")
	}
	if fn := anchor(p, r, R2, "(~/tokens/type1.BasicPrivateTokenRequestState).FinalizeToken"); fn != nil {
		n := "conv<int>(call<(github.com/cloudflare/circl/group.Group).Params>(load(global:github.com/cloudflare/circl/group.P384)).CompressedElementLength)"
		// the response may also be split by a cryptobyte reader over it: the
		// first (and only) read ReadBytes(&elem, Ne) yields resp[:Ne] and leaves
		// resp[Ne:] in the reader
		rdElem, rdRest := "", ""
		{
			s := p.NewSym(fn)
			for _, site := range sitesIn(fn, func(nm string) bool { return nm == cbString+"ReadBytes" }) {
				cc := site.Common()
				rd, isAlloc := cc.Args[0].(*ssa.Alloc)
				if !isAlloc || s.Of(cc.Args[2]).String() != n {
					continue
				}
				// the reader holds the whole response and nothing was read before
				okInit, nCalls := false, 0
				for _, ref := range *rd.Referrers() {
					switch x := ref.(type) {
					case *ssa.Store:
						if x.Addr == ssa.Value(rd) && s.Of(x.Val).String() == "param:1" {
							okInit = true
						}
					case ssa.CallInstruction:
						if strings.HasPrefix(calleeName(x.Common()), cbString) && dominates(x, site) && x != ssa.Instruction(site.(*ssa.Call)) {
							nCalls++
						}
					}
				}
				if okInit && nCalls == 0 {
					ct := s.callTerm(site).String()
					rdElem, rdRest = "out<1>("+ct+")", "out<0>("+ct+")"
				}
			}
		}
		p.RequireOnSuccess(r, R2, fn, CallReq{Desc: "element.UnmarshalBinary(resp[:Ne]) ok", Callee: "(github.com/cloudflare/circl/group.Element).UnmarshalBinary", Check: func(t *Term) string {
			if rdElem != "" && arg(t, 1).String() == rdElem {
				return ""
			}
			return want("element bytes", arg(t, 1), "slice(param:1, const:0, "+n+")")
		}})
		p.RequireOnSuccess(r, R2, fn, CallReq{Desc: "proof.UnmarshalBinary(P384, resp[Ne:]) ok", Callee: "(*github.com/cloudflare/circl/zk/dleq.Proof).UnmarshalBinary", Check: func(t *Term) string {
			if rdRest != "" && (arg(t, 2).String() == rdRest || arg(t, 2).String() == "conv<[]byte>("+rdRest+")") {
				return want("group", arg(t, 1), "load(global:github.com/cloudflare/circl/group.P384)")
			}
			return firstNonEmpty(want("group", arg(t, 1), "load(global:github.com/cloudflare/circl/group.P384)"), want("proof bytes", arg(t, 2), "slice(param:1, "+n+", const:nil)"))
		}})
	}
	// type 2
	if fn := anchor(p, r, R2, "(~/tokens/type2.BasicPublicIssuer).Evaluate"); fn != nil {
		retValueIs(p, r, R2, fn, "the blind signature over req.BlindedReq under the issuer key", "extract<0>(call<"+nmBlindSign+">(call<github.com/cloudflare/circl/blindsign/blindrsa.NewSigner>(param:0.tokenKey), param:1.BlindedReq))")
	}
	// type 3: issuer response = nonce || Seal(key, nonce, blind signature) with the same derivation the client uses
	if fn := anchor(p, r, R2, nmIssEval); fn != nil {
		s := p.NewSym(fn)
		suite := "param:0.nameKey.suite"
		ks := "call<(github.com/cisco/go-hpke.AEADScheme).KeySize>(" + suite + ".AEAD)"
		ns := "call<(github.com/cisco/go-hpke.AEADScheme).NonceSize>(" + suite + ".AEAD)"
		npk := "call<(github.com/cisco/go-hpke.KEMScheme).PublicKeySize>(" + suite + ".KEM)"
		nb := "make(call<builtin.max>(" + ks + ", " + ns + "), fill<crypto/rand.Read>(const:dst))"
		salt := "cat(slice(*.EncryptedTokenRequest, const:0, " + npk + "), " + nb + ")"
		prk := "call<(github.com/cisco/go-hpke.KDFScheme).Extract>(" + suite + ".KDF, " + salt + ", extract<1>(call<tokens/type3.decryptOriginTokenRequest>(*)))"
		key := "call<(github.com/cisco/go-hpke.KDFScheme).Expand>(" + suite + ".KDF, " + prk + ", load(global:github.com/cloudflare/pat-go/tokens/type3.labelResponseKey), " + ks + ")"
		nonce := "call<(github.com/cisco/go-hpke.KDFScheme).Expand>(" + suite + ".KDF, " + prk + ", load(global:github.com/cloudflare/pat-go/tokens/type3.labelResponseNonce), " + ns + ")"
		sig := "extract<0>(call<" + nmBlindSign + ">(call<github.com/cloudflare/circl/blindsign/blindrsa.NewSigner>(param:0.tokenKey), extract<0>(call<tokens/type3.decryptOriginTokenRequest>(*)).blindedMsg))"
		want := "cat(" + nb + ", call<(crypto/cipher.AEAD).Seal>(extract<0>(call<(github.com/cisco/go-hpke.AEADScheme).New>(" + suite + ".AEAD, " + key + ")), const:nil, " + nonce + ", " + sig + ", const:nil))"
		okAll, n := true, 0
		got := ""
		for _, rp := range s.ff.RetPoints(verdictIndex(fn)) {
			if rp.Outcome == Fails {
				continue
			}
			n++
			got = s.Of(rp.Vals[0]).String()
			if !glob(want, got) {
				okAll = false
			}
		}
		r.Check(okAll && n > 0, R2, "type 3 issuer response = nonce[max(Nk,Nn)] || Seal(Expand(Extract(enc||nonce, secret),\"key\"), Expand(...,\"nonce\"), blind signature)", p.Pos(fn.Pos()), "mirrors the client's derivation (C02)", "issuer response is "+clip(got, 900)+", required "+clip(want, 900))
	}
	// exported secret: same info string and length on both sides
	for _, c := range []struct{ fn, suite string }{{"~/tokens/type3.decryptOriginTokenRequest", "param:0.suite"}, {"~/tokens/type3.encryptOriginTokenRequest", "param:0.suite"}} {
		if fn := anchor(p, r, R4, c.fn); fn != nil {
			s := p.NewSym(fn)
			sites := sitesIn(fn, func(n string) bool { return strings.HasSuffix(n, "go-hpke.context).Export") })
			ok := len(sites) == 1
			why := fmt.Sprintf("%d Export calls", len(sites))
			if ok {
				t := s.callTerm(sites[0])
				why = firstNonEmpty(want("exporter label", arg(t, 1), `lit:"TokenResponse"`), want("secret length", arg(t, 2), "call<(github.com/cisco/go-hpke.AEADScheme).KeySize>("+c.suite+".AEAD)"))
				ok = why == ""
			}
			r.Check(ok, R4, shortName(fn)+": response secret = Export(\"TokenResponse\", Nk)", p.Pos(fn.Pos()), "same label and length on both sides", why)
		}
	}
	// HPKE info string and AAD on the client side (issuer side is C07)
	if fn := anchor(p, r, R4, "~/tokens/type3.encryptOriginTokenRequest"); fn != nil {
		s := p.NewSym(fn)
		setup := sitesIn(fn, func(n string) bool { return n == "github.com/cisco/go-hpke.SetupBaseS" })
		seal := sitesIn(fn, func(n string) bool { return strings.HasSuffix(n, "go-hpke.SenderContext).Seal") })
		ok := len(setup) == 1 && len(seal) == 1
		why := "expected one SetupBaseS and one Seal"
		if ok {
			st, sl := s.callTerm(setup[0]), s.callTerm(seal[0])
			// the padded origin is whatever padOriginName(originName) yields (its arithmetic is rule R6 / C20)
			padded := "call<tokens/type3.padOriginName>(param:4)"
			if pf := p.Func("~/tokens/type3.padOriginName"); pf != nil {
				if pt := p.returnTermWith(pf, T("param", "4")); pt != nil {
					padded = pt.String()
				}
			}
			inner := "cat(u8(param:1), param:2, lp16(" + padded + "))"
			why = firstNonEmpty(
				want("suite", arg(st, 0), "param:0.suite"), want("recipient key", arg(st, 2), "param:0.publicKey"), want("info", arg(st, 3), `lit:"TokenRequest"`),
				want("associated data", arg(sl, 1), aadTerm("param:0", "param:3", "hash<sha256>("+encapKeyEncoding("param:0")+")")),
				want("plaintext", arg(sl, 2), inner),
			)
			ok = why == ""
		}
		r.Check(ok, R4, "client seals InnerTokenRequest under the name key with the issuer's AAD layout and info string", p.Pos(fn.Pos()), "SetupBaseS(suite, pk, \"TokenRequest\"); Seal(aad, inner)", why)
		// returned ciphertext = enc || ct
		retTuple(p, r, R4, fn, 1, "encapsulated key || ciphertext", "cat(extract<0>(call<github.com/cisco/go-hpke.SetupBaseS>(*)), call<(*github.com/cisco/go-hpke.SenderContext).Seal>(*))")
	}
	// type 5 response
	if fn := anchor(p, r, R2, "(~/tokens/type5.BatchedPrivateIssuer).Evaluate"); fn != nil {
		elen := "conv<int>(call<(github.com/cloudflare/circl/group.Group).Params>(call<(github.com/cloudflare/circl/oprf.Suite).Group>(load(global:github.com/cloudflare/circl/oprf.SuiteRistretto255))).CompressedElementLength)"
		_ = elen
		e := "index(make(len(param:1.BlindedReq)), *)"
		// elements taken from a per-request slot slice, or emitted directly as
		// fixed-width copies of the evaluated elements
		e2 := "make(const:32, copy(extract<0>(call<(github.com/cloudflare/circl/oprf.Evaluated).MarshalBinaryCompress>(index(*, *)))))"
		pat := func(e string) string {
			return "cat(varint(conv<uint64>(len(each(" + e + ")))), each(" + e + "), extract<0>(call<(*github.com/cloudflare/circl/zk/dleq.Proof).MarshalBinary>(*.Proof)))"
		}
		if t := p.NewSym(fn).returnTerm(); t != nil && t.Op == "tuple" && len(t.Args) > 0 && glob(pat(e2), t.Args[0].String()) {
			r.OK(R2, shortName(fn)+" returns varint(len(elements)) || elements || proof", p.Pos(fn.Pos()), "elements emitted as 32-byte copies of the evaluated elements")
		} else {
			retValueIs(p, r, R2, fn, "varint(len(elements)) || elements || proof", pat(e))
		}
	}
	if fn := anchor(p, r, R2, "(~/tokens/type5.BatchedPrivateTokenRequestState).FinalizeTokens"); fn != nil {
		s := p.NewSym(fn)
		for _, rp := range s.ff.RetPoints(verdictIndex(fn)) {
			if rp.Outcome == Fails {
				continue
			}
			rpc := rp
			items := p.ReadSequence(s, &rpc)
			var probs []string
			if len(items) != 3 {
				probs = append(probs, fmt.Sprintf("%d reader operations, required 3 (skip varint, element list, proof)", len(items)))
			} else {
				cv := "call<quicwire.ConsumeVarint>(param:1)"
				if items[0].Op != "skip" || items[0].N != "extract<1>("+cv+")" {
					probs = append(probs, "varint header not skipped by its own size: "+items[0].String())
				}
				if items[1].Op != "bytes" || items[1].N != "conv<int>(extract<0>("+cv+"))" {
					probs = append(probs, "element list not read with the declared length: "+items[1].String())
				}
				pl := "conv<int>(bin<*>(call<(github.com/cloudflare/circl/group.Group).Params>(load(global:github.com/cloudflare/circl/group.Ristretto255)).ScalarLength, const:2))"
				if items[2].Op != "bytes" || items[2].N != pl {
					probs = append(probs, "proof not read as 2*ScalarLength bytes: "+items[2].String())
				}
				for _, it := range items {
					if !it.Checked || !it.Result {
						probs = append(probs, "read "+it.String()+" unchecked or failed")
					}
				}
			}
			if len(probs) > 0 {
				r.Fail(R2, "type 5 client parses varint || elements || proof", p.Pos(rp.Ret.Pos()), strings.Join(probs, "; "))
			} else {
				r.OK(R2, "type 5 client parses varint || elements || proof", p.Pos(rp.Ret.Pos()), readSeqString(items))
			}
		}
	}

	// R4: suites/hashes on both sides
	pair := func(desc, fnA, calleeA string, idxA int, fnB, calleeB string, idxB int, wantT string) {
		get := func(fnName, callee string, idx int) (string, string) {
			fn := anchor(p, r, R4, fnName)
			if fn == nil {
				return "", ""
			}
			s := p.NewSym(fn)
			sites := p.deepSites(s, func(n string) bool { return n == callee })
			if len(sites) == 0 {
				return "<no call to " + callee + ">", p.Pos(fn.Pos())
			}
			return arg(sites[0].S.callTerm(sites[0].Site), idx).String(), p.InstrPos(sites[0].Site)
		}
		a, pa := get(fnA, calleeA, idxA)
		b, _ := get(fnB, calleeB, idxB)
		r.Check(a == b && a == wantT, R4, desc, pa, "both sides use "+wantT, fmt.Sprintf("client side uses %s, issuer side uses %s, required %s on both", clip(a, 120), clip(b, 120), wantT))
	}
	nvc, nvs := "github.com/cloudflare/circl/oprf.NewVerifiableClient", "github.com/cloudflare/circl/oprf.NewVerifiableServer"
	pair("type 1: client and issuer use SuiteP384", "(~/tokens/type1.BasicPrivateClient).CreateTokenRequest", nvc, 0, "(~/tokens/type1.BasicPrivateIssuer).Evaluate", nvs, 0, "load(global:github.com/cloudflare/circl/oprf.SuiteP384)")
	pair("type 1: deterministic client and issuer Verify use SuiteP384", "(~/tokens/type1.BasicPrivateClient).CreateTokenRequestWithBlind", nvc, 0, "(~/tokens/type1.BasicPrivateIssuer).Verify", nvs, 0, "load(global:github.com/cloudflare/circl/oprf.SuiteP384)")
	pair("type 5: client and issuer use SuiteRistretto255", "(~/tokens/type5.BatchedPrivateClient).CreateTokenRequest", nvc, 0, "(~/tokens/type5.BatchedPrivateIssuer).Evaluate", nvs, 0, "load(global:github.com/cloudflare/circl/oprf.SuiteRistretto255)")
	pair("type 5: deterministic client and issuer Verify use SuiteRistretto255", "(~/tokens/type5.BatchedPrivateClient).CreateTokenRequestWithBlinds", nvc, 0, "(~/tokens/type5.BatchedPrivateIssuer).Verify", nvs, 0, "load(global:github.com/cloudflare/circl/oprf.SuiteRistretto255)")
	nv := "github.com/cloudflare/circl/blindsign/blindrsa.NewVerifier"
	pair("type 2: blind-RSA verifier hash = PSS verification hash (SHA-384)", "(~/tokens/type2.BasicPublicClient).CreateTokenRequest", nv, 1, "(~/tokens/type2.BasicPublicTokenRequestState).FinalizeToken", nmVerifyPSS, 1, "const:6")
	pair("type 3: blind-RSA verifier hash = PSS verification hash (SHA-384)", "(~/tokens/type3.RateLimitedClient).CreateTokenRequest", nv, 1, "(~/tokens/type3.RateLimitedTokenRequestState).FinalizeToken", nmVerifyPSS, 1, "const:6")
}

// retTuple: result #idx of every success return matches the pattern.
func retTuple(p *Prog, r *Report, rule string, fn *ssa.Function, idx int, what, pattern string) {
	s := p.NewSym(fn)
	n := 0
	var bad []string
	for _, rp := range s.ff.RetPoints(verdictIndex(fn)) {
		if rp.Outcome == Fails || idx >= len(rp.Vals) {
			continue
		}
		n++
		if t := s.Of(rp.Vals[idx]).String(); !glob(pattern, t) {
			bad = append(bad, clip(t, 300))
		}
	}
	r.Check(len(bad) == 0 && n > 0, rule, fmt.Sprintf("%s result %d is %s", shortName(fn), idx, what), p.Pos(fn.Pos()), clip(pattern, 160), strings.Join(bad, " | ")+"; required "+clip(pattern, 300))
}
