package main

import (
	"sort"

	"golang.org/x/tools/go/ssa"
)

// Loop is a natural loop: header plus the blocks that can reach a back edge
// to it without leaving through the header.
type Loop struct {
	Header  *ssa.BasicBlock
	Blocks  map[*ssa.BasicBlock]bool
	Latches []*ssa.BasicBlock
}

func naturalLoops(fn *ssa.Function) []*Loop {
	byHeader := map[*ssa.BasicBlock]*Loop{}
	for _, b := range fn.Blocks {
		for _, s := range b.Succs {
			if s.Dominates(b) { // back edge b -> s
				l := byHeader[s]
				if l == nil {
					l = &Loop{Header: s, Blocks: map[*ssa.BasicBlock]bool{s: true}}
					byHeader[s] = l
				}
				l.Latches = append(l.Latches, b)
				// collect blocks
				work := []*ssa.BasicBlock{b}
				for len(work) > 0 {
					x := work[len(work)-1]
					work = work[:len(work)-1]
					if l.Blocks[x] {
						continue
					}
					l.Blocks[x] = true
					work = append(work, x.Preds...)
				}
			}
		}
	}
	var out []*Loop
	for _, l := range byHeader {
		out = append(out, l)
	}
	sort.Slice(out, func(i, j int) bool { return out[i].Header.Index < out[j].Header.Index })
	return out
}

// innermostLoop containing block b (nil if none).
func innermostLoop(loops []*Loop, b *ssa.BasicBlock) *Loop {
	var best *Loop
	for _, l := range loops {
		if l.Blocks[b] && (best == nil || len(l.Blocks) < len(best.Blocks)) {
			best = l
		}
	}
	return best
}

// reachesWithin: can control go from block a to block b staying inside the
// block set and without passing through `avoid`.
func reachesWithin(a, b *ssa.BasicBlock, within map[*ssa.BasicBlock]bool, avoid *ssa.BasicBlock) bool {
	seen := map[*ssa.BasicBlock]bool{}
	work := []*ssa.BasicBlock{a}
	for len(work) > 0 {
		x := work[len(work)-1]
		work = work[:len(work)-1]
		if seen[x] || !within[x] || x == avoid {
			continue
		}
		seen[x] = true
		if x == b {
			return true
		}
		work = append(work, x.Succs...)
	}
	return false
}
