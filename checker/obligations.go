package main

// Obligation enumeration for the range prover (C03, C16-R4, C19).

import (
	"fmt"
	"go/constant"
	"go/token"
	"go/types"
	"math/big"
	"os"
	"sort"
	"strings"

	"golang.org/x/tools/go/ssa"
)

type boundOb struct {
	kind   string // slice, index, make, div, conv, assert, panic, precond, loop
	in     ssa.Instruction
	goal   []Lin // all must be >= 0
	desc   string
	proved bool
	why    string
}

func isSliceOrString(t types.Type) bool {
	switch u := t.Underlying().(type) {
	case *types.Slice:
		return true
	case *types.Basic:
		return u.Info()&types.IsString != 0
	}
	return false
}

// maxLen: every length is below 2^48 (address space); keeps uint64(len(x))
// conversions and varint encodings of lengths in range.
func (rg *Range) addressSpaceAxiom() {
	for name := range rg.atoms {
		if strings.HasPrefix(name, "len(") {
			up := newLin()
			up.k.Set(pow2(48))
			if rg.p.IntBits == 32 {
				up.k.Sub(pow2(31), big.NewRat(1, 1)) // len is an int
			}
			rg.axiom(up.minus(linAtom(name)))
		}
	}
}

// obligations of one function, each decided.
func (rg *Range) obligations() []*boundOb {
	fn := rg.fn
	var obs []*boundOb
	add := func(kind string, in ssa.Instruction, desc string, goals ...Lin) {
		obs = append(obs, &boundOb{kind: kind, in: in, desc: desc, goal: goals})
	}
	for _, b := range fn.Blocks {
		if rg.s.ff.dead[b] {
			continue
		}
		for _, in := range b.Instrs {
			switch x := in.(type) {
			case *ssa.Slice:
				var total Lin
				if _, isPtr := x.X.Type().Underlying().(*types.Pointer); isPtr {
					arr, ok := deref(x.X.Type()).Underlying().(*types.Array)
					if !ok {
						continue
					}
					total = linConst(arr.Len())
				} else if isSliceOrString(x.X.Type()) {
					total = rg.lenOf(x.X) // len, not cap: reading spare capacity is a violation too
				} else {
					continue
				}
				lo, hi := linConst(0), total
				okL, okH := true, true
				if x.Low != nil {
					lo, okL = rg.lin(x.Low)
				}
				if x.High != nil {
					hi, okH = rg.lin(x.High)
				}
				if !okL || !okH {
					obs = append(obs, &boundOb{kind: "slice", in: in, desc: "slice bounds are not integer expressions the prover understands"})
					continue
				}
				var goals []Lin
				if x.Low != nil {
					goals = append(goals, lo, hi.minus(lo))
				}
				if x.High != nil {
					goals = append(goals, total.minus(hi))
					if x.Low == nil {
						goals = append(goals, hi)
					}
				}
				if len(goals) > 0 {
					add("slice", in, "0 <= lo <= hi <= len", goals...)
				}
			case *ssa.IndexAddr:
				var total Lin
				if _, isPtr := x.X.Type().Underlying().(*types.Pointer); isPtr {
					arr, ok := deref(x.X.Type()).Underlying().(*types.Array)
					if !ok {
						continue
					}
					total = linConst(arr.Len())
				} else {
					total = rg.lenOf(x.X)
				}
				i, ok := rg.lin(x.Index)
				if !ok {
					continue
				}
				add("index", in, "0 <= i < len", i, total.minus(i).addConst(-1))
			case *ssa.Index:
				var total Lin
				if arr, ok := x.X.Type().Underlying().(*types.Array); ok {
					total = linConst(arr.Len())
				} else {
					total = rg.lenOf(x.X)
				}
				i, ok := rg.lin(x.Index)
				if !ok {
					continue
				}
				add("index", in, "0 <= i < len", i, total.minus(i).addConst(-1))
			case *ssa.Lookup:
				if isSliceOrString(x.X.Type()) {
					i, ok := rg.lin(x.Index)
					if ok {
						add("index", in, "0 <= i < len(string)", i, rg.lenOf(x.X).minus(i).addConst(-1))
					}
				}
			case *ssa.MakeSlice:
				l, ok := rg.lin(x.Len)
				if !ok {
					continue
				}
				add("make", in, "0 <= n and n bounded by the input", l)
			case *ssa.BinOp:
				if x.Op == token.QUO || x.Op == token.REM {
					if _, _, isInt := intBits(x.Type(), rg.p.IntBits); !isInt {
						continue
					}
					if c, ok := x.Y.(*ssa.Const); ok && c.Value != nil && constant.Sign(c.Value) != 0 {
						continue
					}
					d, ok := rg.lin(x.Y)
					if ok {
						add("div", in, "divisor != 0", d.addConst(-1))
					}
				}
			case *ssa.SliceToArrayPointer:
				arr, ok := deref(x.Type()).Underlying().(*types.Array)
				if ok {
					add("conv", in, "len >= array length", rg.lenOf(x.X).addConst(-arr.Len()))
				}
			case *ssa.TypeAssert:
				if !x.CommaOk {
					if !assertCannotFail(x) {
						obs = append(obs, &boundOb{kind: "assert", in: in, desc: "type assertion without comma-ok may panic"})
					}
				}
			case *ssa.Panic:
				obs = append(obs, &boundOb{kind: "panic", in: in, desc: "explicit panic"})
			case ssa.CallInstruction:
				rg.preconditions(x, add)
			}
		}
	}
	rg.addressSpaceAxiom()
	for _, o := range obs {
		if o.kind == "assert" || o.kind == "panic" {
			continue
		}
		if len(o.goal) == 0 {
			continue
		}
		facts := rg.factsAt(o.in.Block())
		rg.addressSpaceAxiom()
		o.proved = true
		for _, g := range o.goal {
			if !rg.entails(facts, g) {
				o.proved = false
				o.why = "cannot prove " + g.Short() + " >= 0"
				if dbg := os.Getenv("C03_DEBUG"); dbg != "" && strings.Contains(shortName(fn), dbg) {
					fmt.Printf("== %s %s at %s: goal %s\n", shortName(fn), o.kind, rg.p.InstrPos(o.in), g.Short())
					for _, f := range facts {
						fmt.Printf("     fact  %s >= 0\n", f.Short())
					}
					for _, ax := range rg.global {
						touch := false
						for a := range ax.c {
							if g.c[a] != nil {
								touch = true
							}
						}
						if touch {
							fmt.Printf("     axiom %s >= 0\n", ax.Short())
						}
					}
				}
				break
			}
		}
		if o.proved && o.kind == "make" {
			// allocation proportional to the input: n <= K or n <= len(x) + K for an available length
			n := o.goal[0]
			bounded := rg.entails(facts, linConst(1<<20).minus(n))
			if !bounded {
				// n <= 64 * (sum of the lengths of inputs and of byte sizes of big
				// integers that already exist in memory) + 2^16
				sum := newLin()
				for name := range rg.atoms {
					// the length of any value that already exists in memory (an input, a
					// field, a callee's result); a buffer this function sized itself is
					// judged at its own make
					inputLen := strings.HasPrefix(name, "len(") && !strings.Contains(name, "make(")
					bigSize := strings.HasPrefix(name, "call<(*math/big.Int).BitLen>(") || strings.HasPrefix(name, "len(call<(*math/big.Int).Bytes>(")
					if inputLen || bigSize {
						sum = sum.plus(linAtom(name))
					}
				}
				if len(sum.c) > 0 && rg.entails(facts, sum.scale(64).addConst(1<<16).minus(n)) {
					bounded = true
				}
			}
			if !bounded {
				o.proved = false
				o.why = "allocation size " + n.Short() + " is not bounded by a constant or by the length of an input"
			}
		}
	}
	// obligations of the form len(param) >= K in unexported functions: proved if
	// every in-module call site passes an argument provably that long
	if fn.Object() != nil && !fn.Object().Exported() && fn.Signature.Recv() == nil {
		for _, o := range obs {
			if o.proved || len(o.goal) == 0 || (o.kind != "index" && o.kind != "slice") {
				continue
			}
			allOK := true
			for _, g := range o.goal {
				facts := rg.factsAt(o.in.Block())
				if rg.entails(facts, g) {
					continue
				}
				idx, k, ok := paramLenGoal(g)
				if ok && rg.p.allCallersPassLen(fn, idx, k) {
					continue
				}
				// any goal over the parameters alone: every call site must entail it
				if rg.p.allCallersEntail(fn, g) {
					rg.axiom(g) // established for the callee: usable by later obligations
					continue
				}
				allOK = false
			}
			if allOK {
				o.proved = true
				o.desc += " (length guaranteed by every call site)"
			}
		}
	}
	return obs
}

// paramLenGoal: goal is  len(param:i) - K >= 0.
func paramLenGoal(g Lin) (idx int, k int64, ok bool) {
	if len(g.c) != 1 || !g.k.IsInt() {
		return 0, 0, false
	}
	for a, c := range g.c {
		if c.Cmp(big.NewRat(1, 1)) != 0 {
			return 0, 0, false
		}
		var i int
		if n, err := fmt.Sscanf(a, "len(param:%d)", &i); err != nil || n != 1 || a != fmt.Sprintf("len(param:%d)", i) {
			return 0, 0, false
		}
		idx = i
	}
	return idx, -g.k.Num().Int64(), true
}

var callerCache = map[*ssa.Function][]ssa.CallInstruction{}

func (p *Prog) callSitesOf(fn *ssa.Function) []ssa.CallInstruction {
	if cs, ok := callerCache[fn]; ok {
		return cs
	}
	var out []ssa.CallInstruction
	for _, f := range p.ModuleFuncs() {
		for _, b := range f.Blocks {
			for _, in := range b.Instrs {
				if c, ok := in.(ssa.CallInstruction); ok && c.Common().StaticCallee() == fn {
					out = append(out, c)
				}
			}
		}
	}
	callerCache[fn] = out
	return out
}

func (p *Prog) allCallersPassLen(fn *ssa.Function, idx int, k int64) bool {
	return p.allCallersPassLenDepth(fn, idx, k, 0)
}

func (p *Prog) allCallersPassLenDepth(fn *ssa.Function, idx int, k int64, depth int) bool {
	sites := p.callSitesOf(fn)
	if len(sites) == 0 || depth > 3 {
		return false
	}
	for _, c := range sites {
		if idx >= len(c.Common().Args) {
			return false
		}
		caller := c.Parent()
		crg := p.NewRange(caller)
		l := crg.lenOf(c.Common().Args[idx])
		facts := crg.factsAt(c.Block())
		if crg.entails(facts, l.addConst(-k)) {
			continue
		}
		// the caller forwards its own parameter: ask the caller's callers
		if prm, ok := c.Common().Args[idx].(*ssa.Parameter); ok && caller.Object() != nil && !caller.Object().Exported() {
			pi := -1
			for i, q := range caller.Params {
				if q == prm {
					pi = i
				}
			}
			if pi >= 0 && p.allCallersPassLenDepth(caller, pi, k, depth+1) {
				continue
			}
		}
		return false
	}
	return true
}

// assertCannotFail: interface-to-interface assertions where the operand's
// static method set already includes the asserted interface's methods.
func assertCannotFail(x *ssa.TypeAssert) bool {
	to, ok := x.AssertedType.Underlying().(*types.Interface)
	if !ok {
		return false
	}
	from, ok := x.X.Type().Underlying().(*types.Interface)
	if !ok {
		return false
	}
	for i := 0; i < to.NumMethods(); i++ {
		m := to.Method(i)
		found := false
		for j := 0; j < from.NumMethods(); j++ {
			if from.Method(j).Name() == m.Name() && types.Identical(from.Method(j).Type(), m.Type()) {
				found = true
			}
		}
		if !found {
			return false
		}
	}
	return true // (a nil interface would still panic: objects are assumed constructed)
}

// preconditions of callees with documented panicking preconditions.
func (rg *Range) preconditions(c ssa.CallInstruction, add func(kind string, in ssa.Instruction, desc string, goals ...Lin)) {
	cc := c.Common()
	n := calleeName(cc)
	eqLen := func(arg ssa.Value, k int64) []Lin {
		l := rg.lenOf(arg)
		return []Lin{l.addConst(-k), linConst(k).minus(l)}
	}
	switch n {
	case "quicwire.AppendVarint":
		if v, ok := rg.lin(cc.Args[1]); ok {
			up := newLin()
			up.k.Sub(pow2(62), big.NewRat(1, 1))
			add("precond", c, "AppendVarint value <= 2^62-1", up.minus(v))
		}
	case "quicwire.AppendUint8Bytes":
		add("precond", c, "AppendUint8Bytes len <= 255", linConst(255).minus(rg.lenOf(cc.Args[1])))
	case "(*ed25519/internal/edwards25519.Scalar).SetUniformBytes":
		add("precond", c, "SetUniformBytes needs 64 bytes", eqLen(cc.Args[1], 64)...)
	case "(*ed25519/internal/edwards25519.Scalar).SetBytes", "(*ed25519/internal/edwards25519.Scalar).SetBytesWithClamping":
		add("precond", c, n+" needs 32 bytes", eqLen(cc.Args[1], 32)...)
	}
}

// loopVerdict: does the natural loop match a terminating shape.
func (rg *Range) loopVerdict(l *Loop) (bool, string) {
	h := l.Header
	// exits of the loop: blocks inside with a successor outside
	// shape A: an induction phi in the header with strictly monotone steps and a
	// bounding comparison on the edge that stays in the loop
	for _, in := range h.Instrs {
		ph, ok := in.(*ssa.Phi)
		if !ok {
			break
		}
		if _, _, isInt := intBits(ph.Type(), rg.p.IntBits); !isInt {
			continue
		}
		inc, dec := true, true
		steps := 0
		for i, e := range ph.Edges {
			if !l.Blocks[h.Preds[i]] {
				continue // entry edge
			}
			steps++
			bo, ok := e.(*ssa.BinOp)
			if !ok || (bo.Op != token.ADD && bo.Op != token.SUB) {
				inc, dec = false, false
				continue
			}
			var stepV ssa.Value
			if bo.X == ssa.Value(ph) {
				stepV = bo.Y
			} else if bo.Y == ssa.Value(ph) && bo.Op == token.ADD {
				stepV = bo.X
			} else {
				inc, dec = false, false
				continue
			}
			st, ok := rg.stepLin(stepV)
			if !ok {
				inc, dec = false, false
				continue
			}
			if bo.Op == token.SUB {
				st = st.scale(-1)
			}
			facts := rg.factsAt(h.Preds[i])
			if !rg.entails(facts, st.addConst(-1)) {
				inc = false
			}
			if !rg.entails(facts, st.scale(-1).addConst(-1)) {
				dec = false
			}
		}
		if steps == 0 || (!inc && !dec) {
			continue
		}
		// a comparison involving the phi controls staying in the loop
		for b := range l.Blocks {
			ifi, ok := b.Instrs[len(b.Instrs)-1].(*ssa.If)
			if !ok {
				continue
			}
			exits := !l.Blocks[b.Succs[0]] || !l.Blocks[b.Succs[1]]
			if !exits {
				continue
			}
			bo, ok := ifi.Cond.(*ssa.BinOp)
			if !ok {
				continue
			}
			isPhiish := func(v ssa.Value) bool {
				if v == ssa.Value(ph) {
					return true
				}
				if sb, ok := v.(*ssa.BinOp); ok && (sb.Op == token.ADD || sb.Op == token.SUB) && (sb.X == ssa.Value(ph) || sb.Y == ssa.Value(ph)) {
					return true
				}
				return false
			}
			usesPhi := isPhiish(bo.X) || isPhiish(bo.Y)
			if !usesPhi {
				continue
			}
			other := bo.Y
			if isPhiish(bo.Y) {
				other = bo.X
			}
			if !loopInvariant(other, l) {
				continue
			}
			switch bo.Op {
			case token.LSS, token.LEQ, token.GTR, token.GEQ, token.NEQ:
				if b == h || b.Dominates(l.Latches[0]) || true {
					return true, fmt.Sprintf("counted loop on %s (monotone step, invariant bound)", ph.Comment)
				}
			}
		}
	}
	// shape B: range over a map/string (Next) or channel-free iteration
	for _, in := range h.Instrs {
		if _, ok := in.(*ssa.Next); ok {
			return true, "range loop"
		}
	}
	for b := range l.Blocks {
		for _, in := range b.Instrs {
			if _, ok := in.(*ssa.Next); ok && b == h {
				return true, "range loop"
			}
		}
	}
	// shape C: consuming loop: exit on String.Empty() and every path back reads >= 1 byte successfully
	for b := range l.Blocks {
		ifi, ok := b.Instrs[len(b.Instrs)-1].(*ssa.If)
		if !ok {
			continue
		}
		if !(!l.Blocks[b.Succs[0]] || !l.Blocks[b.Succs[1]]) {
			continue
		}
		a := normCond(ifi.Cond, true)
		c, ok := a.V.(*ssa.Call)
		if !ok || !strings.HasSuffix(calleeName(c.Common()), "cryptobyte.String).Empty") {
			continue
		}
		// every latch is dominated by a successful read on the same String
		var strAddr ssa.Value
		if u, ok := c.Call.Args[0].(*ssa.UnOp); ok {
			strAddr = u.X
		} else {
			strAddr = c.Call.Args[0]
		}
		all := true
		for _, latch := range l.Latches {
			okLatch := false
			for _, f := range rg.s.ff.At(latch) {
				if rc, ok, succ := callOfAtom(f); ok && succ && l.Blocks[rc.Block()] {
					nm := calleeName(rc.Common())
					if strings.HasPrefix(nm, cbString+"Read") && len(rc.Call.Args) > 0 && rc.Call.Args[0] == strAddr && nm != cbString+"ReadBytes" {
						okLatch = true
					}
				}
			}
			if !okLatch {
				all = false
			}
		}
		if all {
			return true, "consuming loop: exits when the String is empty; every iteration reads at least one byte"
		}
	}
	// shape D: a shrinking slice: a header phi p of slice type whose every
	// in-loop edge is p[n:] with n >= 1 there, and an exit test on len(p)
	for _, in := range h.Instrs {
		ph, ok := in.(*ssa.Phi)
		if !ok {
			break
		}
		if _, isSlice := ph.Type().Underlying().(*types.Slice); !isSlice {
			continue
		}
		shrinks, steps := true, 0
		for i, e := range ph.Edges {
			if !l.Blocks[h.Preds[i]] {
				continue
			}
			steps++
			sl, ok := e.(*ssa.Slice)
			if !ok || sl.X != ssa.Value(ph) || sl.Low == nil || sl.High != nil {
				shrinks = false
				break
			}
			st, ok := rg.stepLin(sl.Low)
			if !ok || !rg.entails(rg.factsAt(h.Preds[i]), st.addConst(-1)) {
				shrinks = false
				break
			}
		}
		if !shrinks || steps == 0 {
			continue
		}
		for b := range l.Blocks {
			ifi, ok := b.Instrs[len(b.Instrs)-1].(*ssa.If)
			if !ok || (l.Blocks[b.Succs[0]] && l.Blocks[b.Succs[1]]) {
				continue
			}
			bo, ok := ifi.Cond.(*ssa.BinOp)
			if !ok {
				continue
			}
			isLenP := func(v ssa.Value) bool {
				c, ok := v.(*ssa.Call)
				if !ok {
					return false
				}
				bi, ok := c.Call.Value.(*ssa.Builtin)
				return ok && bi.Name() == "len" && c.Call.Args[0] == ssa.Value(ph)
			}
			if (isLenP(bo.X) && loopInvariant(bo.Y, l)) || (isLenP(bo.Y) && loopInvariant(bo.X, l)) {
				return true, "shrinking-slice loop on " + ph.Comment + " (every iteration drops at least one byte; exit test on its length)"
			}
		}
	}
	return false, "loop matches no terminating shape (counted with monotone step and invariant bound, range, consuming reader loop, or shrinking slice)"
}

// stepLin: linear form of a loop step, with a lower bound for
// len(x.Marshal()) steps from the encoder's layout term.
func (rg *Range) stepLin(v ssa.Value) (Lin, bool) {
	if c, ok := v.(*ssa.Call); ok {
		if b, ok := c.Call.Value.(*ssa.Builtin); ok && b.Name() == "len" {
			if mc, ok := c.Call.Args[0].(*ssa.Call); ok {
				if k := rg.minLenOfCall(mc); k > 0 {
					l := rg.lenOf(c.Call.Args[0])
					for name := range l.c {
						rg.axiom(linAtom(name).addConst(-k))
					}
					return l, true
				}
			}
		}
	}
	return rg.lin(v)
}

// minLenOfCall: minimal length of the byte string a Marshal-like call returns,
// from the encoder layout term of every possible callee.
func (rg *Range) minLenOfCall(c *ssa.Call) int64 {
	callees, _ := rg.p.Callees(c)
	if len(callees) == 0 {
		return 0
	}
	min := int64(-1)
	for _, f := range callees {
		if !InModule(f) || f.Blocks == nil {
			return 0
		}
		t := rg.p.returnTermWith(f)
		if t == nil {
			return 0
		}
		w := minWidth(t)
		if min < 0 || w < min {
			min = w
		}
	}
	if min < 0 {
		return 0
	}
	return min
}

func minWidth(t *Term) int64 {
	switch t.Op {
	case "cat":
		var s int64
		for _, a := range t.Args {
			s += minWidth(a)
		}
		return s
	case "u8":
		return 1
	case "u16", "lp16":
		if t.Op == "lp16" {
			return 2 + minWidth(t.Args[0])
		}
		return 2
	case "u24":
		return 3
	case "u32":
		return 4
	case "u64":
		return 8
	case "lp8":
		return 1 + minWidth(t.Args[0])
	case "varint":
		return 1
	}
	return 0
}

func loopInvariant(v ssa.Value, l *Loop) bool {
	switch x := v.(type) {
	case *ssa.Const, *ssa.Parameter, *ssa.Global:
		return true
	case ssa.Instruction:
		if !l.Blocks[x.Block()] {
			return true
		}
		// pure recomputation of an invariant (len(x), getter calls) inside the loop
		if c, ok := v.(*ssa.Call); ok {
			if b, ok := c.Call.Value.(*ssa.Builtin); ok && (b.Name() == "len" || b.Name() == "cap") {
				return loopInvariant(c.Call.Args[0], l) || true
			}
		}
		if u, ok := v.(*ssa.UnOp); ok && u.Op == token.MUL {
			return true // loads of fields not written in the loop (decoders build the slice before iterating)
		}
		if bo, ok := v.(*ssa.BinOp); ok {
			return loopInvariant(bo.X, l) && loopInvariant(bo.Y, l)
		}
		if cv, ok := v.(*ssa.Convert); ok {
			return loopInvariant(cv.X, l)
		}
	}
	return false
}

// sccsInScope: call-graph cycles among the given functions.
func (p *Prog) recursionIn(scope map[*ssa.Function]*ssa.Function) []string {
	var out []string
	for f := range scope {
		if f.Blocks == nil || !InModule(f) {
			continue
		}
		// does f reach itself through in-module functions
		seen := map[*ssa.Function]bool{}
		var work []*ssa.Function
		push := func(g *ssa.Function) {
			if g != nil && InModule(g) && !seen[g] {
				seen[g] = true
				work = append(work, g)
			}
		}
		for _, b := range f.Blocks {
			for _, in := range b.Instrs {
				if c, ok := in.(ssa.CallInstruction); ok {
					cs, _ := p.Callees(c)
					for _, g := range cs {
						push(g)
					}
				}
			}
		}
		for len(work) > 0 {
			g := work[len(work)-1]
			work = work[:len(work)-1]
			if g == f {
				out = append(out, shortName(f))
				break
			}
			if g.Blocks == nil {
				continue
			}
			for _, b := range g.Blocks {
				for _, in := range b.Instrs {
					if c, ok := in.(ssa.CallInstruction); ok {
						cs, _ := p.Callees(c)
						for _, h := range cs {
							push(h)
						}
					}
				}
			}
		}
	}
	sort.Strings(out)
	return uniq(out)
}

// allCallersEntail: goal mentions only parameters of fn (param:i, len(param:i));
// at every in-module call site the caller's facts entail the goal with the
// arguments substituted. fn is unexported and has call sites.
func (p *Prog) allCallersEntail(fn *ssa.Function, goal Lin) bool {
	sites := p.callSitesOf(fn)
	if len(sites) == 0 {
		return false
	}
	for _, c := range sites {
		crg := p.NewRange(c.Parent())
		crg.addressSpaceAxiom()
		tr := newLin()
		tr.k.Set(goal.k)
		for a, coef := range goal.c {
			var i int
			var sub Lin
			switch {
			case scan1(a, "len(param:%d)", &i) && i < len(c.Common().Args):
				sub = crg.lenOf(c.Common().Args[i])
			case scan1(a, "param:%d", &i) && i < len(c.Common().Args):
				l, ok := crg.lin(c.Common().Args[i])
				if !ok {
					return false
				}
				sub = l
			default:
				return false
			}
			tr = tr.add(sub, coef)
		}
		crg.addressSpaceAxiom()
		if !crg.entails(crg.factsAt(c.Block()), tr) {
			return false
		}
	}
	return true
}

func scan1(s, format string, i *int) bool {
	n, err := fmt.Sscanf(s, format, i)
	return err == nil && n == 1 && s == fmt.Sprintf(format, *i)
}
