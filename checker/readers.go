package main

// E3 readers: the sequence of cryptobyte.String reads a decoder performs on
// its success paths, with destinations and widths.

import (
	"fmt"
	"go/token"
	"go/types"
	"sort"
	"strings"

	"golang.org/x/tools/go/ssa"
)

const cbString = "(*golang.org/x/crypto/cryptobyte.String)."
const cbStringV = "(golang.org/x/crypto/cryptobyte.String)."

// ReadItem is one reader operation.
type ReadItem struct {
	Op      string // u8,u16,u24,u32,bytes,lp8,lp16,lp24,skip,empty,asn1,asn1int,asn1bits,copybytes
	Reader  string // term of the String being read
	Dst     string // destination (field path or local), "" if none
	N       string // width term for bytes/skip
	Checked bool   // result branched on (an edge of that branch dominates the return)
	Result  bool   // the result value known on this path (when Checked)
	Call    ssa.CallInstruction
	// for reads spliced in from a helper: the helper's evaluator, its return
	// point, the read instruction inside it, and the position in its sequence
	Sub   *Sym
	SubRP *RetPoint
	Orig  ssa.CallInstruction
	seq   int
}

func (it ReadItem) String() string {
	s := it.Op
	if it.N != "" {
		s += "[" + it.N + "]"
	}
	if it.Dst != "" {
		s += "->" + it.Dst
	}
	if !it.Checked {
		s += "(UNCHECKED)"
	} else if !it.Result {
		s += "=false"
	}
	return s
}

var readOps = map[string]string{
	"ReadUint8": "u8", "ReadUint16": "u16", "ReadUint24": "u24", "ReadUint32": "u32", "ReadUint64": "u64",
	"ReadBytes": "bytes", "CopyBytes": "copybytes", "Skip": "skip", "Empty": "empty",
	"ReadUint8LengthPrefixed": "lp8", "ReadUint16LengthPrefixed": "lp16", "ReadUint24LengthPrefixed": "lp24",
	"ReadASN1": "asn1", "ReadASN1Integer": "asn1int", "ReadASN1BitString": "asn1bits", "ReadASN1Element": "asn1elem",
	"ReadOptionalASN1": "asn1opt", "ReadASN1ObjectIdentifier": "asn1oid", "ReadASN1Bytes": "asn1bytes",
	"ReadAnyASN1": "asn1any", "ReadAnyASN1Element": "asn1anyelem", "SkipASN1": "asn1skip", "PeekASN1Tag": "asn1peek",
}

// dstTerm names the destination of a read: the field or local the pointer
// argument designates.
func (s *Sym) dstTerm(v ssa.Value) string {
	switch v := v.(type) {
	case *ssa.Parameter:
		if n, ok := s.dstNames[v]; ok {
			return n
		}
	case *ssa.FieldAddr:
		return s.pointeeName(v.X) + "." + fieldName(v.X.Type(), v.Field)
	case *ssa.Alloc:
		return "local:" + v.Comment
	case *ssa.MakeInterface:
		return s.dstTerm(v.X)
	}
	t := s.Of(v)
	return t.String()
}

func (s *Sym) pointeeName(v ssa.Value) string {
	if pa, ok := v.(*ssa.Parameter); ok {
		if n, ok := s.ptrNames[pa]; ok {
			return n
		}
	}
	t := s.Of(v)
	if t.Op == "cell" || t.Op == "ref" {
		return t.Args[0].String()
	}
	return t.String()
}

// ReadSequence returns, for one return point, the reads on cryptobyte.String
// values that dominate it, in dominance order, marking which are checked.
func (p *Prog) ReadSequence(s *Sym, rp *RetPoint) []ReadItem {
	fn := s.fn
	checked := map[ssa.CallInstruction]bool{}
	result := map[ssa.CallInstruction]bool{}
	for _, a := range rp.Facts {
		if c, ok, succ := callOfAtom(a); ok {
			checked[c] = true
			result[c] = succ
		}
	}
	var items []ReadItem
	var retInstr ssa.Instruction = rp.Ret
	for _, b := range fn.Blocks {
		if s.ff.dead[b] {
			continue
		}
		for _, in := range b.Instrs {
			c, ok := in.(*ssa.Call)
			if !ok {
				continue
			}
			if sub := p.helperReads(s, rp, c, checked, result); sub != nil {
				items = append(items, sub...)
				continue
			}
			name := calleeName(c.Common())
			var m string
			if strings.HasPrefix(name, cbString) {
				m = name[len(cbString):]
			} else if strings.HasPrefix(name, cbStringV) {
				m = name[len(cbStringV):]
			} else {
				continue
			}
			op, known := readOps[m]
			if !known {
				op = "?" + m
			}
			// must dominate the return point's block (or be in it)
			if !(c.Block() == rp.Block || c.Block().Dominates(rp.Block)) {
				continue
			}
			_ = retInstr
			it := ReadItem{Op: op, Call: c, Checked: checked[c], Result: result[c]}
			args := c.Call.Args
			if u, ok := args[0].(*ssa.UnOp); ok {
				it.Reader = s.dstTerm(u.X) // value receiver: *s
			} else {
				it.Reader = s.dstTerm(args[0])
			}
			switch op {
			case "u8", "u16", "u24", "u32", "u64", "lp8", "lp16", "lp24", "asn1int", "asn1bits", "asn1oid":
				it.Dst = s.dstTerm(args[1])
			case "bytes", "copybytes":
				it.Dst = s.dstTerm(args[1])
				it.N = s.Of(args[2]).String()
			case "skip":
				it.N = s.Of(args[1]).String()
			case "asn1", "asn1elem":
				it.Dst = s.dstTerm(args[1])
				it.N = s.Of(args[2]).String()
			}
			// a forwarded `return s.Empty()` is checked by construction
			if op == "empty" {
				for _, v := range rp.Vals {
					if v == ssa.Value(c) {
						it.Checked = true
						it.Result = true
					}
				}
			}
			items = append(items, it)
		}
	}
	// len(s) == 0 on a cryptobyte.String is s.Empty()
	for _, b := range fn.Blocks {
		if s.ff.dead[b] {
			continue
		}
		for _, in := range b.Instrs {
			bo, ok := in.(*ssa.BinOp)
			if !ok || (bo.Op != token.EQL && bo.Op != token.NEQ) || !isZeroConst(bo.Y) {
				continue
			}
			lc, ok := bo.X.(*ssa.Call)
			if !ok {
				continue
			}
			if bi, ok := lc.Call.Value.(*ssa.Builtin); !ok || bi.Name() != "len" {
				continue
			}
			arg := lc.Call.Args[0]
			if !strings.HasSuffix(arg.Type().String(), "cryptobyte.String") {
				continue
			}
			if !(lc.Block() == rp.Block || lc.Block().Dominates(rp.Block)) {
				continue
			}
			it := ReadItem{Op: "empty", Call: lc}
			if u, ok := arg.(*ssa.UnOp); ok {
				it.Reader = s.dstTerm(u.X)
			} else {
				it.Reader = s.dstTerm(arg)
			}
			for _, a := range rp.Facts {
				if a.Kind == Truth && a.V == ssa.Value(bo) {
					it.Checked = true
					it.Result = (bo.Op == token.EQL) == a.Pol
				}
			}
			items = append(items, it)
		}
	}
	sort.SliceStable(items, func(i, j int) bool {
		if items[i].Call == items[j].Call {
			return items[i].seq < items[j].seq
		}
		return dominates(items[i].Call, items[j].Call)
	})
	// ReadUintN(&n) followed by ReadBytes(&x, int(n)) on the same reader is the
	// length-prefixed read ReadUintNLengthPrefixed(&x), spelled in two steps
	var merged []ReadItem
	for i := 0; i < len(items); i++ {
		it := items[i]
		if i+1 < len(items) && (it.Op == "u8" || it.Op == "u16" || it.Op == "u24") && strings.HasPrefix(it.Dst, "local:") {
			nx := items[i+1]
			if c, ok := it.Call.(*ssa.Call); ok && (nx.Op == "bytes" || nx.Op == "copybytes") && nx.Reader == it.Reader {
				out := "out<1>(" + s.callTerm(c).String() + ")"
				if nx.N == "conv<int>("+out+")" || nx.N == out {
					m := nx
					m.Op = "lp" + it.Op[1:]
					m.N = ""
					m.Checked = it.Checked && nx.Checked
					m.Result = it.Result && nx.Result
					merged = append(merged, m)
					i++
					continue
				}
			}
		}
		merged = append(merged, it)
	}
	return merged
}

func readSeqString(items []ReadItem) string {
	var parts []string
	for _, it := range items {
		parts = append(parts, it.String())
	}
	return strings.Join(parts, " ; ")
}

// tagCheck: is there a fact `local == const` / `local != const` (negated) on
// the value read by item it. Returns the constant.
func (p *Prog) tagCheck(s *Sym, rp *RetPoint, it ReadItem) (string, bool) {
	if it.Sub != nil && it.SubRP != nil {
		// the tag is read and compared inside a helper: judged there, with the
		// helper's parameters bound to the caller's arguments
		sub := it
		sub.Call, sub.Sub = it.Orig, nil
		return p.tagCheck(it.Sub, it.SubRP, sub)
	}
	for _, a := range rp.Facts {
		if a.Kind != Truth {
			continue
		}
		b, ok := a.V.(*ssa.BinOp)
		if !ok {
			continue
		}
		eq := (b.Op.String() == "==" && a.Pol) || (b.Op.String() == "!=" && !a.Pol)
		if !eq {
			continue
		}
		x, y := b.X, b.Y
		if _, isC := x.(*ssa.Const); isC {
			x, y = y, x
		}
		yt := s.Of(y)
		if _, isC := y.(*ssa.Const); !isC && yt.Op != "const" {
			x, y = y, x
			yt = s.Of(y)
		}
		if yt.Op != "const" {
			continue
		}
		xt := s.Of(x)
		if xt.Op == "out" && xt.Site == ssa.Instruction(it.Call) {
			return yt.Name, true
		}
	}
	return "", false
}

func fmtItems(items []ReadItem) string { return fmt.Sprint(readSeqString(items)) }

// helperReads: call c (dominating the return point) goes to a module helper
// that reads from a cryptobyte.String the caller hands it by pointer, or that
// is the whole decoder the caller forwards to (its results are the caller's
// results). The helper's reads on its own success returns are reported in the
// caller's vocabulary (parameters bound to the arguments), in place of the
// call. nil when c is not such a call.
func (p *Prog) helperReads(s *Sym, rp *RetPoint, c *ssa.Call, checked, result map[ssa.CallInstruction]bool) []ReadItem {
	g := c.Call.StaticCallee()
	if g == nil || g.Blocks == nil || !InModule(g) || len(s.stack) > 3 {
		return nil
	}
	for _, f := range s.stack {
		if f == g {
			return nil
		}
	}
	if !(c.Block() == rp.Block || c.Block().Dominates(rp.Block)) {
		return nil
	}
	takesReader := false
	for _, a := range c.Call.Args {
		if strings.HasSuffix(a.Type().String(), "*golang.org/x/crypto/cryptobyte.String") {
			takesReader = true
		}
	}
	forwarded := false
	for _, v := range rp.Vals {
		if v == ssa.Value(c) {
			forwarded = true
		}
		if ex, ok := v.(*ssa.Extract); ok && ex.Tuple == ssa.Value(c) {
			forwarded = true
		}
	}
	if !takesReader && !forwarded {
		return nil
	}
	// does the helper read at all?
	reads := false
	for _, b := range g.Blocks {
		for _, in := range b.Instrs {
			if cc, ok := in.(*ssa.Call); ok {
				n := calleeName(cc.Common())
				if strings.HasPrefix(n, cbString) || strings.HasPrefix(n, cbStringV) {
					reads = true
				}
			}
		}
	}
	if !reads {
		return nil
	}
	ch := s.child(g)
	s.bindArgs(ch, g, c.Call.Args, c)
	ch.dstNames = map[*ssa.Parameter]string{}
	ch.ptrNames = map[*ssa.Parameter]string{}
	for i, prm := range g.Params {
		if i >= len(c.Call.Args) {
			break
		}
		if _, isPtr := prm.Type().Underlying().(*types.Pointer); isPtr {
			ch.dstNames[prm] = s.dstTerm(c.Call.Args[i])
			ch.ptrNames[prm] = s.pointeeName(c.Call.Args[i])
		}
	}
	okHere := forwarded || (checked[c] && result[c])
	var out []ReadItem
	var lastRP *RetPoint
	seen := ""
	n := 0
	for _, grp := range ch.ff.RetPoints(verdictIndex(g)) {
		if grp.Outcome == Fails {
			continue
		}
		gp := grp
		seq := p.ReadSequence(ch, &gp)
		str := readSeqString(seq)
		if n > 0 && str != seen {
			return []ReadItem{{Op: "?helper-with-several-read-sequences:" + shortName(g), Call: c}}
		}
		seen, out = str, seq
		lastRP = &gp
		n++
	}
	if n == 0 {
		return nil
	}
	for i := range out {
		if out[i].Sub == nil {
			out[i].Sub, out[i].SubRP, out[i].Orig = ch, lastRP, out[i].Call
		}
		out[i].Call = c
		out[i].seq = i
		if !okHere {
			out[i].Checked = false
		}
	}
	return out
}
