package main

// C08 - the anonymous issuer origin ID is stable per client and origin, and nothing else.

import "strings"

func init() { props["C08"] = c08 }

const tCtxClient = `cat(u16(const:3), lit:"ClientBlind")`
const tCtxIssuer = `cat(u16(const:3), lit:"IssuerBlind")`

func c08(p *Prog, r *Report) {
	r.Explanation = "Symbolic binding and dependency analysis: the value FinalizeIndex returns is, on every success path, exactly HKDF(SHA-384; secret = compressed(Unblind(P384, decode(blinded request key), CreateKey(blind), type||\"ClientBlind\")), salt = clientKey, info = \"IssuerOriginAlias\") read with a checked io.ReadFull into a SHA-384-sized buffer, a term over the function's first three arguments only (no cache, ClientState or anonymous-origin input); the client blinds and signs, and the attester blinds and unblinds, under the same context term; the issuer uses a different context and blinds the request key with the index key of the unpadded origin."
	r.NotDecided = "that the client blind cancels for every blind (group algebra), collision resistance (distinct clients/origins give distinct IDs), HKDF correctness."
	r.Assumptions = append(r.Assumptions, "x/crypto/hkdf, crypto/elliptic behave as documented")
	r.Trusted = append(r.Trusted, "go/types, go/ssa", "term evaluator of this checker")
	const R1 = "C08.index-derivation-binding"
	const R2 = "C08.context-agreement"
	const R3 = "C08.issuer-blinds-request-key-with-origin-index-key"
	const R4 = "C08.request-key-is-the-blinded-client-key"
	r.Rule(R1, "FinalizeIndex returns HKDF-SHA-384(ikm=unblinded key, salt=clientKey, info=IssuerOriginAlias) of its first three arguments only, read with a checked ReadFull", 2)
	r.Rule(R2, "client blind/sign context == attester blind context == attester unblind context == type||\"ClientBlind\"; issuer context is type||\"IssuerBlind\" (different)", 5)
	r.Rule(R4, "the attester accepts a request key only if its full encoding equals compressed(Blind(client key, blind, type||\"ClientBlind\")) - one request key, hence one ID, per client blind", 1)
	const R5 = "C08.origin-name-recovered-exactly"
	r.Rule(R5, "unpadOriginName strips exactly the trailing zero bytes, so the index key used is the one registered for the origin the request names - shared with C20", 1)
	if unpad := anchor(p, r, R5, "~/tokens/type3.unpadOriginName"); unpad != nil {
		c20Unpad(p, r, R5, unpad)
	}
	r.Rule(R3, "issuer returns compressed(Blind(request key, originIndexKeys[unpad(origin)], type||\"IssuerBlind\"))", 1)

	if fn := anchor(p, r, R1, nmAttFinal); fn != nil {
		r.List("functions", shortName(fn))
		U := "extract<0>(call<ecdsa.UnblindPublicKeyWithContext>(" + tP384 + ", " + pubKeyFrom(tP384, "param:3") + ", extract<0>(call<ecdsa.CreateKey>(" + tP384 + ", param:2)), " + tCtxClient + "))"
		secret := "call<crypto/elliptic.MarshalCompressed>(" + tP384 + ", " + U + ".X, " + U + ".Y)"
		hk := "call<golang.org/x/crypto/hkdf.New>(fn:crypto/sha512.New384, " + secret + ", param:1, lit:\"IssuerOriginAlias\")"
		retValueIs(p, r, R1, fn, "HKDF-SHA-384(unblinded key, clientKey, \"IssuerOriginAlias\")[:48]",
			"make(call<(crypto.Hash).Size>(const:6), fill<io.ReadFull>("+hk+", const:dst))")
		p.RequireOnSuccess(r, R1, fn, CallReq{Desc: "io.ReadFull(hkdf, index) ok", Callee: "io.ReadFull", Check: func(t *Term) string {
			return want("reader", arg(t, 0), hk)
		}})
	}

	// R2: contexts
	ctxOf := func(fnName, callee string, idx int, wantCtx, what string) {
		fn := anchor(p, r, R2, fnName)
		if fn == nil {
			return
		}
		s := p.NewSym(fn)
		sites := sitesIn(fn, func(n string) bool { return n == callee })
		if len(sites) != 1 {
			r.Fail(R2, what, p.Pos(fn.Pos()), "expected exactly one call to "+callee)
			return
		}
		got := arg(s.callTerm(sites[0]), idx).String()
		r.Check(got == wantCtx, R2, what, p.InstrPos(sites[0]), "context = "+wantCtx, "context is "+clip(got, 200)+", required "+wantCtx)
	}
	cl := "(~/tokens/type3.RateLimitedClient).CreateTokenRequest"
	ctxOf(cl, "ecdsa.BlindPublicKeyWithContext", 3, tCtxClient, "client blinds its key under type||ClientBlind")
	ctxOf(cl, "ecdsa.BlindKeySignWithContext", 4, tCtxClient, "client signs under type||ClientBlind")
	ctxOf(nmAttVerify, "ecdsa.BlindPublicKeyWithContext", 3, tCtxClient, "attester re-blinds under type||ClientBlind")
	ctxOf(nmAttFinal, "ecdsa.UnblindPublicKeyWithContext", 3, tCtxClient, "attester unblinds under type||ClientBlind")
	ctxOf(nmIssEval, "ecdsa.BlindPublicKeyWithContext", 3, tCtxIssuer, "issuer blinds under type||IssuerBlind")
	// client: the key it blinds is its own public key and the blind is CreateKey(blindKeyEnc), same blind for signing
	if fn := anchor(p, r, R2, cl); fn != nil {
		s := p.NewSym(fn)
		b := sitesIn(fn, func(n string) bool { return n == "ecdsa.BlindPublicKeyWithContext" })
		g := sitesIn(fn, func(n string) bool { return n == "ecdsa.BlindKeySignWithContext" })
		if len(b) == 1 && len(g) == 1 {
			bt, gt := s.callTerm(b[0]), s.callTerm(g[0])
			blind := "extract<0>(call<ecdsa.CreateKey>(param:0.curve, param:3))"
			why := firstNonEmpty(
				want("blinded key", arg(bt, 1), "fieldaddr<PublicKey>(param:0.secretKey)"),
				want("blind", arg(bt, 2), blind),
				want("signing key", arg(gt, 1), "param:0.secretKey"),
				want("signing blind", arg(gt, 2), blind),
			)
			r.Check(why == "", R2, "client blinds its own key and signs with the same blind", p.InstrPos(b[0]), "Blind(own public key, CreateKey(blindKeyEnc)); BlindKeySign(own key, same blind)", why)
		}
	}

	// the request key the issuer blinds is accepted only if it is exactly the
	// client key blinded with the client's blind (shared with C06): otherwise a
	// second request key (e.g. the negated point) yields a second ID for the
	// same client and origin
	if fn := anchor(p, r, R4, nmAttVerify); fn != nil {
		_, eqReq := attesterReqs()
		p.RequireOnSuccess(r, R4, fn, eqReq)
	}

	// R3
	if fn := anchor(p, r, R3, nmIssEval); fn != nil {
		s := p.NewSym(fn)
		rps := s.ff.RetPoints(verdictIndex(fn))
		ok, n := true, 0
		detail := ""
		for i := range rps {
			if rps[i].Outcome == Fails {
				continue
			}
			n++
			t := s.Of(rps[i].Vals[1]).String()
			pat := "call<crypto/elliptic.MarshalCompressed>(param:0.curve, extract<0>(call<ecdsa.BlindPublicKeyWithContext>(param:0.curve, ref(struct<ecdsa.PublicKey>(kv<Curve>(param:0.curve), kv<X>(extract<0>(call<crypto/elliptic.UnmarshalCompressed>(param:0.curve, *.RequestKey))), kv<Y>(*))), extract<0>(lookup(param:0.*, call<tokens/type3.unpadOriginName>(*.paddedOrigin))), " + tCtxIssuer + ")).X, *.Y)"
			if !glob(pat, t) || strings.Count(t, "IssuerBlind") != 2 {
				ok = false
				detail = "second result is " + clip(t, 500)
			}
		}
		r.Check(ok && n > 0, R3, "issuer blinded request key", p.Pos(fn.Pos()), "compressed(Blind(decode(req.RequestKey), originIndexKeys[unpad(paddedOrigin)], type||IssuerBlind))", detail)
	}
}
