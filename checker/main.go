package main

import (
	"flag"
	"fmt"
	"os"
	"path/filepath"
	"runtime/debug"
	"sort"
	"strconv"
	"strings"

	"golang.org/x/tools/go/ssa"
)

type propFunc func(p *Prog, r *Report)

var props = map[string]propFunc{}

// propConfigs lists extra build configurations analysed in the thorough tier.
var propConfigs = map[string][]string{}

func main() {
	prop := flag.String("prop", "", "property id (C01..C20)")
	tier := flag.String("tier", "quick", "quick|thorough")
	repo := flag.String("repo", "/repo", "repository root")
	verif := flag.String("verif", "", "verification directory (default: parent of the checker)")
	evidence := flag.String("evidence", "", "evidence file (default <verif>/evidence/<prop>.json)")
	dump := flag.String("dump", "", "debug: dump terms/facts of the named function")
	flag.Parse()

	if *verif == "" {
		exe, _ := os.Executable()
		*verif = filepath.Dir(filepath.Dir(exe))
		if _, err := os.Stat(filepath.Join(*verif, "properties.jsonl")); err != nil {
			*verif = "/verif"
		}
	}
	if t := os.Getenv("VERIF_TIER"); t != "" && *tier == "" {
		*tier = t
	}
	seed := 0
	if s := os.Getenv("VERIF_SEED"); s != "" {
		seed, _ = strconv.Atoi(s)
	}

	if *dump != "" {
		p, err := Load(*repo, "")
		if err != nil {
			fmt.Println(err)
			os.Exit(2)
		}
		if *dump == "@fields" {
			dumpFields(p)
			return
		}
		dumpFunc(p, *dump)
		return
	}

	f, ok := props[*prop]
	if !ok {
		var ids []string
		for k := range props {
			ids = append(ids, k)
		}
		sort.Strings(ids)
		fmt.Printf("patcheck: unknown property %q (have %s)\n", *prop, strings.Join(ids, " "))
		os.Exit(2)
	}
	if *evidence == "" {
		*evidence = filepath.Join(*verif, "evidence", *prop+".json")
	}
	os.Remove(*evidence)
	r := NewReport(*prop, *tier)
	code := run(f, r, *repo, *tier, *prop)
	if code == 0 || code == 1 {
		c := r.Finish(*evidence, filepath.Join(*verif, "known_findings.json"), seed)
		if code == 1 && c == 0 {
			c = 1
		}
		code = c
	}
	os.Exit(code)
}

func run(f propFunc, r *Report, repo, tier, prop string) (code int) {
	defer func() {
		if e := recover(); e != nil {
			// a checker panic is a failing check, never a pass
			r.Rule("checker-integrity", "the checker itself must complete; an internal error is a failure", 0)
			r.Fail("checker-integrity", "panic", "-", fmt.Sprintf("%v\n%s", e, debug.Stack()))
			code = 1
		}
	}()
	configs := []string{""}
	if tier == "thorough" {
		extra, ok := propConfigs[prop]
		if !ok {
			extra = []string{"386", "arm64"} // every rule is repeated for a 32-bit and a second 64-bit configuration
		}
		configs = append(configs, extra...)
	}
	for _, cfg := range configs {
		p, err := Load(repo, cfg)
		if err != nil {
			r.Rule("load", "the repository's current working tree loads and type-checks in every analysed build configuration", 1)
			r.Fail("load", "load:"+cfg, "-", err.Error())
			return 1
		}
		name := cfg
		if name == "" {
			name = "default"
		}
		r.curConfig = name
		r.Count("configurations", 1)
		r.List("configurations", fmt.Sprintf("GOARCH=%s int=%dbit", name, p.IntBits))
		nmod := 0
		for _, pk := range p.Pkgs {
			if strings.HasPrefix(pk.PkgPath, modPath) {
				nmod++
			}
		}
		if cfg == "" {
			r.Count("packages_pat_go", nmod)
			r.Count("packages_total", len(p.All))
			r.Count("functions_total", len(p.Funcs))
			r.Count("functions_pat_go", len(p.ModuleFuncs()))
			r.List("excluded", "ecdsa/ecdsa_s390x.go (GOARCH=s390x does not build outside GOROOT: imports internal/cpu, kdsa assembly absent)")
		}
		f(p, r)
		// free memory between configurations
		factsCache = map[*ssa.Function]*FuncFacts{}
	}
	r.curConfig = ""
	return 0
}

func dumpFunc(p *Prog, name string) {
	fn := p.Func(name)
	if fn == nil {
		fmt.Println("no such function; candidates:")
		var c []string
		for n := range p.byName {
			if strings.Contains(n, strings.TrimPrefix(name, "~/")) {
				c = append(c, n)
			}
		}
		sort.Strings(c)
		for _, n := range c {
			fmt.Println("  ", n)
		}
		return
	}
	if os.Getenv("DUMP_EFFECTS") != "" {
		e := p.Effects()
		fmt.Printf("effects: %d functions summarised, %d iterations\n", e.Stats.Funcs, e.Stats.Iter)
		sm := e.Summary(fn)
		for i, w := range sm.WritesS {
			fmt.Printf("  writes memory of param %d: %s\n", i, e.describe(w))
		}
		for d, w := range sm.WritesD {
			fmt.Printf("  writes memory reached through param %d field %q: %s\n", d.idx, d.field, e.describe(w))
		}
		for g, w := range sm.WritesGlob {
			fmt.Printf("  writes global %s: %s\n", g.RelString(nil), e.describe(w))
		}
		for g, w := range sm.once {
			fmt.Printf("  once-writes global %s: %s\n", g.RelString(nil), e.describe(w))
		}
		for i := range sm.RetAddr {
			fmt.Printf("  result %d: addr %s content %s fields %v\n", i, sm.RetAddr[i], sm.RetCont[i], sm.RetContF[i])
		}
		mg := p.mutableGlobals()
		for g, why := range mg {
			fmt.Printf("  mutable global %s: %s\n", g.RelString(nil), why)
		}
		return
	}
	ff := p.Facts(fn)
	s := p.NewSym(fn)
	vi := verdictIndex(fn)
	fmt.Printf("function %s verdict index %d\n", fn.RelString(nil), vi)
	for _, rp := range ff.RetPoints(vi) {
		fmt.Printf(" return @%s outcome=%d\n", p.Pos(rp.Ret.Pos()), rp.Outcome)
		for _, v := range rp.Vals {
			fmt.Printf("   val  %s\n", clip(s.Of(v).String(), dumpClip()))
		}
		if os.Getenv("DUMP_FACTS") != "" {
			for _, a := range rp.Facts {
				fmt.Printf("   fact kind=%d pol=%v %s\n", a.Kind, a.Pol, clip(s.Of(a.V).String(), 300))
			}
		}
		if rp.Outcome != Fails {
			rpc := rp
			items := p.ReadSequence(s, &rpc)
			fmt.Printf("   reads %s\n", readSeqString(items))
			for _, it := range items {
				if k, ok := p.tagCheck(s, &rpc, it); ok {
					fmt.Printf("   tag check on %s == %s\n", it, k)
				}
			}
		}
	}
	if os.Getenv("DUMP_CALLS") == "" {
		return
	}
	fmt.Println(" calls:")
	for _, b := range fn.Blocks {
		for _, in := range b.Instrs {
			if c, ok := in.(ssa.CallInstruction); ok {
				fmt.Printf("   %s: %s\n", p.InstrPos(in), s.callTerm(c))
			}
		}
	}
}

func dumpClip() int {
	if n, err := strconv.Atoi(os.Getenv("DUMP_CLIP")); err == nil {
		return n
	}
	return 600
}
