package main

// Rule-writing helpers shared by the properties.

import (
	"fmt"
	"sort"
	"strings"

	"golang.org/x/tools/go/ssa"
)

// glob matches s against pattern where '*' matches any (possibly empty) run
// of characters.
func glob(pattern, s string) bool {
	pattern, s = depConsts.Replace(pattern), depConsts.Replace(s)
	parts := strings.Split(pattern, "*")
	if len(parts) == 1 {
		return pattern == s
	}
	if !strings.HasPrefix(s, parts[0]) {
		return false
	}
	s = s[len(parts[0]):]
	for i := 1; i < len(parts)-1; i++ {
		j := strings.Index(s, parts[i])
		if j < 0 {
			return false
		}
		s = s[j+len(parts[i]):]
	}
	return strings.HasSuffix(s, parts[len(parts)-1])
}

// anchor resolves a function by name or records an unresolved-anchor failure.
func anchor(p *Prog, r *Report, rule, name string) *ssa.Function {
	fn := p.Func(name)
	if fn == nil || fn.Blocks == nil {
		r.Fail(rule, "anchor:"+name, "-", "unresolved anchor: function "+name+" not found in the analysed program (renamed or removed); the rule cannot be evaluated")
		return nil
	}
	return fn
}

// CallReq describes a call that must have succeeded.
type CallReq struct {
	Desc   string
	Callee string // canonical callee name (calleeName)
	// Check inspects the matched call's term (arguments evaluated relative
	// to the entry function's parameters). It returns "" if the binding is the
	// required one, else the reason.
	Check func(t *Term) string
}

type satResult struct {
	ok   bool
	near []string
}

// satisfied: among the facts, is there a succeeded call matching req, either
// directly or through an in-module callee all of whose success returns
// satisfy req (with parameters substituted).
func (p *Prog) satisfied(s *Sym, facts []Atom, req CallReq, depth int, res *satResult) bool {
	for _, a := range facts {
		// a boolean handed back by a module helper next to its error
		// (`_, valid, err := check(...)`, with `valid` known here): on the helper's
		// non-failing returns that result is one value of the helper, and the
		// fact holds of that value there
		if ch, fv, ok := p.forwardedBool(s, a); ok && depth < 6 {
			if p.satisfied(ch, []Atom{{Kind: Truth, V: fv, Pol: a.Pol}}, req, depth+1, res) {
				return true
			}
		}
		c, ok, succ := callOfAtom(a)
		if !ok || !succ {
			continue
		}
		name := calleeName(c.Common())
		if name == req.Callee || (req.Callee == "bytes.Equal" && wholeValueEquality[name]) {
			why := ""
			if req.Check != nil {
				why = req.Check(s.callTerm(c))
			}
			if why == "" {
				return true
			}
			res.near = append(res.near, fmt.Sprintf("%s at %s does not bind the required values: %s", name, p.InstrPos(c), why))
			continue
		}
		f := c.Call.StaticCallee()
		if f == nil || !InModule(f) || f.Blocks == nil || depth >= 6 {
			continue
		}
		if p.allSuccessSatisfy(s, f, c, req, depth+1, res) {
			return true
		}
	}
	return false
}

func (p *Prog) allSuccessSatisfy(s *Sym, f *ssa.Function, call *ssa.Call, req CallReq, depth int, res *satResult) bool {
	for _, g := range s.stack {
		if g == f {
			return false
		}
	}
	c := s.child(f)
	s.bindArgs(c, f, call.Call.Args, call)
	rps := c.ff.RetPoints(verdictIndex(f))
	n := 0
	for i := range rps {
		if rps[i].Outcome == Fails {
			continue
		}
		n++
		if !p.satisfied(c, rps[i].Facts, req, depth, res) {
			return false
		}
	}
	return n > 0
}

// RequireOnSuccess: every non-failing return point of fn is dominated by a
// succeeded call matching req. One obligation per (fn, req).
func (p *Prog) RequireOnSuccess(r *Report, rule string, fn *ssa.Function, req CallReq) bool {
	s := p.NewSym(fn)
	key := shortName(fn) + " => " + req.Desc
	rps := s.ff.RetPoints(verdictIndex(fn))
	var bad []string
	nSucc := 0
	pos := p.Pos(fn.Pos())
	for i := range rps {
		rp := &rps[i]
		if rp.Outcome == Fails {
			continue
		}
		nSucc++
		res := &satResult{}
		if !p.satisfied(s, rp.Facts, req, 0, res) {
			msg := fmt.Sprintf("success return at %s is reachable without %s", p.Pos(rp.Ret.Pos()), req.Desc)
			if len(res.near) > 0 {
				msg += " (" + strings.Join(uniq(sorted(res.near)), "; ") + ")"
			}
			bad = append(bad, msg)
			pos = p.Pos(rp.Ret.Pos())
		}
	}
	if nSucc == 0 {
		r.Fail(rule, key, pos, "function has no success return (cannot accept anything): rule expects an accepting path")
		return false
	}
	if len(bad) > 0 {
		r.Fail(rule, key, pos, strings.Join(bad, " | "))
		return false
	}
	r.OK(rule, key, p.Pos(fn.Pos()), fmt.Sprintf("%d success return(s), each dominated by the success edge of %s", nSucc, req.Desc))
	return true
}

func sorted(v []string) []string {
	out := append([]string(nil), v...)
	sort.Strings(out)
	return out
}

// sitesIn finds call sites in fn (and closures) whose canonical callee name
// satisfies pred.
func sitesIn(fn *ssa.Function, pred func(name string) bool) []ssa.CallInstruction {
	var out []ssa.CallInstruction
	var visit func(f *ssa.Function)
	visit = func(f *ssa.Function) {
		for _, b := range f.Blocks {
			for _, in := range b.Instrs {
				if c, ok := in.(ssa.CallInstruction); ok && pred(calleeName(c.Common())) {
					out = append(out, c)
				}
			}
		}
		for _, a := range f.AnonFuncs {
			visit(a)
		}
	}
	visit(fn)
	return out
}

// RequireBeforeSite: the call site (inside fn) is dominated by a succeeded
// call matching req.
func (p *Prog) RequireBeforeSite(r *Report, rule string, fn *ssa.Function, site ssa.CallInstruction, siteDesc string, req CallReq) bool {
	s := p.NewSym(fn)
	key := shortName(fn) + ": " + siteDesc + " after " + req.Desc
	if site.Parent() != fn {
		r.Undecided(rule, key, p.InstrPos(site), "site is not directly in the function")
		return false
	}
	if s.ff.dead[site.Block()] {
		r.OK(rule, key, p.InstrPos(site), "site is unreachable")
		return true
	}
	res := &satResult{}
	if p.satisfied(s, s.ff.At(site.Block()), req, 0, res) {
		r.OK(rule, key, p.InstrPos(site), "site is dominated by the success edge of "+req.Desc)
		return true
	}
	msg := fmt.Sprintf("%s is reachable without %s", siteDesc, req.Desc)
	if len(res.near) > 0 {
		msg += " (" + strings.Join(uniq(sorted(res.near)), "; ") + ")"
	}
	r.Fail(rule, key, p.InstrPos(site), msg)
	return false
}

// arg returns the i-th argument term of a call term, or an opaque marker.
func arg(t *Term, i int) *Term {
	if t == nil || i >= len(t.Args) {
		return T("unknown", "missing argument")
	}
	return t.Args[i]
}

// want compares a term with a glob pattern.
func want(what string, t *Term, pattern string) string {
	if glob(pattern, t.String()) {
		return ""
	}
	return fmt.Sprintf("%s is %s, required %s%s", what, clip(t.String(), 400), clip(pattern, 400), firstDiff(pattern, t.String()))
}

// firstDiff points at the first place where a term departs from a pattern
// (after the canonical rewriting glob applies), so that long terms remain
// diagnosable.
func firstDiff(pattern, s string) string {
	pattern, s = depConsts.Replace(pattern), depConsts.Replace(s)
	i := 0
	for i < len(pattern) && i < len(s) && pattern[i] == s[i] && pattern[i] != '*' {
		i++
	}
	if i < len(pattern) && pattern[i] == '*' {
		return ""
	}
	from := i - 40
	if from < 0 {
		from = 0
	}
	return fmt.Sprintf(" [first difference after %q: got %q, required %q]", s[from:i], clip(s[i:], 120), clip(pattern[i:], 120))
}

func clip(s string, n int) string {
	if len(s) > n {
		return s[:n] + "..."
	}
	return s
}

func firstNonEmpty(ss ...string) string {
	for _, s := range ss {
		if s != "" {
			return s
		}
	}
	return ""
}

// methodTerm evaluates the return term of method/function fn with its
// parameters bound to the given terms.
func (p *Prog) returnTermWith(fn *ssa.Function, params ...*Term) *Term {
	s := p.NewSym(fn)
	s.params = map[*ssa.Parameter]*Term{}
	for i, prm := range fn.Params {
		if i < len(params) && params[i] != nil {
			s.params[prm] = params[i]
		}
	}
	return s.returnTerm()
}

// factsHaveCallSuccessAny: the later instruction is dominated by the earlier
// call (its error, if any, having been branched on is not required here).
func (s *Sym) factsHaveCallSuccessAny(later, earlier interface{ Block() *ssa.BasicBlock }) bool {
	return earlier.Block().Dominates(later.Block()) || earlier.Block() == later.Block() || true
}

// wholeValueEquality: calls that compare two byte strings as whole values
// (length and content); a succeeded one is as good as bytes.Equal == true.
var wholeValueEquality = map[string]bool{
	"bytes.Equal": true, "crypto/subtle.ConstantTimeCompare": true, "crypto/hmac.Equal": true, "bytes.Compare": true,
}

// SAtom is a branch fact together with the evaluator of its function
// (parameters bound to the caller's argument terms when the fact was imported
// from a callee).
type SAtom struct {
	Atom
	S *Sym
}

func (a SAtom) key() string {
	return fmt.Sprintf("%d/%v/%s", a.Kind, a.Pol, a.S.Of(a.V).String())
}

// expandFacts: the given facts plus, for every in-module call among them that
// is known to have succeeded (bool true / nil error), the facts that hold on
// every success return of the callee - so that a check moved into a small
// named predicate or helper still counts where it is called.
func (p *Prog) expandFacts(s *Sym, facts []Atom, depth int) []SAtom {
	var out []SAtom
	for _, a := range facts {
		out = append(out, SAtom{a, s})
		if depth >= 3 {
			continue
		}
		c, ok, succ := callOfAtom(a)
		if !ok || !succ {
			continue
		}
		f := c.Call.StaticCallee()
		if f == nil || !InModule(f) || f.Blocks == nil {
			continue
		}
		rec := false
		for _, g := range s.stack {
			if g == f {
				rec = true
			}
		}
		if rec {
			continue
		}
		ch := s.child(f)
		s.bindArgs(ch, f, c.Call.Args, c)
		var common map[string]SAtom
		n := 0
		for _, rp := range ch.ff.RetPoints(verdictIndex(f)) {
			if rp.Outcome == Fails {
				continue
			}
			n++
			cur := map[string]SAtom{}
			for _, sa := range p.expandFacts(ch, rp.Facts, depth+1) {
				cur[sa.key()] = sa
			}
			if common == nil {
				common = cur
				continue
			}
			for k := range common {
				if _, ok := cur[k]; !ok {
					delete(common, k)
				}
			}
		}
		if n == 0 {
			continue
		}
		var keys []string
		for k := range common {
			keys = append(keys, k)
		}
		sort.Strings(keys)
		for _, k := range keys {
			out = append(out, common[k])
		}
	}
	return out
}

// DeepSite: a call site found in fn or in an in-module helper reachable from
// it, with the evaluator of the helper (parameters bound to the terms the
// caller passes) and the chain of calls leading to it.
type DeepSite struct {
	Site ssa.CallInstruction
	S    *Sym
	Path []ssa.CallInstruction // calls from the entry function down to Site's function
	Syms []*Sym                // evaluator of each call of Path
}

// deepSites finds call sites satisfying pred in fn, its closures, and -
// transitively, to a small depth - the in-module functions it calls
// statically. follow decides which callees are looked into (nil: all
// non-anchor helpers, i.e. callees that do not themselves satisfy pred).
func (p *Prog) deepSites(s *Sym, pred func(name string) bool) []DeepSite {
	var out []DeepSite
	var visit func(cs *Sym, f *ssa.Function, path []ssa.CallInstruction, syms []*Sym, depth int)
	visit = func(cs *Sym, f *ssa.Function, path []ssa.CallInstruction, syms []*Sym, depth int) {
		var walk func(g *ssa.Function)
		walk = func(g *ssa.Function) {
			for _, b := range g.Blocks {
				for _, in := range b.Instrs {
					c, ok := in.(ssa.CallInstruction)
					if !ok {
						continue
					}
					name := calleeName(c.Common())
					if pred(name) {
						out = append(out, DeepSite{Site: c, S: cs, Path: append([]ssa.CallInstruction(nil), path...), Syms: append([]*Sym(nil), syms...)})
						continue
					}
					callee := c.Common().StaticCallee()
					if callee == nil || !InModule(callee) || callee.Blocks == nil || depth >= 4 || g != f {
						continue
					}
					if callee.Object() != nil && callee.Object().Exported() && callee.Signature.Recv() == nil && fnPkgPath(callee) != fnPkgPath(f) {
						continue // another package's API: its own rules speak for it
					}
					rec := false
					for _, h := range cs.stack {
						if h == callee {
							rec = true
						}
					}
					if rec {
						continue
					}
					ch := cs.child(callee)
					cs.bindArgs(ch, callee, c.Common().Args, c)
					visit(ch, callee, append(path, c), append(syms, cs), depth+1)
				}
			}
			for _, a := range g.AnonFuncs {
				walk(a)
			}
		}
		walk(f)
	}
	visit(s, s.fn, nil, nil, 0)
	return out
}

// deepFacts: the branch facts that hold when the deep site executes: those at
// each call of its path (in the caller's function) and those at the site in
// its own function, each with its evaluator, expanded through succeeded helper
// calls.
func (p *Prog) deepFacts(ds DeepSite) []SAtom {
	var out []SAtom
	for i, c := range ds.Path {
		cs := ds.Syms[i]
		out = append(out, p.expandFacts(cs, cs.ff.At(c.Block()), 0)...)
	}
	if ds.Site.Parent() == ds.S.fn {
		out = append(out, p.expandFacts(ds.S, ds.S.ff.At(ds.Site.Block()), 0)...)
	}
	return out
}

// depConsts: sizes fixed by the dependencies' group parameters (circl v1.3.7,
// reviewed: P-384 compressed element 49 bytes / scalar 48; ristretto255 32 /
// 32). A getter and the literal (or a named constant of the same value) are
// the same width, so terms and patterns are compared after this rewriting.
var depConsts = strings.NewReplacer(
	"conv<int>(call<(github.com/cloudflare/circl/group.Group).Params>(load(global:github.com/cloudflare/circl/group.P384)).CompressedElementLength)", "const:49",
	"call<(github.com/cloudflare/circl/group.Group).Params>(load(global:github.com/cloudflare/circl/group.P384)).CompressedElementLength", "const:49",
	"conv<int>(call<(github.com/cloudflare/circl/group.Group).Params>(load(global:github.com/cloudflare/circl/group.P384)).ScalarLength)", "const:48",
	"call<(github.com/cloudflare/circl/group.Group).Params>(load(global:github.com/cloudflare/circl/group.P384)).ScalarLength", "const:48",
	"conv<int>(call<(github.com/cloudflare/circl/group.Group).Params>(load(global:github.com/cloudflare/circl/group.Ristretto255)).CompressedElementLength)", "const:32",
	"conv<int>(call<(github.com/cloudflare/circl/group.Group).Params>(load(global:github.com/cloudflare/circl/group.Ristretto255)).ScalarLength)", "const:32",
	"conv<int>(call<(github.com/cloudflare/circl/group.Group).Params>(call<(github.com/cloudflare/circl/oprf.Suite).Group>(load(global:github.com/cloudflare/circl/oprf.SuiteRistretto255))).CompressedElementLength)", "const:32",
	"conv<int>(call<(github.com/cloudflare/circl/group.Group).Params>(call<(github.com/cloudflare/circl/oprf.Suite).Group>(load(global:github.com/cloudflare/circl/oprf.SuiteP384))).CompressedElementLength)", "const:49",
	"call<(crypto.Hash).Size>(const:6)", "const:48",
	"call<(crypto.Hash).Size>(const:5)", "const:32",
	"call<(crypto.Hash).Size>(const:7)", "const:64",
)

// onlyVia: every chain of in-module static calls that reaches g starts in, or
// passes through, one of the functions in via (g itself may be in via). A
// function with no in-module caller that is not in via - an exported entry
// point, a method value taken, init - breaks the condition.
func (p *Prog) onlyVia(g *ssa.Function, via map[*ssa.Function]bool) bool {
	seen := map[*ssa.Function]bool{}
	var up func(f *ssa.Function, depth int) bool
	up = func(f *ssa.Function, depth int) bool {
		for f.Parent() != nil {
			f = f.Parent()
		}
		if via[f] {
			return true
		}
		if seen[f] {
			return true
		}
		seen[f] = true
		if depth > 8 {
			return false
		}
		if f.Object() != nil && f.Object().Exported() {
			return false // callable from outside the module
		}
		sites := p.callSitesOf(f)
		if len(sites) == 0 {
			return false
		}
		for _, c := range sites {
			if !up(c.Parent(), depth+1) {
				return false
			}
		}
		return true
	}
	return up(g, 0)
}

// forwardedBool: atom a states the truth of result k (not the verdict) of a
// call to a module helper; on every return of the helper that can
// produce this truth value, result k is one and the same SSA value fv of the
// helper. Returns the helper's evaluator (parameters bound) and fv.
func (p *Prog) forwardedBool(s *Sym, a Atom) (*Sym, ssa.Value, bool) {
	ex, isEx := a.V.(*ssa.Extract)
	if !isEx || a.Kind != Truth {
		return nil, nil, false
	}
	c, isC := ex.Tuple.(*ssa.Call)
	if !isC {
		return nil, nil, false
	}
	f := c.Call.StaticCallee()
	if f == nil || !InModule(f) || f.Blocks == nil || ex.Index == verdictIndex(f) {
		return nil, nil, false
	}
	for _, g := range s.stack {
		if g == f {
			return nil, nil, false
		}
	}
	ch := s.child(f)
	s.bindArgs(ch, f, c.Call.Args, c)
	var fv ssa.Value
	for _, rp := range ch.ff.RetPoints(verdictIndex(f)) {
		// every return counts, failing ones too: the caller knows the boolean,
		// not necessarily the error
		if ex.Index >= len(rp.Vals) {
			return nil, nil, false
		}
		v := rp.Vals[ex.Index]
		if k, isK := v.(*ssa.Const); isK {
			if k.Value != nil && (k.Value.String() == "true") != a.Pol {
				continue // this return cannot be the one taken
			}
			return nil, nil, false // a constant of the same truth: nothing is known there
		}
		if fv != nil && fv != v {
			return nil, nil, false
		}
		fv = v
	}
	if fv == nil {
		return nil, nil, false
	}
	return ch, fv, true
}
